#!/bin/bash
# trymutant.sh <patch> <ID> [tier] : apply patch to /repo, run the check, revert. Prints CAUGHT/MISSED.
P=$1; ID=$2; TIER=${3:-quick}
cd /repo || exit 2
if [ -n "$(git status --porcelain --untracked-files=no)" ]; then echo "repo dirty"; exit 2; fi
git apply "$P" || { echo "APPLY-FAILED $P"; exit 2; }
OUT=$(cd /verif && VERIF_EVIDENCE_DIR=/verif/target/mutant-evidence timeout 3000 bin/vcheck $ID $TIER 2>&1)
RC=$?
git -C /repo checkout -- .
# evidence was overwritten by the mutant run: caller should re-run the check on the clean tree
V=$(echo "$OUT" | grep -c "^VIOLATION")
SIG=$(echo "$OUT" | grep -m1 "signature=" | sed 's/.*signature=\([^ ]*\).*/\1/')
if [ $RC -eq 1 ] && [ $V -gt 0 ]; then echo "CAUGHT $(basename $P) by $ID rc=$RC sig=$SIG"; else echo "MISSED $(basename $P) by $ID rc=$RC"; echo "$OUT" | tail -5; fi
rm -rf /verif/replays/$ID 2>/dev/null
