#!/bin/bash
# slot.sh <N> <patch> <ID> [tier]
# Mutation trial in an isolated slot, so that several trials can run in parallel and /repo itself
# stays untouched: /tmp/vslot-<N>/repo is a scratch git worktree of /repo's HEAD,
# /tmp/vslot-<N>/verif a copy of /verif whose harness points at that worktree (own target dir).
# Prints "CAUGHT|MISSED|INCONCLUSIVE <patch> <ID> rc=.. <signature>" like trymutant.sh.
# `slot.sh <N> rm` removes the slot with its build output.
N=$1
SLOT=/tmp/vslot-$N
if [ "$2" = rm ]; then
  git -C /repo worktree remove --force $SLOT/repo 2>/dev/null
  rm -rf $SLOT
  git -C /repo worktree prune
  exit 0
fi
if [ "$2" = none ]; then PATCH=none; else PATCH=$(readlink -f "$2"); fi; ID=$3; TIER=${4:-quick}
mkdir -p $SLOT
if [ ! -d $SLOT/repo ]; then
  git -C /repo worktree add -q --detach $SLOT/repo HEAD || exit 2
fi
# the slot follows /repo's HEAD (fix / hook commits)
git -C $SLOT/repo checkout -q -- . && git -C $SLOT/repo checkout -q --detach $(git -C /repo rev-parse HEAD) || exit 2
# stage a copy of /verif with the paths rewritten; copy only files whose content changed so that
# cargo does not rebuild for nothing
rm -rf $SLOT/stage; mkdir -p $SLOT/stage $SLOT/verif
rsync -a --exclude target --exclude .git --exclude evidence --exclude 'replays/C[0-9][0-9]' --exclude seeded --exclude seeded2 --exclude corpus /verif/ $SLOT/stage/
sed -i "s|/repo/|$SLOT/repo/|g" $SLOT/stage/harness/vh/Cargo.toml $SLOT/stage/harness/c07rt/Cargo.toml $SLOT/stage/harness/vh/src/props/c07.rs
sed -i "s|/verif/target|$SLOT/verif/target|" $SLOT/stage/harness/.cargo/config.toml
sed -i "s|^ROOT=/verif|ROOT=$SLOT/verif|; s|git -C /repo|git -C $SLOT/repo|g" $SLOT/stage/bin/vcheck
rsync -rc --delete --exclude target --exclude evidence --exclude 'replays/C[0-9][0-9]' $SLOT/stage/ $SLOT/verif/
chmod +x $SLOT/verif/bin/*
mkdir -p $SLOT/verif/evidence $SLOT/verif/target
cd $SLOT/repo || exit 2
if [ "$PATCH" != none ]; then git apply "$PATCH" || { echo "PATCH-FAILED $PATCH"; exit 2; }; fi
OUT=$(cd $SLOT/verif && VERIF_ROOT=$SLOT/verif timeout 3000 bin/vcheck $ID $TIER 2>&1)
rc=$?
git -C $SLOT/repo checkout -q -- .
SIG=$(echo "$OUT" | grep -m1 -oE "signature=[^ ]+" )
if [ $rc -eq 1 ] && echo "$OUT" | grep -q "^VIOLATION property=$ID"; then R=CAUGHT; elif [ $rc -eq 0 ]; then R=MISSED; else R=INCONCLUSIVE; fi
echo "$R $(basename $PATCH) $ID rc=$rc $SIG"
if [ $R != CAUGHT ]; then echo "$OUT" | tail -8 | cut -c1-300 | sed 's/^/    | /'; fi
rm -rf $SLOT/verif/replays/$ID 2>/dev/null
exit 0
