#!/usr/bin/env python3
"""mksensitivity.py : regenerate /verif/SENSITIVITY.md from the committed trial records
(seeded/*/meta.json, seeded2/*/meta.json, mutants/RESULTS.tsv, mutants2/RESULTS.tsv, mutants2/INDEX.tsv).
`mksensitivity.py collect` first folds the raw slot/trymutant outputs under target/ into the
RESULTS.tsv files (last result per (mutant, check) wins)."""
import glob, json, os, re, sys

ROOT = "/verif"

def collect():
    # round 1 own mutants
    rows = {}
    p = f"{ROOT}/target/mutant-results.txt"
    if os.path.exists(p):
        for l in open(p):
            m = re.match(r"(CAUGHT|MISSED|INCONCLUSIVE) (\S+)\.diff by (\S+) rc=\d+ sig=(\S*)", l)
            if m:
                rows[(m.group(2), m.group(3))] = (m.group(1), m.group(4))
    old = f"{ROOT}/mutants/RESULTS.tsv"
    if os.path.exists(old):
        for l in open(old):
            f = l.rstrip("\n").split("\t")
            if len(f) == 4 and (f[0], f[1]) not in rows:
                rows[(f[0], f[1])] = (f[2], f[3])
    with open(old, "w") as o:
        for (m, c), (r, s) in sorted(rows.items()):
            o.write(f"{m}\t{c}\t{r}\t{s}\n")
    # round 2: sub-agent mutants, in time order of the files
    rows = {}
    old = f"{ROOT}/mutants2/RESULTS.tsv"
    if os.path.exists(old):
        for l in open(old):
            f = l.rstrip("\n").split("\t")
            if len(f) == 4:
                rows[(f[0], f[1])] = (f[2], f[3])
    # batches in the order they were started (re-runs after a strengthening come last)
    files = []
    for pat in ("mut2-results-*", "seed2-results-*", "seed2b-results-*", "seed2c-results-*", "rerun-results-*", "regr-results-*", "regr2-results-*"):
        files += sorted(glob.glob(f"{ROOT}/target/{pat}.txt"))
    for fn in files:
        for l in open(fn):
            m = re.match(r"(CAUGHT|MISSED|INCONCLUSIVE) (\S+)\.diff (\S+) rc=\d+ ?(?:signature=(\S+))?", l)
            if m and m.group(2) != "patch":
                rows[(m.group(2), m.group(3))] = (m.group(1), m.group(4) or "")
    own = {k: v for k, v in rows.items() if k[0][0].islower()}
    rows = {k: v for k, v in rows.items() if not k[0][0].islower()}
    with open(old, "w") as o:
        for (m, c), (r, s) in sorted(rows.items()):
            o.write(f"{m}\t{c}\t{r}\t{s}\n")
    # own mutants that were (re-)tried in slots
    p1 = f"{ROOT}/mutants/RESULTS.tsv"
    r1 = {}
    for l in open(p1):
        f = l.rstrip("\n").split("\t")
        if len(f) == 4:
            r1[(f[0], f[1])] = (f[2], f[3])
    r1.update(own)
    with open(p1, "w") as o:
        for (m, c), (r, s) in sorted(r1.items()):
            o.write(f"{m}\t{c}\t{r}\t{s}\n")

def table_seeds(d):
    out = ["| seed | what it needs to manifest | caught by | needed strengthening? |", "|---|---|---|---|"]
    for p in sorted(glob.glob(f"{ROOT}/{d}/C*/meta.json")):
        m = json.load(open(p))
        st = m.get("strengthened") or ("yes" if m.get("strengthening_needed") else "no")
        if not m.get("strengthening_needed") and not str(st).startswith("yes"):
            st = "no" + (f" ({st})" if st not in ("no", "", None) else "")
        out.append(f"| {m['property']} | {m['breaks']} - needs: {m['needs']} | {m['caught_by']} | {st} |")
    return "\n".join(out)

def collect_robust():
    res = {}
    for sd in ("5", "66", "777"):
        p = f"{ROOT}/target/robust-{sd}.txt"
        if not os.path.exists(p):
            return
        for l in open(p):
            m = re.match(r"(CAUGHT|MISSED|INCONCLUSIVE) (\S+) (\S+) rc=", l)
            if m:
                res.setdefault((m.group(2), m.group(3)), {})[sd] = m.group(1)
    # patch.diff names are ambiguous: re-read the batch list for the order
    order = [l.split() for l in open("/tmp/rb.txt")] if os.path.exists("/tmp/rb.txt") else []
    rows = []
    for sd in ("5", "66", "777"):
        p = f"{ROOT}/target/robust-{sd}.txt"
        got = [re.match(r"(CAUGHT|MISSED|INCONCLUSIVE) ", l).group(1) for l in open(p) if re.match(r"(CAUGHT|MISSED|INCONCLUSIVE) ", l)]
        rows.append(got)
    with open(f"{ROOT}/seeded/ROBUSTNESS.tsv", "w") as o:
        for i, (patch, cid) in enumerate(order):
            name = patch.replace("/verif/", "").replace("/patch.diff", "").replace(".diff", "")
            o.write("\t".join([name, cid] + [r[i] if i < len(r) else "?" for r in rows]) + "\n")

def main():
    if len(sys.argv) > 1 and sys.argv[1] == "collect":
        collect()
        collect_robust()
    idx = {}
    p = f"{ROOT}/mutants2/INDEX.tsv"
    if os.path.exists(p):
        for l in open(p):
            f = l.rstrip("\n").split("\t")
            if len(f) >= 4:
                idx[f[0].replace(".diff", "")] = (f[1], f[2], f[3])
    r1 = [l.rstrip("\n").split("\t") for l in open(f"{ROOT}/mutants/RESULTS.tsv")] if os.path.exists(f"{ROOT}/mutants/RESULTS.tsv") else []
    r2 = [l.rstrip("\n").split("\t") for l in open(f"{ROOT}/mutants2/RESULTS.tsv")] if os.path.exists(f"{ROOT}/mutants2/RESULTS.tsv") else []
    o = []
    o.append("# Sensitivity: which check catches which change\n")
    o.append("Every trial applies one patch to a tree of awslabs/metrique, runs the registered quick command of a check (`bin/vcheck <ID> quick`) against that tree and reverts: `bin/trymutant.sh <patch> <ID>` does it in `/repo` itself (`git -C /repo apply` ... `git -C /repo checkout -- .`), `bin/slot.sh <n> <patch> <ID>` in an isolated slot (scratch git worktree of /repo's HEAD under /tmp plus a copy of the harness pointing at it), which lets several trials run in parallel. CAUGHT = exit 1 and a `VIOLATION property=<id>` line; MISSED = exit 0. Nothing here is ever committed in /repo.\n")
    o.append("## Changes written by independent sub-agents, round 1 (`/verif/seeded/<id>/`)\n")
    o.append("Each sub-agent received only the text of one property and its own scratch git worktree of /repo; every change compiles, keeps the unedited 349-test suite green, and comes with a demonstration that fails with the change and passes without it (all three re-confirmed with `bin/verify-seed.sh`).\n")
    o.append(table_seeds("seeded"))
    o.append("\n## Changes written by independent sub-agents, round 2 (`/verif/seeded2/<id>/`)\n")
    o.append("Same protocol; in addition each sub-agent was told, in one sentence, what the round-1 change for its property was and asked for a different code site, trigger and (where the property has several) clause.\n")
    o.append(table_seeds("seeded2"))
    o.append("\n## Changes written by independent sub-agents, round 3 (`/verif/seeded3/<id>/`)\n")
    o.append("Same protocol, with both earlier changes described and the request to pick a clause, code path, input class or API entry point neither of them touched.\n")
    o.append(table_seeds("seeded3"))
    o.append("\n## Changes written by independent sub-agents, round 4 (`/verif/seeded4/<id>/`)\n")
    o.append("All three earlier changes described; asked for what they left untouched (another entry point, trait impl, input size, builder option, thread placement).\n")
    o.append(table_seeds("seeded4"))
    o.append("\n## Changes written by independent sub-agents, round 5 (`/verif/seeded5/<id>/`)\n")
    o.append("All four earlier changes described; asked for another clause, entry point, trait impl, wrapper, input class or boundary, thread placement, builder option, type parameter or feature interaction.\n")
    o.append(table_seeds("seeded5"))
    o.append("\n## Changes written by independent sub-agents, round 6 (`/verif/seeded6/<id>/`, 16 properties)\n")
    o.append("All five earlier changes described. Run after the second reviewer pass (DESIGN 8.2); time allowed sixteen of the twenty properties.\n")
    o.append(table_seeds("seeded6"))
    o.append("\n## Changes written by independent sub-agents, round 7 (`/verif/seeded7/<id>/`)\n")
    o.append("All six earlier changes described (five for the four properties round 6 had skipped). Run in the last session, against the harness as committed at the end of the previous one.\n")
    o.append(table_seeds("seeded7"))
    rb = f"{ROOT}/seeded/ROBUSTNESS.tsv"
    if os.path.exists(rb):
        o.append("\n## Seed robustness of the concurrency-dependent catches\n")
        o.append("The changes whose detection depends on a thread interleaving were each re-tried with three further `VERIF_SEED` values (5, 66, 777) at the quick tier.\n")
        o.append("| change | check | seed 5 | seed 66 | seed 777 |\n|---|---|---|---|---|")
        for l in open(rb):
            f = l.rstrip("\n").split("\t")
            o.append("| " + " | ".join(f) + " |")
    rb7 = f"{ROOT}/seeded7/ROBUSTNESS.tsv"
    if os.path.exists(rb7):
        o.append("\n## Seed robustness of the round-7 catches that depend on an interleaving or on real time\n")
        o.append("Re-tried at the quick tier with `VERIF_SEED` = 7014, 14015 and 21016. For C01 the seed-7014 column shows both the harness before `c01-append-during-flush-then-shutdown` was added (MISSED) and the final one (CAUGHT); every other cell is the final harness.\n")
        o.append("| change | check | seed 7014 | seed 14015 | seed 21016 | note |\n|---|---|---|---|---|---|")
        for l in open(rb7):
            f = l.rstrip("\n").split("\t")
            o.append("| " + " | ".join(f) + " |")
    o.append("\n## Own mutants, EMF family (`/verif/mutants/*.diff`, from the sensitivity lists in DESIGN.md section 2)\n")
    o.append("| mutant | check | result | signature |\n|---|---|---|---|")
    for f in r1:
        o.append(f"| {f[0]} | {f[1]} | {f[2]} | {f[3]} |")
    o.append("\n## Single-site mutants written by sub-agents (`/verif/mutants2/*.diff`)\n")
    o.append("Three sub-agents (property texts + a scratch worktree, nothing from /verif) wrote 4-7 small single-site mutants per property for the non-EMF properties; `crate tests` says whether the touched crate's own tests still pass with the mutant (a mutant that fails them would be stopped by the existing suite anyway). Where a mutant was MISSED first and CAUGHT after a check was strengthened, the last result is shown and the strengthening is named in DESIGN.md section 10.\n")
    o.append("| mutant | crate tests | check | result | signature | what it breaks |\n|---|---|---|---|---|---|")
    for f in r2:
        pid, ct, desc = idx.get(f[0], ("", "", ""))
        o.append(f"| {f[0]} | {ct} | {f[1]} | {f[2]} | {f[3]} | {desc[:260]} |")
    n2 = len(r2); c2 = sum(1 for f in r2 if f[2] == "CAUGHT")
    o.append(f"\n{c2} of {n2} (mutant, check) trials CAUGHT.\n")
    open(f"{ROOT}/SENSITIVITY.md", "w").write("\n".join(o) + "\n")

main()
