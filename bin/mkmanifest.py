#!/usr/bin/env python3
"""Regenerates /verif/MANIFEST.json from the table below. Properties whose check is not built yet
are listed under not_applicable with that reason (temporary, while building)."""
import json, os, sys

ROOT = "/verif"

# id -> (technique, level text, level note, design ref)
CHECKS = {
 "C07": ("generated programs: proptest-generated trees of #[metrics] type definitions written as Rust source, compiled and run; reference interpreter of the naming rules as oracle; tree-level shrinking by recompilation",
         "Program generation: type-definition trees (depth <= 3) covering every attribute combination the property lists are emitted as source into scratch crates with path dependencies on /repo, compiled, executed, and the recorded (name, kind, value, unit) list and sample-group pairs compared with a reference interpreter evaluated on the same tree; failures are shrunk by deleting fields/variants/attributes with one rustc run per step.",
         "Case conversion itself is delegated to the Inflector crate (the documented engine); what is tested is the composition. Programs are sampled; compile errors are inconclusive, never violations. One known finding (flatten prefix missing from sample-group names) is listed in known_findings.json because the macro's own snapshot tests pin the defective output.",
         "DESIGN.md §2 C07"),
 "C10": ("stateful proptest (input/flush/guard sequences) against a reference map per flush epoch; real producer threads for the worker sink; termination by counting flush() calls on a probe; libFuzzer target agg_oracle with the keyed/tee oracle inside (thorough tier)",
         "Generated sequences of keyed inputs, flushes and merge-on-drop guards through KeyedAggregator, TeeSink (incl. a hand-written colliding-hash Cow key and a non-aggregating branch), WorkerSink with 1-4 producers and a 1 h / 0 / 100 us / 2 ms periodic flush, a stalled worker with up to 20 000 entries queued behind it, embedded Aggregate and MutexSink: one aggregate per key per flush with exact sums / distributions / keep-last, conservation over all epochs, flush barrier, worker termination after the last handle is dropped.",
         "Reference accumulator is a BTreeMap written from the docs; worker/producer interleavings sampled natively.",
         "DESIGN.md §2 C10"),
 "C17": ("stateful proptest histories over worker threads and tokio runtimes against a reference routing state machine; append-vs-detach race; child processes for forget()",
         "Model-based: generated histories of attach / detach / thread-local and runtime test-sink installs / appends (incl. every documented panic path) on a harness-declared global and on ServiceMetrics; tagged collectors must hold exactly the model's (destination, entry) list after every append; appends racing with a detach are accounted for exactly; forget() histories run in child processes.",
         "One history at a time per process (statics); thread/runtime identity by index; races sampled.",
         "DESIGN.md §2 C17"),
 "C20": ("proptest multi-phase scripts with real updater/reader threads; conservation invariants over all readouts; RecLog replay of each readout; the MetricReporter task on a tokio runtime with a capturing sink",
         "Generated update scripts (counter increments, histogram samples through record and record_many, gauge sets, describe calls) run on 1-8 threads while a reader thread calls readout() at generated points: counter deltas sum to the increments, histogram bucket counts to the samples (values within bucket error), gauges read the last set value, every readout writes names / label-dimensions / described units (all 18 facade units) / injected timestamp and is accepted by Emf::all_validations; through MetricReporter the periodic readouts plus the final one at shutdown carry every update.",
         "Update/readout interleavings sampled natively; one writer per gauge key; units asserted at quiescent points.",
         "DESIGN.md §2 C20"),
 "C06": ("exhaustive enumeration of drop orders (bounded counts) + proptest long sequences + thread-distributed final drops; 15-line reference model of the keep-alive protocol; counting sink with started-flag snapshots",
         "Model-based: every well-formed sequence of guard/handle/owner creations and drops up to length 8 (quick) / 10 (thorough) is executed on a real #[metrics] entry with append_on_drop, the sink's count compared with the model after every operation; random sequences to length 60 (final drops also during panic unwinding); remaining objects dropped by 2-4 racing threads with a generated schedule, the append instant checked against the model condition.",
         "Arc/Mutex internals run natively; thread placement is sampled. For concurrent drops only a necessary condition (flags set before each drop) is asserted.",
         "DESIGN.md §2 C06"),
 "C13": ("exhaustive enumeration of slot op sequences + proptest + two-thread drop races; reference model of wait/discard semantics",
         "Model-based: all sequences up to length 6 (quick) / 7 (thorough) of open(wait|discard) / mutate / drop guard / drop parent / force-flush / wait_for_data on a real #[metrics] entry with a Slot and a LazySlot; sink count compared after every op and the emitted entry's fields against the model; parent and guards dropped on different threads with generated perturbation, inside a tokio task with an exhausted cooperative budget, and during panic unwinding.",
         "tokio oneshot / Arc internals run natively; interleavings sampled.",
         "DESIGN.md §2 C13"),
 "C01": ("proptest-generated producer scripts + fuel/fault/jitter scripts on real threads; exactly-once / order invariant over a global event log",
         "Schedule- and input-sampling: 1-6 real producer threads run generated op scripts against the real queue and writer thread; stream results, writer progress (fuel gate), perturbation points, whether the end meets a backlog and whether it is shut_down() or forget() + last-handle drop are part of the generated case. After shutdown the event log must show every appended entry exactly once, per-producer order, only rate-limited in-band reports as extras.",
         "Interleavings inside crossbeam/std/tokio primitives are sampled natively, not enumerated; absence is not claimed. Trusts the event log (one mutex, linearised). One placement is owned rather than sampled: c01-append-during-flush-then-shutdown holds the writer inside stream.flush() while entries are appended and the end of the queue's life begins.",
         "DESIGN.md §2 C01"),
 "C04": ("stateful proptest over the real WakerTracker (hook H2a) with a model ring buffer + thread-level fuel-gated runs; barrier invariant over the event log; liveness by counting pops",
         "Two levels: (1) model-based state-machine exploration of the real WakerTracker with real FlushSignals: barrier (S1), busy-loop freedom (S2) and bounded completion (L1, counted in handle calls / written entries); (2) real queue with a fuel-gated stream and a producer that keeps the queue non-empty: completion within capacity+128 written entries, barrier over the log, immediate completion after shutdown; (3) 0-240 flush requests from 1-4 threads while the writer is held inside the stream: none may complete before its barrier.",
         "Level 1 assumes the preconditions documented in the source for WakerTracker's caller; the send/try_recv/park interleaving is only exercised natively at level 2.",
         "DESIGN.md §2 C04"),
 "C05": ("stateful proptest histories (append/clone/drop/flush/forget/drop-handle, typed, boxed, global sink) with a fuel-gated stream; invariant over the event log; termination decided by counting periodic flushes",
         "Generated shutdown histories on real threads: the join/attach handle is dropped while entries are still queued (also by a guard object during panic unwinding, also while another thread keeps appending to the global), or forgotten with all queue handles dropped (also while the writer is inside a periodic flush, also with unawaited flush futures still alive); the log must show drain, flush-after-last-entry, stream drop, and silence afterwards; the forgotten queue must close its stream before 60 further periodic flushes.",
         "Thread interleavings sampled; 'runs forever' is decided by counting the writer's own periodic flushes, wall-clock only yields inconclusive.",
         "DESIGN.md §2 C05"),
 "C09": ("proptest append/progress scripts on a stalled (fuel-gated) writer, 1-4 producers; sound necessary conditions N1-N5 over the event log; overflow counter from a local metrics recorder",
         "Generated sequences of appends interleaved with exact amounts of writer progress (including none) for capacities 1-16: order kept, an entry lost only if >= capacity newer ones followed, newest entries always survive a stalled writer, overflow counter == losses, appends never block.",
         "The survivor set is racy by one entry by design (writer may hold the oldest): only schedule-independent conditions are asserted.",
         "DESIGN.md §2 C09"),
 "C02": ("proptest-generated entries x formatter configs, single calls and sequences on one formatter with failing writers; strict-JSON validity predicate; libFuzzer targets emf_oracle / emf_sequence with the same oracle inside (thorough tier)",
         "Generated-input search: arbitrary entry call sequences x all formatter configurations x sampling, every accepted output parsed by an independent strict RFC 8259 parser and checked for the _aws shape; rejected => zero bytes. Finds and shrinks any input that yields malformed output; does not prove absence.",
         "Trusts vh::json (strict parser, unit-tested) and proptest's generators; writer is an in-memory Vec.",
         "DESIGN.md §2 C02"),
 "C03": ("proptest valid-by-construction entries vs independent reference interpreter (RefEmf), multiset comparison of parsed records",
         "Generated-input search against a reference model: every accepted output is parsed and compared, as a multiset of records, with an independent interpretation of the recorded call sequence, on a fresh formatter and on one that has already formatted (accepted or rejected) other entries (values, Values/Counts, units, resolution, namespaces, dimension sets, timestamp, sampling weight). Both directions: nothing missing, nothing extra.",
         "Trusts RefEmf (written from the docs and in-tree expected outputs, no shared code with the formatter), vh::json, RecLog (cross-checked against test_util::to_test_entry in every case).",
         "DESIGN.md §2 C03"),
 "C08": ("proptest: valid-by-construction entries + injected defects; differential validated vs unvalidated bytes; duplicate-member validity predicate; both build profiles",
         "Generated-input search in two build profiles (debug assertions on and off): (a) accepted => no duplicated member (arbitrary + near-miss entries), (b) each of 15 defect kinds injected singly/combined at generated positions => Validation and zero bytes, (c) valid entries accepted and byte-identical (multiset of lines) to the unvalidated twin configuration.",
         "Trusts the defect injector (each injection is one of the property's listed defects by construction) and vh::json.",
         "DESIGN.md §2 C08"),
 "C12": ("proptest + exhaustive f32 sweep; scripted RNG; exact u128 arithmetic oracle; bisection for the weight distribution; stateful interval histories for the congressional sampler",
         "Generated-input search with exact oracles: decision (emit iff draw <= rate, rate passed on) for fixed-fraction and congressional samplers with the draw derived from scripted rng words; EMF weight for every f32 rate (thorough: all 1.07e9; quick: strided) against floor/ceil computed in u128, unbiasedness by bisection over the 53-bit draw; congressional invariants (range, =1 under target, budget, monotonicity) after every interval of generated histories.",
         "Trusts rand's documented f32/f64 conversion (used identically on both sides), hook H4 to end intervals, u128 arithmetic; tolerances: 1e-12 relative for the expectation, 1e-3 / 1e-5 for the f32 congressional budget / monotonicity.",
         "DESIGN.md §2 C12"),
 "C14": ("proptest sequences; differential long-lived vs freshly built formatter at every position",
         "Generated sequences of accepted / rejected / split / sampled / multi-megabyte / I/O-failed entries over one long-lived formatter (plain, cloned mid-way, SampledEmf) compared position by position with a fresh formatter of the same configuration: same decision, same multiset of lines.",
         "Trusts the fresh formatter as reference (differential), line-multiset comparison, scripted writers.",
         "DESIGN.md §2 C14"),
 "C15": ("proptest: wrapper compositions vs documented transform of the recorded call log (RecLog); sample groups compared",
         "Generated-input search against a reference transform: arbitrary entries under 1-4 dynamically chosen entry wrappers (15 kinds), 0-3 statically nested value wrappers (10 kinds), and stream/format-level wrappers; the recorded call sequence and sample group must equal the documented transform of the plain entry's.",
         "Trusts RecLog (records every call in order) and the 20-line transform model; stacks that the library documents as panicking (flags of different families) are not generated.",
         "DESIGN.md §2 C15"),
 "C16": ("proptest fault scripts + exhaustive k / fault-position enumeration; reference lines from a perfect writer; libFuzzer target io_faults with the same oracles (thorough tier)",
         "Fault injection by generated writer scripts (accept k bytes of a vectored write for every k, Interrupted / Ok(0) / hard error at every call index, flush errors) on all record shapes; bytes received must be exactly the reference lines (or complete lines + a prefix on a hard error); sink level: every later entry reaches every (tee'd) stream exactly once, no panic.",
         "Trusts the scripted writer/stream (harness-owned), reference = same entry through a fresh formatter and a perfect writer. The BackgroundQueue half of the sink clause reuses the C01 driver and oracle (sub-check c16-background-queue).",
         "DESIGN.md §2 C16"),
 "C11": ("proptest value multisets + exhaustive bucket-boundary sweep; run-length pairing oracle; differential atomic vs non-atomic; re-aggregation fixpoint; libFuzzer target hist_oracle with the same oracle inside (thorough tier)",
         "Generated-input search: value multisets built on the 976-bucket layout (every boundary and neighbour exhaustively), repeated observations up to 2^40 occurrences, u64/f64/Duration sources with unit conversion, 1-8 concurrent recorders; oracle = count conservation, per-observation error bound by sorted run-length pairing, bit-identical atomic/non-atomic outputs, exact sort-and-merge output, re-aggregation fixpoint (bitwise for the exponential strategies, rank-wise within 4 ulps of total/occurrences for sort-and-merge).",
         "Trusts the harness' own bucket-layout computation (only used to aim inputs) and f64 arithmetic for the bound; concurrent add_value interleavings are sampled natively.",
         "DESIGN.md §2 C11"),
 "C18": ("exhaustive enumeration of op sequences (model-based) + proptest long sequences; manual clock; reference model of accumulated spans",
         "Model-based: all well-formed stopwatch operation sequences up to length 5 (quick) / 6 (thorough) and random ones to length 200 with 8 live owned guards over a manually advanced clock, the reported duration compared with a 10-line reference model after every operation; timers and timestamps (all epoch formats, all time-source precedence levels) likewise.",
         "Trusts the manual clock (own Time impl, cross-run with the in-tree fake) and exact Duration arithmetic.",
         "DESIGN.md §2 C18"),
 "C19": ("type-level enumeration of all 435 convertible unit pairs x proptest magnitudes; exact integer scale table oracle",
         "Every ordered convertible pair (3x3 time, 20x20 bit/byte(/s), None->26) is instantiated at type level and driven with generated observation lists through WithUnit, Distribution, Mean, Option, round trips and the #[metrics(unit=..)] attribute; oracle = own exact integer scale table (4 ulp), unit names, occurrence preservation, validation errors for strings / values that write another kind, another scale of the same kind, or the sibling kind.",
         "Trusts the scale table written from the CloudWatch unit definitions; overflow/underflow of intermediates is out of scope (not rounding).",
         "DESIGN.md §2 C19"),
}

BUILT = set(CHECKS)
ALL = [json.loads(l)["id"] for l in open(f"{ROOT}/properties.jsonl")]

manifest = {
 "version": 1,
 "setup_cmd": "bin/setup",
 "hooks": {
   "guard": "metrique_verif",
   "enable": "rustc cfg: RUSTFLAGS='--cfg metrique_verif' (set for every harness build by /verif/harness/.cargo/config.toml [build] rustflags)",
   "baseline_off_cmd": "cd /repo && (cargo nextest run --workspace --no-fail-fast --test-threads 8 --offline || cargo test --workspace --no-fail-fast --offline)",
   "source_commits": json.load(open(f"{ROOT}/hooks.json"))["source_commits"] if os.path.exists(f"{ROOT}/hooks.json") else [],
   "add_only": True,
 },
 "engines": [
   {"name": "vh-fuzz", "path": "harness/vh/fuzz", "serves_properties": ["C02", "C10", "C11", "C16"],
    "kind_free_text": "cargo-fuzz / libFuzzer targets emf_oracle, emf_sequence, io_faults, hist_oracle, agg_oracle: bytes decoded with arbitrary::Unstructured into the same case types the proptest checks use, the same oracle functions run inside the target (a violated oracle panics with a VIOLATION text); driven by bin/fuzzrun.sh from the thorough tier"},
   {"name": "vh", "path": "harness/vh", "serves_properties": sorted(BUILT),
    "kind_free_text": "proptest 1.11 TestRunner driven from a binary (vcheck): fixed seeds from VERIF_SEED, classification + distinct non-trivial counting, shrinking, JSON replay files, known-findings, evidence writer; reference models / strict JSON / recording writers as oracles"},
 ],
 "checks": [],
 "not_applicable": [],
 "notes": "bin/vcheck <ID> <tier> rebuilds the harness against /repo's working tree (cargo path dependencies) before every run. Exit 0 held / 1 VIOLATION / 2 inconclusive. Replays under replays/regress/<ID>/ run first on every invocation. The thorough tier of C02, C10, C11 and C16 additionally runs libFuzzer campaigns (cargo +nightly fuzz, harness/vh/fuzz, oracle inside the target; VERIF_FUZZ_RUNS executions each, default 1.5 M).",
}
for pid in ALL:
    if pid in CHECKS:
        tech, text, note, ref = CHECKS[pid]
        manifest["checks"].append({
            "property_id": pid,
            "quick_cmd": f"bin/vcheck {pid} quick",
            "thorough_cmd": f"bin/vcheck {pid} thorough",
            "evidence_file": f"/verif/evidence/{pid}.json",
            "replay_cmd_template": f"bin/vcheck {pid} --replay {{path}}",
            "engine": "vh",
            "level_claimed": {"category": "exploration", "text": text, "design_ref": ref},
            "level_note": note,
            "technique": tech,
        })
    else:
        manifest["not_applicable"].append({"property_id": pid, "reason": "check under construction in this session (planned per DESIGN.md; not a statement that the technique cannot apply)"})

json.dump(manifest, open(f"{ROOT}/MANIFEST.json", "w"), indent=1)
print("wrote MANIFEST.json with", len(manifest["checks"]), "checks")
