#!/bin/bash
# slotbatch.sh <slot N> <list file: "patch ID [tier]" per line> <out file>
N=$1; LIST=$2; OUT=$3
while read -r patch id tier; do
  [ -z "$patch" ] && continue
  /verif/bin/slot.sh $N $patch $id ${tier:-quick} >> $OUT 2>&1
done < $LIST
echo "BATCH-DONE slot=$N" >> $OUT
