#!/usr/bin/env python3
"""mkmutant.py <name> <file-relative-to-/repo> <<< JSON {"old": "...", "new": "..."}
Creates /verif/mutants/<name>.diff from a single textual replacement (must match exactly once)."""
import sys, json, subprocess
name, path = sys.argv[1], sys.argv[2]
spec = json.load(sys.stdin)
p = "/repo/" + path
s = open(p).read()
assert s.count(spec["old"]) == 1, f"pattern matches {s.count(spec['old'])} times"
open(p, "w").write(s.replace(spec["old"], spec["new"]))
d = subprocess.run(["git", "-C", "/repo", "diff"], capture_output=True, text=True).stdout
open(f"/verif/mutants/{name}.diff", "w").write(d)
subprocess.run(["git", "-C", "/repo", "checkout", "--", "."])
print("wrote", name, len(d))
