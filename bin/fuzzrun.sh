#!/bin/bash
# fuzzrun.sh <target> <runs> <ID> : coverage-guided campaign with the semantic oracle inside the
# target (libFuzzer via cargo-fuzz, nightly). Prints a VIOLATION line on a crash, appends a "fuzz"
# record to evidence/<ID>.json. Exit 0 / 1 / 2 like the checks.
T=$1; RUNS=$2; ID=$3
SEED=${VERIF_SEED:-24301}
[ "$SEED" = 0 ] && SEED=1
cd /verif/harness/vh || exit 2
export CARGO_NET_OFFLINE=true
WORK=/verif/target/fuzz-work/$T
rm -rf $WORK; mkdir -p $WORK /verif/replays/$ID /verif/corpus/$T
LOG=/verif/target/fuzz-$T.log
cargo +nightly fuzz build --target-dir /verif/target/fuzz $T > /verif/target/fuzz-build-$T.log 2>&1 || { echo "INCONCLUSIVE: fuzz build failed, see /verif/target/fuzz-build-$T.log" >&2; exit 2; }
t0=$(date +%s)
mkdir -p $WORK /verif/replays/$ID /verif/corpus/$T
cargo +nightly fuzz run --target-dir /verif/target/fuzz $T $WORK /verif/corpus/$T -- -runs=$RUNS -seed=$SEED -len_control=0 -max_len=768 -artifact_prefix=/verif/replays/$ID/fuzz-$T- > $LOG 2>&1
rc=$?
t1=$(date +%s)
EXECS=$(grep -oE "Done [0-9]+ runs" $LOG | grep -oE "[0-9]+" | tail -1)
[ -z "$EXECS" ] && EXECS=$(grep -oE "^#[0-9]+" $LOG | tr -d '#' | tail -1)
COV=$(grep -oE "cov: [0-9]+" $LOG | tail -1 | grep -oE "[0-9]+")
NCORP=$(ls $WORK | wc -l)
python3 - "${VERIF_EVIDENCE_DIR:-/verif/evidence}" "$ID" "$T" "${EXECS:-0}" "${COV:-0}" "$NCORP" "$((t1-t0))" "$rc" <<'PY'
import json,sys
evd,i,t,execs,cov,ncorp,secs,rc=sys.argv[1:]
p=f"{evd}/{i}.json"
try:
    e=json.load(open(p))
    e["coverage"].setdefault("fuzz",[]).append({"target":t,"engine":"libFuzzer (cargo-fuzz)","executions":int(execs),"edge_coverage":int(cov),"corpus_files_after":int(ncorp),"wall_s":int(secs),"crashed":int(rc)!=0,"oracle":"the proptest check's oracle runs inside the target (panic = violation)"})
    json.dump(e,open(p,"w"),indent=1)
except Exception as ex:
    print("evidence update failed",ex,file=sys.stderr)
PY
if [ $rc -ne 0 ]; then
  ART=$(ls -t /verif/replays/$ID/fuzz-$T-* 2>/dev/null | head -1)
  if grep -q "VIOLATION property=" $LOG && [ -n "$ART" ]; then
    echo "VIOLATION property=$ID replay=$ART"
    grep -m1 "VIOLATION property=" $LOG | cut -c1-600 >&2
    exit 1
  fi
  echo "INCONCLUSIVE: fuzzer exited with $rc without an oracle violation (see $LOG)" >&2
  exit 2
fi
echo "[fuzz:$T] $EXECS executions, cov $COV, ${NCORP} corpus files, $((t1-t0))s" >&2
exit 0
