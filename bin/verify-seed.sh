#!/bin/bash
# verify-seed.sh <ID> <demo-src> <demo-dest-relative> <cargo-test-args...>
# Confirms in the scratch worktree /tmp/mq-seed-<ID>: patch applies to a clean checkout, the unedited
# suite passes with it, the demo fails with it and passes without it.
ID=$1; DEMO=$2; DEST=$3; shift 3
WT=${SEED_WT:-/tmp/mq-seed-$ID}
export CARGO_NET_OFFLINE=true CARGO_TARGET_DIR=$WT/target
cd $WT || exit 2
git checkout -q -- . ; git clean -fdq -e SEED -e target
git apply --check SEED/patch.diff || { echo "PATCH-DOES-NOT-APPLY"; exit 1; }
git apply SEED/patch.diff
echo "== suite with patch"
cargo nextest run --workspace --no-fail-fast --offline 2>&1 | grep -E "Summary|FAIL" | head -5
mkdir -p $(dirname $DEST); cp $DEMO $DEST
echo "== demo with patch (must fail)"
cargo nextest run "$@" --no-fail-fast --offline 2>&1 | grep -E "Summary|FAIL \[" | head -5
git checkout -q -- . 
echo "== demo without patch (must pass)"
cargo nextest run "$@" --no-fail-fast --offline 2>&1 | grep -E "Summary|FAIL \[" | head -5
rm -f $DEST; git checkout -q -- . ; git clean -fdq -e SEED -e target
