#!/bin/bash
# runs every registered check at the given tier on /repo's current tree; prints one line per check
TIER=${1:-quick}
cd /verif
rc_all=0
for id in C01 C02 C03 C04 C05 C06 C07 C08 C09 C10 C11 C12 C13 C14 C15 C16 C17 C18 C19 C20; do
  t0=$(date +%s)
  out=$(bin/vcheck $id $TIER 2>&1); rc=$?
  t1=$(date +%s)
  echo "$id rc=$rc $((t1-t0))s $(echo "$out" | grep -cE '^VIOLATION') violations $(echo "$out" | grep -cE '^KNOWN-FINDING') known"
  if [ $rc -ne 0 ]; then rc_all=1; echo "$out" | grep -E "VIOLATION|INCONCLUSIVE|signature=" | head -5; fi
done
exit $rc_all
