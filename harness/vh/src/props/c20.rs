//! C20 — the metrics.rs bridge reports every counter increment and sample exactly once.

use crate::emfh::*;
use crate::engine::*;
use crate::model::Obs;
use crate::reclog::*;
use crate::{vensure, vfail};
use metrics_024::{Key, Label, Level, Metadata, Recorder};
use metrique_metricsrs::MetricRecorder;
use metrique_timesource::{TimeSource, set_time_source};
use metrique_writer_core::format::Format;
use proptest::prelude::*;
use serde::{Deserialize, Serialize};
use std::collections::BTreeMap;
use std::sync::Mutex;
use std::time::{Duration, UNIX_EPOCH};

type Rec24 = MetricRecorder<dyn metrics_024::Recorder>;

const NAMES: [&str; 3] = ["requests", "latency", "queue.depth"];
const LABELSETS: [&[(&str, &str)]; 3] = [&[], &[("op", "Get")], &[("op", "Put"), ("az", "use1-az1")]];

#[derive(Clone, Copy, Debug, PartialEq, Eq, PartialOrd, Ord, Hash, Serialize, Deserialize)]
pub struct K {
    pub name: u8,
    pub labels: u8,
}
impl K {
    fn key(&self) -> Key {
        let name = NAMES[self.name as usize % 3];
        let labels: Vec<Label> = LABELSETS[self.labels as usize % 3]
            .iter()
            .map(|(k, v)| Label::new(*k, *v))
            .collect();
        Key::from_parts(name, labels)
    }
    fn name(&self) -> &'static str {
        NAMES[self.name as usize % 3]
    }
    fn dims(&self) -> Vec<(String, String)> {
        LABELSETS[self.labels as usize % 3]
            .iter()
            .map(|(k, v)| (k.to_string(), v.to_string()))
            .collect()
    }
    fn norm(self) -> K {
        K {
            name: self.name % 3,
            labels: self.labels % 3,
        }
    }
}

#[derive(Clone, Copy, Debug, PartialEq, Serialize, Deserialize)]
pub enum Upd {
    Counter(K, u32),
    Histogram(K, f64),
    /// Histogram::record_many(value, count): count samples of one value in one call
    #[serde(alias = "HistMany")]
    HistogramMany(K, f64, u8),
    Pause(u8),
}

#[derive(Clone, Debug, Serialize, Deserialize)]
pub struct Phase {
    /// describe(name idx, unit idx) done by the controller before the phase
    pub describes: Vec<(u8, u8, u8)>,
    pub threads: Vec<Vec<Upd>>,
    /// gauge script of the single gauge writer: (key, value)
    pub gauges: Vec<(K, f64)>,
    /// number of concurrent readouts and their jitter
    pub readouts: Vec<u8>,
}

#[derive(Clone, Debug, Serialize, Deserialize)]
pub struct Case {
    pub phases: Vec<Phase>,
    pub emit_zero: bool,
}

fn meta() -> Metadata<'static> {
    Metadata::new("vh", Level::INFO, None)
}

/// every unit the metrics 0.24 facade knows, with the name the bridge must write (CloudWatch's
/// unit names where one exists, the facade's own name otherwise) - written out by hand, not
/// derived from the bridge's table
const UNITS: [(Option<metrics_024::Unit>, &str); 19] = [
    (None, "None"),
    (Some(metrics_024::Unit::Count), "Count"),
    (Some(metrics_024::Unit::Milliseconds), "Milliseconds"),
    (Some(metrics_024::Unit::Bytes), "Bytes"),
    (Some(metrics_024::Unit::Nanoseconds), "Nanoseconds"),
    (Some(metrics_024::Unit::Percent), "Percent"),
    (Some(metrics_024::Unit::Seconds), "Seconds"),
    (Some(metrics_024::Unit::Microseconds), "Microseconds"),
    (Some(metrics_024::Unit::Tebibytes), "Tebibytes"),
    (Some(metrics_024::Unit::Gibibytes), "Gibibytes"),
    (Some(metrics_024::Unit::Mebibytes), "Mebibytes"),
    (Some(metrics_024::Unit::Kibibytes), "Kibibytes"),
    (Some(metrics_024::Unit::TerabitsPerSecond), "Terabits/Second"),
    (Some(metrics_024::Unit::GigabitsPerSecond), "Gigabits/Second"),
    (Some(metrics_024::Unit::MegabitsPerSecond), "Megabits/Second"),
    (Some(metrics_024::Unit::KilobitsPerSecond), "Kilobits/Second"),
    (Some(metrics_024::Unit::BitsPerSecond), "Bits/Second"),
    (Some(metrics_024::Unit::CountPerSecond), "Count/Second"),
    (Some(metrics_024::Unit::Count), "Count"),
];

/// what one readout reported, decoded from its call log
#[derive(Debug, Default, Clone)]
struct Readout {
    counters: BTreeMap<(String, Vec<(String, String)>), u64>,
    gauges: BTreeMap<(String, Vec<(String, String)>), f64>,
    histograms: BTreeMap<(String, Vec<(String, String)>), Vec<(f64, u64)>>,
    units: BTreeMap<String, String>,
    timestamp: Option<i128>,
    config_first: bool,
}

fn decode(log: &RecLog, kinds: &BTreeMap<String, u8>) -> Result<Readout, Fail> {
    let mut r = Readout::default();
    let mut seen_value = false;
    for rec in &log.recs {
        match rec {
            Rec::Timestamp(t) => r.timestamp = Some(*t),
            Rec::Config(c) => {
                if c.starts_with("AllowSplitEntries") && !seen_value {
                    r.config_first = true;
                }
            }
            Rec::Value { name, val } => {
                seen_value = true;
                let RecVal::Metric { obs, unit, dims, .. } = val else {
                    vfail!("bridge:not-a-metric", "readout wrote {name:?} as {val:?}");
                };
                if let Some(prev) = r.units.insert(name.clone(), unit.clone()) {
                    vensure!(prev == *unit, "bridge:inconsistent-unit", "{name}: units {prev} and {unit} in one readout");
                }
                let key = (name.clone(), dims.clone());
                match kinds.get(name).copied() {
                    Some(0) => match obs.as_slice() {
                        [Obs::U(u)] => {
                            vensure!(
                                r.counters.insert(key.clone(), *u).is_none(),
                                "bridge:key-reported-twice",
                                "counter {key:?} twice in one readout"
                            );
                        }
                        other => vfail!("bridge:counter-shape", "counter {key:?} reported as {other:?}"),
                    },
                    Some(1) => {
                        let mut v = vec![];
                        for o in obs {
                            match o {
                                Obs::Rep { total, occ } => v.push((total.0 / *occ as f64, *occ)),
                                other => vfail!("bridge:histogram-shape", "histogram {key:?} observation {other:?}"),
                            }
                        }
                        vensure!(
                            r.histograms.insert(key.clone(), v).is_none(),
                            "bridge:key-reported-twice",
                            "histogram {key:?} twice in one readout"
                        );
                    }
                    Some(2) => match obs.as_slice() {
                        [Obs::Fl(f)] => {
                            r.gauges.insert(key, f.0);
                        }
                        other => vfail!("bridge:gauge-shape", "gauge {key:?} reported as {other:?}"),
                    },
                    _ => vfail!("bridge:unknown-name", "readout wrote unregistered name {name:?}"),
                }
            }
        }
    }
    Ok(r)
}

pub fn check(case: &Case) -> CaseResult {
    // names: 0 = counter, 1 = histogram, 2 = gauge (fixed so that one name has one kind)
    let kinds: BTreeMap<String, u8> = [(NAMES[0].to_string(), 0u8), (NAMES[1].to_string(), 1), (NAMES[2].to_string(), 2)]
        .into_iter()
        .collect();
    let rec: Rec24 = if case.emit_zero {
        MetricRecorder::new_with_emit_zero_counters(true)
    } else {
        MetricRecorder::new()
    };
    let clock = super::c18::ManualClock::new(UNIX_EPOCH + Duration::from_secs(1_700_000_000));
    let ts = TimeSource::custom(clock.clone());
    let mut total_inc: BTreeMap<K, u64> = BTreeMap::new();
    let mut reported_inc: BTreeMap<(String, Vec<(String, String)>), u64> = BTreeMap::new();
    let mut recorded: BTreeMap<K, Vec<u32>> = BTreeMap::new();
    let mut reported_hist: BTreeMap<(String, Vec<(String, String)>), Vec<(f64, u64)>> = BTreeMap::new();
    let mut gauge_last: BTreeMap<K, f64> = BTreeMap::new();
    let mut gauge_seen: BTreeMap<K, Vec<u64>> = BTreeMap::new();
    let mut units_now: BTreeMap<String, String> = BTreeMap::new();
    let mut classes: Classes = vec![];
    let mut emf = EmfCfg::simple(Ctor::AllValidations).build();
    let mut concurrent_mid_readout = false;
    let mut two_readers = false;
    let all_readouts: Mutex<Vec<(RecLog, bool)>> = Mutex::new(vec![]);
    for ph in &case.phases {
        for (n, u, kind) in &ph.describes {
            let name = NAMES[*n as usize % 3];
            let (unit, uname) = UNITS[*u as usize % UNITS.len()];
            match kind % 3 {
                0 => rec.describe_counter(name.into(), unit, "d".into()),
                1 => rec.describe_histogram(name.into(), unit, "d".into()),
                _ => rec.describe_gauge(name.into(), unit, "d".into()),
            }
            units_now.insert(name.to_string(), uname.to_string());
            classes.push("describe");
        }
        // expected totals of this phase
        for t in &ph.threads {
            for u in t {
                match u {
                    Upd::Counter(k, n) => {
                        let k = K { name: 0, labels: k.labels }.norm();
                        *total_inc.entry(k).or_insert(0) += *n as u64;
                    }
                    Upd::Histogram(k, v) => {
                        let k = K { name: 1, labels: k.labels }.norm();
                        let clamped = if *v > u32::MAX as f64 { u32::MAX } else { *v as u32 };
                        recorded.entry(k).or_default().push(clamped);
                    }
                    Upd::HistogramMany(k, v, c) => {
                        let k = K { name: 1, labels: k.labels }.norm();
                        let clamped = if *v > u32::MAX as f64 { u32::MAX } else { *v as u32 };
                        for _ in 0..*c {
                            recorded.entry(k).or_default().push(clamped);
                        }
                        if *c > 0 {
                            classes.push("record-many");
                        }
                    }
                    Upd::Pause(_) => {}
                }
            }
        }
        let same_key_two_threads = {
            let mut seen: BTreeMap<K, usize> = BTreeMap::new();
            for t in &ph.threads {
                let mut mine: Vec<K> = t
                    .iter()
                    .filter_map(|u| match u {
                        Upd::Counter(k, _) => Some(K { name: 0, labels: k.labels }.norm()),
                        Upd::Histogram(k, _) | Upd::HistogramMany(k, _, _) => Some(K { name: 1, labels: k.labels }.norm()),
                        _ => None,
                    })
                    .collect();
                mine.sort();
                mine.dedup();
                for k in mine {
                    *seen.entry(k).or_insert(0) += 1;
                }
            }
            seen.values().any(|c| *c >= 2)
        };
        std::thread::scope(|s| {
            for t in &ph.threads {
                let rec = &rec;
                s.spawn(move || {
                    for u in t {
                        match u {
                            Upd::Counter(k, n) => {
                                let k = K { name: 0, labels: k.labels };
                                rec.register_counter(&k.key(), &meta()).increment(*n as u64);
                            }
                            Upd::Histogram(k, v) => {
                                let k = K { name: 1, labels: k.labels };
                                rec.register_histogram(&k.key(), &meta()).record(*v);
                            }
                            Upd::HistogramMany(k, v, c) => {
                                let k = K { name: 1, labels: k.labels };
                                rec.register_histogram(&k.key(), &meta()).record_many(*v, *c as usize);
                            }
                            Upd::Pause(p) => crate::bq::jitter(*p),
                        }
                    }
                });
            }
            // the single gauge writer
            {
                let rec = &rec;
                let gauges = &ph.gauges;
                s.spawn(move || {
                    for (k, v) in gauges {
                        let k = K { name: 2, labels: k.labels };
                        rec.register_gauge(&k.key(), &meta()).set(*v);
                    }
                });
            }
            // the reader(s): a second, overlapping reader (a periodic reporter plus a manual flush)
            // when the script's first byte is odd - every update is still in exactly one readout
            let n_readers = if ph.readouts.first().map(|b| b % 2 == 1).unwrap_or(false) { 2 } else { 1 };
            for rdr in 0..n_readers {
                let rec = &rec;
                let ts = ts.clone();
                let all = &all_readouts;
                let readouts: Vec<u8> = if rdr == 0 { ph.readouts.clone() } else { ph.readouts.iter().rev().copied().collect() };
                s.spawn(move || {
                    let _g = set_time_source(ts);
                    for j in &readouts {
                        crate::bq::jitter(*j);
                        let e = rec.readout();
                        all.lock().unwrap().push((record(&e), false));
                    }
                });
            }
            if n_readers == 2 {
                two_readers = true;
            }
        });
        for (k, v) in &ph.gauges {
            let k = K { name: 2, labels: k.labels }.norm();
            gauge_last.insert(k, *v);
            gauge_seen.entry(k).or_default().push(v.to_bits());
        }
        // the phase-final readout (no update is concurrent with it)
        let e = {
            let _g = set_time_source(ts.clone());
            rec.readout()
        };
        let log = record(&e);
        // the entry formats under full validation
        let mut out = vec![];
        if let Err(err) = emf.format(&e, &mut out) {
            vfail!("bridge:readout-rejected-by-emf", "readout entry rejected by Emf::all_validations: {err}");
        }
        if !ph.readouts.is_empty() && same_key_two_threads {
            concurrent_mid_readout = true;
        }
        all_readouts.lock().unwrap().push((log, true));
        // evaluate everything read so far
        let batch: Vec<(RecLog, bool)> = std::mem::take(&mut *all_readouts.lock().unwrap());
        for (log, is_final) in batch {
            let r = decode(&log, &kinds)?;
            vensure!(
                r.timestamp == Some(1_700_000_000i128 * 1_000_000_000),
                "bridge:timestamp",
                "readout timestamp {:?}, the injected time source says 1700000000 s",
                r.timestamp
            );
            vensure!(r.config_first, "bridge:no-split-config", "readout did not write AllowSplitEntries before its values");
            // every reported key must be one that was registered, under its own label set
            let known_dims = |dims: &Vec<(String, String)>| {
                LABELSETS.iter().any(|l| l.iter().map(|(a, b)| (a.to_string(), b.to_string())).collect::<Vec<_>>() == *dims)
            };
            for (k, v) in &r.counters {
                vensure!(known_dims(&k.1), "bridge:labels", "counter reported with dimensions {:?}", k.1);
                let kk = LABELSETS.iter().position(|l| l.iter().map(|(a, b)| (a.to_string(), b.to_string())).collect::<Vec<_>>() == k.1).unwrap();
                vensure!(
                    *v == 0 || total_inc.contains_key(&K { name: 0, labels: kk as u8 }),
                    "bridge:increments-under-a-key-never-incremented",
                    "counter {k:?} reports {v} although nothing was ever added under that key"
                );
            }
            for (k, v) in &r.histograms {
                vensure!(known_dims(&k.1), "bridge:labels", "histogram reported with dimensions {:?}", k.1);
                let kk = LABELSETS.iter().position(|l| l.iter().map(|(a, b)| (a.to_string(), b.to_string())).collect::<Vec<_>>() == k.1).unwrap();
                vensure!(
                    v.iter().all(|x| x.1 == 0) || recorded.contains_key(&K { name: 1, labels: kk as u8 }),
                    "bridge:samples-under-a-key-never-recorded",
                    "histogram {k:?} reports samples although nothing was ever recorded under that key"
                );
            }
            if is_final {
                // a gauge that was set is part of every later readout, with its last value
                for (k, last) in &gauge_last {
                    let got = r.gauges.get(&(k.name().to_string(), k.dims()));
                    vensure!(
                        got.map(|x| x.to_bits()) == Some(last.to_bits()),
                        "bridge:gauge-not-last-value",
                        "gauge {k:?} was last set to {last}, the quiescent readout reports {got:?}"
                    );
                }
            }
            for (k, v) in r.counters {
                *reported_inc.entry(k).or_insert(0) += v;
            }
            for (k, v) in r.histograms {
                reported_hist.entry(k).or_default().extend(v);
            }
            for ((name, dims), v) in &r.gauges {
                let _ = name;
                let labels = LABELSETS.iter().position(|l| {
                    l.iter().map(|(a, b)| (a.to_string(), b.to_string())).collect::<Vec<_>>() == *dims
                });
                let Some(li) = labels else {
                    vfail!("bridge:labels", "gauge reported with dimensions {dims:?}");
                };
                let k = K { name: 2, labels: li as u8 };
                if is_final {
                    vensure!(
                        gauge_last.get(&k).map(|x| x.to_bits()) == Some(v.to_bits()) || (gauge_last.get(&k).is_none() && *v == 0.0),
                        "bridge:gauge-not-last-value",
                        "gauge {k:?} reads {v}, last value set {:?}",
                        gauge_last.get(&k)
                    );
                }
            }
            if is_final {
                for (name, unit) in &r.units {
                    let want = units_now.get(name).cloned().unwrap_or_else(|| "None".to_string());
                    vensure!(
                        *unit == want,
                        "bridge:wrong-unit",
                        "{name} reported with unit {unit}, described as {want}"
                    );
                }
            }
        }
        // conservation up to this quiescent point
        for (k, total) in &total_inc {
            let got = reported_inc.get(&(k.name().to_string(), k.dims())).copied().unwrap_or(0);
            vensure!(
                got == *total,
                if got < *total { "bridge:counter-increments-lost" } else { "bridge:counter-increments-double-counted" },
                "counter {k:?}: readout deltas sum to {got}, increments sum to {total}"
            );
        }
        for (k, vals) in &recorded {
            let rep = reported_hist.get(&(k.name().to_string(), k.dims())).cloned().unwrap_or_default();
            let n: u64 = rep.iter().map(|x| x.1).sum();
            vensure!(
                n as usize == vals.len(),
                if (n as usize) < vals.len() { "bridge:histogram-samples-lost" } else { "bridge:histogram-samples-double-counted" },
                "histogram {k:?}: {} samples recorded, {n} reported over all readouts",
                vals.len()
            );
            let mut ins: Vec<u32> = vals.clone();
            ins.sort();
            let mut outs: Vec<f64> = vec![];
            for (v, c) in &rep {
                for _ in 0..*c {
                    outs.push(*v);
                }
            }
            outs.sort_by(|a, b| a.partial_cmp(b).unwrap());
            for (i, o) in ins.iter().zip(outs.iter()) {
                let ok = if *i < 32 { *o == *i as f64 } else { (*o - *i as f64).abs() <= *i as f64 / 32.0 };
                vensure!(ok, "bridge:histogram-value-error", "histogram {k:?}: sample {i} reported at {o}");
            }
        }
    }
    if case.phases.iter().any(|p| p.threads.len() >= 2) {
        classes.push("multi-thread");
    }
    if concurrent_mid_readout {
        classes.push("nt");
    }
    if case.emit_zero {
        classes.push("emit-zero-counters");
    }
    if two_readers {
        classes.push("two-overlapping-readers");
    }
    classes.sort();
    classes.dedup();
    Ok(classes)
}

fn arb_k() -> impl Strategy<Value = K> {
    (0u8..3, 0u8..3).prop_map(|(name, labels)| K { name, labels })
}

fn arb_upd() -> impl Strategy<Value = Upd> {
    prop_oneof![
        5 => (arb_k(), prop_oneof![Just(0u32), Just(1u32), 1u32..1000, any::<u32>()]).prop_map(|(k, n)| Upd::Counter(k, n)),
        5 => (
            arb_k(),
            prop_oneof![
                3 => (0u32..64).prop_map(|x| x as f64),
                3 => any::<u32>().prop_map(|x| x as f64),
                1 => (0.0f64..100.0),
                1 => prop::sample::select(vec![4294967295.0f64, 4294967296.0, 1e12, 0.5, 31.999, 32.0]),
            ]
        )
            .prop_map(|(k, v)| Upd::Histogram(k, v)),
        2 => (
            arb_k(),
            prop_oneof![
                3 => (0u32..64).prop_map(|x| x as f64),
                3 => any::<u32>().prop_map(|x| x as f64),
                2 => prop::sample::select(vec![4294967295.0f64, 4294967296.0, 5e9, 1e12, 1e300, 31.999, 32.0]),
            ],
            prop_oneof![Just(0u8), Just(1u8), 2u8..40]
        )
            .prop_map(|(k, v, c)| Upd::HistogramMany(k, v, c)),
        2 => any::<u8>().prop_map(Upd::Pause),
    ]
}

// ---------------------------------------------------------------------------------------------
// the reporter task: periodic readouts plus the final one at shutdown

#[derive(Clone, Copy, Debug, PartialEq, Serialize, Deserialize)]
pub enum RStep {
    Inc(K, u32),
    Hist(K, u32),
    /// let the runtime (and with it the reporter task) run for k x 400 us
    Sleep(u8),
}

#[derive(Clone, Debug, Serialize, Deserialize)]
pub struct ReporterCase {
    pub interval_sel: u8,
    pub emit_zero: bool,
    pub describes: Vec<(u8, u8)>,
    pub steps: Vec<RStep>,
}

struct CaptureSink(std::sync::Arc<Mutex<Vec<RecLog>>>);
impl metrique_writer_core::AnyEntrySink for CaptureSink {
    fn append_any(&self, entry: impl metrique_writer_core::Entry + Send + 'static) {
        self.0.lock().unwrap().push(record(&entry));
    }
    fn flush_async(&self) -> metrique_writer_core::sink::FlushWait {
        metrique_writer_core::sink::FlushWait::ready()
    }
}

pub fn check_reporter(case: &ReporterCase) -> CaseResult {
    let kinds: BTreeMap<String, u8> = [(NAMES[0].to_string(), 0u8), (NAMES[1].to_string(), 1), (NAMES[2].to_string(), 2)]
        .into_iter()
        .collect();
    let interval = match case.interval_sel % 4 {
        0 => Duration::from_millis(1),
        1 => Duration::from_millis(3),
        2 => Duration::from_millis(20),
        _ => Duration::from_secs(3600),
    };
    let logs = std::sync::Arc::new(Mutex::new(Vec::<RecLog>::new()));
    let rt = tokio::runtime::Builder::new_current_thread().enable_time().build().unwrap();
    let mut total_inc: BTreeMap<K, u64> = BTreeMap::new();
    let mut samples: BTreeMap<K, u64> = BTreeMap::new();
    let mut units_now: BTreeMap<String, String> = BTreeMap::new();
    let mut after_sleep_updates = false;
    let mut slept = false;
    let r = no_panic("reporter", || {
        rt.block_on(async {
            let (reporter, rec) = metrique_metricsrs::MetricReporter::builder()
                .metrics_sink((CaptureSink(logs.clone()), ()))
                .metrics_publish_interval(interval)
                .emit_zero_counters(case.emit_zero)
                .metrics_rs_version::<dyn metrics_024::Recorder>()
                .build_without_installing();
            for (n, u) in &case.describes {
                let name = NAMES[*n as usize % 3];
                let (unit, uname) = UNITS[*u as usize % UNITS.len()];
                match n % 3 {
                    0 => rec.describe_counter(name.into(), unit, "d".into()),
                    1 => rec.describe_histogram(name.into(), unit, "d".into()),
                    _ => rec.describe_gauge(name.into(), unit, "d".into()),
                }
                units_now.insert(name.to_string(), uname.to_string());
            }
            for st in &case.steps {
                match st {
                    RStep::Inc(k, n) => {
                        let k = K { name: 0, labels: k.labels }.norm();
                        rec.register_counter(&k.key(), &meta()).increment(*n as u64);
                        *total_inc.entry(k).or_insert(0) += *n as u64;
                        after_sleep_updates |= slept;
                    }
                    RStep::Hist(k, v) => {
                        let k = K { name: 1, labels: k.labels }.norm();
                        rec.register_histogram(&k.key(), &meta()).record(*v as f64);
                        *samples.entry(k).or_insert(0) += 1;
                        after_sleep_updates |= slept;
                    }
                    RStep::Sleep(k) => {
                        tokio::time::sleep(Duration::from_micros((*k as u64 % 8) * 400)).await;
                        slept = true;
                    }
                }
            }
            reporter.shutdown().await;
        })
    });
    r?;
    let logs = logs.lock().unwrap().clone();
    let mut reported_inc: BTreeMap<(String, Vec<(String, String)>), u64> = BTreeMap::new();
    let mut reported_samples: BTreeMap<(String, Vec<(String, String)>), u64> = BTreeMap::new();
    let mut last_units: BTreeMap<String, String> = BTreeMap::new();
    for log in &logs {
        let r = decode(log, &kinds)?;
        vensure!(r.config_first, "bridge:no-split-config", "readout did not write AllowSplitEntries before its values");
        for (k, v) in r.counters {
            *reported_inc.entry(k).or_insert(0) += v;
        }
        for (k, v) in r.histograms {
            *reported_samples.entry(k).or_insert(0) += v.iter().map(|x| x.1).sum::<u64>();
        }
        for (n, u) in r.units {
            last_units.insert(n, u);
        }
    }
    for (k, total) in &total_inc {
        let got = reported_inc.get(&(k.name().to_string(), k.dims())).copied().unwrap_or(0);
        vensure!(
            got == *total,
            if got < *total { "bridge:counter-increments-lost" } else { "bridge:counter-increments-double-counted" },
            "reporter (interval {interval:?}, {} readouts appended before shutdown() returned): counter {k:?} deltas sum to {got}, increments to {total}",
            logs.len()
        );
    }
    for (k, n) in &samples {
        let got = reported_samples.get(&(k.name().to_string(), k.dims())).copied().unwrap_or(0);
        vensure!(
            got == *n,
            if got < *n { "bridge:histogram-samples-lost" } else { "bridge:histogram-samples-double-counted" },
            "reporter (interval {interval:?}, {} readouts): histogram {k:?}: {n} samples recorded, {got} reported",
            logs.len()
        );
    }
    for (name, unit) in &last_units {
        let want = units_now.get(name).cloned().unwrap_or_else(|| "None".to_string());
        vensure!(*unit == want, "bridge:wrong-unit", "{name} reported with unit {unit}, described as {want}");
    }
    let mut classes: Classes = vec![];
    if logs.len() >= 2 {
        classes.push("periodic-readout-before-shutdown");
    }
    if after_sleep_updates {
        classes.push("updates-after-the-runtime-last-ran-the-reporter");
    }
    if logs.len() >= 2 && after_sleep_updates {
        classes.push("nt");
    }
    Ok(classes)
}

/// many increments / samples racing with a reader that reads out in a tight loop
#[derive(Clone, Debug, Serialize, Deserialize)]
pub struct StressCase {
    pub threads: u8,
    pub per_thread: u32,
    pub keys: u8,
    pub step: u8,
}

pub fn check_stress(case: &StressCase) -> CaseResult {
    let rec: Rec24 = MetricRecorder::new();
    let nt = (case.threads % 6 + 2) as usize;
    let nk = (case.keys % 2 + 1) as usize;
    let step = (case.step % 3 + 1) as u64;
    let done = std::sync::atomic::AtomicBool::new(false);
    let mut reported: BTreeMap<String, u64> = BTreeMap::new();
    let mut hist_reported: u64 = 0;
    let kinds: BTreeMap<String, u8> = [(NAMES[0].to_string(), 0u8), (NAMES[1].to_string(), 1), (NAMES[2].to_string(), 2)]
        .into_iter()
        .collect();
    let mut readouts = 0u64;
    let logs: Vec<RecLog> = std::thread::scope(|s| {
        let hs: Vec<_> = (0..nt)
            .map(|t| {
                let rec = &rec;
                s.spawn(move || {
                    let k = K { name: 0, labels: (t % nk) as u8 };
                    let c = rec.register_counter(&k.key(), &meta());
                    let h = rec.register_histogram(&K { name: 1, labels: 0 }.key(), &meta());
                    for i in 0..case.per_thread {
                        c.increment(step);
                        if i % 8 == 0 {
                            h.record((i % 1000) as f64);
                        }
                    }
                })
            })
            .collect();
        let mut logs = vec![];
        while hs.iter().any(|h| !h.is_finished()) {
            logs.push(record(&rec.readout()));
        }
        for h in hs {
            let _ = h.join();
        }
        done.store(true, std::sync::atomic::Ordering::SeqCst);
        logs.push(record(&rec.readout()));
        logs
    });
    for log in &logs {
        let r = decode(log, &kinds)?;
        readouts += 1;
        for ((name, dims), v) in r.counters {
            *reported.entry(format!("{name}{dims:?}")).or_insert(0) += v;
        }
        for (_, v) in r.histograms {
            hist_reported += v.iter().map(|x| x.1).sum::<u64>();
        }
    }
    let total: u64 = reported.values().sum();
    let expect = nt as u64 * case.per_thread as u64 * step;
    vensure!(
        total == expect,
        if total < expect { "bridge:counter-increments-lost" } else { "bridge:counter-increments-double-counted" },
        "{nt} threads x {} increments of {step} racing with {readouts} readouts: the readout deltas sum to {total}, the increments to {expect}",
        case.per_thread
    );
    let hexp = nt as u64 * case.per_thread.div_ceil(8) as u64;
    vensure!(
        hist_reported == hexp,
        if hist_reported < hexp { "bridge:histogram-samples-lost" } else { "bridge:histogram-samples-double-counted" },
        "histogram: {hexp} samples recorded while {readouts} readouts ran, {hist_reported} reported"
    );
    let mut classes: Classes = vec![];
    if readouts >= 3 {
        classes.push("nt");
    }
    Ok(classes)
}


/// new keys are described, registered and updated (in that order) while readouts run
#[derive(Clone, Debug, Serialize, Deserialize)]
pub struct NewKeysCase {
    pub idle: u16,
    pub new_keys: u16,
    pub kind: u8,
    pub unit: u8,
    pub updaters: u8,
}

pub fn check_new_keys(case: &NewKeysCase) -> CaseResult {
    let rec: Rec24 = MetricRecorder::new();
    let n_idle = 200 + (case.idle as usize % 4000);
    let n_new = 200 + (case.new_keys as usize % 3000);
    let nu = 1 + (case.updaters % 3) as usize;
    let (unit, unit_name) = UNITS[1 + (case.unit as usize % (UNITS.len() - 1))];
    let kind = case.kind % 3;
    // a large registry lengthens each readout
    let idle: Vec<_> = (0..n_idle)
        .map(|i| rec.register_counter(&Key::from_name(format!("idle{i}")), &meta()))
        .collect();
    idle[0].increment(1);
    let mut seen: BTreeMap<String, u64> = BTreeMap::new();
    let mut readouts = 0u64;
    let mut overlapped = 0u64;
    let mut added = 0usize;
    let live_readouts = std::sync::atomic::AtomicU64::new(0);
    let logs: Vec<RecLog> = std::thread::scope(|s| {
        let hs: Vec<_> = (0..nu)
            .map(|t| {
                let rec = &rec;
                let live_readouts = &live_readouts;
                s.spawn(move || {
                    // at least n_new keys, and keep going until some readouts have overlapped
                    let mut i = 0usize;
                    loop {
                        if (i >= n_new && live_readouts.load(std::sync::atomic::Ordering::Relaxed) >= 5) || i >= 15_000 {
                            break i;
                        }
                        i += 1;
                        let name = format!("new{t}.{i}");
                        match kind {
                            0 => {
                                rec.describe_counter(name.clone().into(), unit, "d".into());
                                rec.register_counter(&Key::from_name(name), &meta()).increment(1);
                            }
                            1 => {
                                rec.describe_histogram(name.clone().into(), unit, "d".into());
                                rec.register_histogram(&Key::from_name(name), &meta()).record(3.0);
                            }
                            _ => {
                                rec.describe_gauge(name.clone().into(), unit, "d".into());
                                rec.register_gauge(&Key::from_name(name), &meta()).set(2.0);
                            }
                        }
                    }
                })
            })
            .collect();
        let mut logs = vec![];
        while hs.iter().any(|h| !h.is_finished()) {
            logs.push(record(&rec.readout()));
            live_readouts.fetch_add(1, std::sync::atomic::Ordering::Relaxed);
        }
        for h in hs {
            added += h.join().unwrap_or(0);
        }
        logs.push(record(&rec.readout()));
        logs
    });
    for log in &logs {
        readouts += 1;
        let mut any_new = false;
        for r in &log.recs {
            if let Rec::Value { name, val } = r {
                if !name.starts_with("new") {
                    continue;
                }
                any_new = true;
                let RecVal::Metric { unit: u, .. } = val else {
                    vfail!("bridge:not-a-metric", "readout wrote {name:?} as {val:?}");
                };
                vensure!(
                    u == unit_name,
                    "bridge:described-unit-missing",
                    "{name} was described as {unit_name} before it was registered, but readout #{readouts} (running while new keys were being added; {n_idle} idle keys) wrote it with unit {u}"
                );
                *seen.entry(name.clone()).or_insert(0) += 1;
            }
        }
        if any_new && readouts < logs.len() as u64 {
            overlapped += 1;
        }
    }
    // every new key was reported at least once (counter / histogram: exactly once with a value)
    vensure!(
        seen.len() == added,
        "bridge:new-key-never-reported",
        "{added} new keys registered and updated, {} ever reported",
        seen.len()
    );
    let mut classes: Classes = vec![];
    if overlapped >= 2 {
        classes.push("nt");
    }
    Ok(classes)
}

/// the ways ordinary code reaches the bridge: the metrics facade macros under a local recorder
#[derive(Clone, Debug, Serialize, Deserialize)]
pub struct FacadeCase {
    /// 0 = capture_metrics, 1 = capture_metrics_async (updates spread over several polls), 2 =
    /// metrics::with_local_recorder(&clone of the recorder), 3 = with_local_recorder(&MetricRecorder)
    pub ctor: u8,
    /// (kind 0 counter / 1 histogram / 2 gauge, label set, value)
    pub updates: Vec<(u8, u8, u32)>,
    pub unit: u8,
}

pub fn check_facade(case: &FacadeCase) -> CaseResult {
    use metrique_metricsrs::{ParametricRecorder, capture};
    let (unit, unit_name) = UNITS[1 + (case.unit as usize % (UNITS.len() - 1))];
    let apply = |u: &(u8, u8, u32)| {
        let ls = LABELSETS[u.1 as usize % 3];
        let labels: Vec<Label> = ls.iter().map(|(k, v)| Label::new(*k, *v)).collect();
        match u.0 % 3 {
            0 => metrics_024::counter!(NAMES[0], labels).increment(u.2 as u64),
            1 => metrics_024::histogram!(NAMES[1], labels).record((u.2 % 100_000) as f64),
            _ => metrics_024::gauge!(NAMES[2], labels).set(u.2 as f64),
        }
    };
    let describe = || {
        metrics_024::describe_counter!(NAMES[0], unit.unwrap(), "d");
    };
    let log = match case.ctor % 4 {
        0 => {
            let (entry, ()) = no_panic("capture-metrics", || {
                capture::capture_metrics::<dyn metrics_024::Recorder, _, _>(|| {
                    describe();
                    case.updates.iter().for_each(apply);
                })
            })?;
            record(&entry)
        }
        1 => {
            let (entry, ()) = no_panic("capture-metrics", || {
                crate::bq::block_on_timeout(
                    capture::capture_metrics_async::<dyn metrics_024::Recorder, _, _>(async {
                        describe();
                        for (i, u) in case.updates.iter().enumerate() {
                            apply(u);
                            if i % 2 == 0 {
                                // a later update happens on a later poll of the wrapped future
                                YieldOnce(false).await;
                            }
                        }
                    }),
                    Duration::from_secs(20),
                )
                .expect("capture future completes")
            })?;
            record(&entry)
        }
        2 => {
            // (SharedRecorder::new is not callable for `dyn Recorder`: its impl block lacks ?Sized)
            let rec: Rec24 = MetricRecorder::new_with_emit_zero_counters(false);
            let handle = rec.clone();
            no_panic("with-local-recorder", || {
                metrics_024::with_local_recorder(&handle, || {
                    describe();
                    case.updates.iter().for_each(apply);
                })
            })?;
            record(&rec.readout())
        }
        _ => {
            let rec: Rec24 = MetricRecorder::new();
            no_panic("with-local-recorder", || {
                rec.with_local_recorder(|| {
                    describe();
                    case.updates.iter().for_each(apply);
                })
            })?;
            record(&rec.readout())
        }
    };
    let kinds: BTreeMap<String, u8> = [(NAMES[0].to_string(), 0u8), (NAMES[1].to_string(), 1), (NAMES[2].to_string(), 2)]
        .into_iter()
        .collect();
    let r = decode(&log, &kinds)?;
    let dims = |l: u8| -> Vec<(String, String)> { LABELSETS[l as usize % 3].iter().map(|(k, v)| (k.to_string(), v.to_string())).collect() };
    let mut counters: BTreeMap<Vec<(String, String)>, u64> = BTreeMap::new();
    let mut hist: BTreeMap<Vec<(String, String)>, u64> = BTreeMap::new();
    let mut gauges: BTreeMap<Vec<(String, String)>, f64> = BTreeMap::new();
    for u in &case.updates {
        match u.0 % 3 {
            0 => *counters.entry(dims(u.1)).or_insert(0) += u.2 as u64,
            1 => *hist.entry(dims(u.1)).or_insert(0) += 1,
            _ => {
                gauges.insert(dims(u.1), u.2 as f64);
            }
        }
    }
    for (d, want) in &counters {
        let got = r.counters.get(&(NAMES[0].to_string(), d.clone())).copied().unwrap_or(0);
        vensure!(
            got == *want,
            if got < *want { "bridge:counter-increments-lost" } else { "bridge:counter-increments-double-counted" },
            "facade path {}: counter {d:?} increments sum to {want}, the readout reports {got}",
            case.ctor % 4
        );
    }
    for (d, want) in &hist {
        let got: u64 = r.histograms.get(&(NAMES[1].to_string(), d.clone())).map(|v| v.iter().map(|x| x.1).sum()).unwrap_or(0);
        vensure!(
            got == *want,
            if got < *want { "bridge:histogram-samples-lost" } else { "bridge:histogram-samples-double-counted" },
            "facade path {}: histogram {d:?}: {want} samples recorded, {got} reported",
            case.ctor % 4
        );
    }
    for (d, want) in &gauges {
        let got = r.gauges.get(&(NAMES[2].to_string(), d.clone())).copied();
        vensure!(got == Some(*want), "bridge:gauge-not-last-value", "facade path {}: gauge {d:?} last set to {want}, reported {got:?}", case.ctor % 4);
    }
    vensure!(
        r.counters.keys().all(|k| counters.contains_key(&k.1)) && r.histograms.keys().all(|k| hist.contains_key(&k.1)) && r.gauges.keys().all(|k| gauges.contains_key(&k.1)),
        "bridge:unknown-name",
        "the readout reports keys that were never updated: {:?} {:?} {:?}",
        r.counters.keys().collect::<Vec<_>>(),
        r.histograms.keys().collect::<Vec<_>>(),
        r.gauges.keys().collect::<Vec<_>>()
    );
    // (a counter whose increments sum to zero is not written at all unless emit_zero_counters)
    if r.counters.keys().any(|k| k.0 == NAMES[0]) {
        vensure!(
            r.units.get(NAMES[0]).map(|s| s.as_str()) == Some(unit_name),
            "bridge:described-unit-missing",
            "describe_counter!({}, {unit_name}) through the facade: the readout wrote unit {:?}",
            NAMES[0],
            r.units.get(NAMES[0])
        );
    }
    let mut classes: Classes = vec![match case.ctor % 4 {
        0 => "capture-metrics",
        1 => "capture-metrics-async",
        2 => "facade-with-local-recorder-over-a-clone",
        _ => "with-local-recorder",
    }];
    if case.updates.len() >= 4 && counters.len() >= 2 {
        classes.push("nt");
    }
    Ok(classes)
}

struct YieldOnce(bool);
impl std::future::Future for YieldOnce {
    type Output = ();
    fn poll(mut self: std::pin::Pin<&mut Self>, cx: &mut std::task::Context<'_>) -> std::task::Poll<()> {
        if self.0 {
            std::task::Poll::Ready(())
        } else {
            self.0 = true;
            cx.waker().wake_by_ref();
            std::task::Poll::Pending
        }
    }
}

pub fn run(ctx: &mut Ctx) {
    ctx.assume("histogram samples are in [0, +inf) (negative / NaN samples are outside the bridge's documented u32 domain); the recorded integer is the sample truncated and clamped to u32::MAX");
    ctx.assume("one writer thread per gauge key so that 'last value set' is defined; units are asserted on readouts taken at quiescent points (describe races with a concurrent readout by nature)");
    let q = ctx.tier == Tier::Quick;
    ctx.explore(
        SubCfg::new(
            "c20-bridge",
            "MetricRecorder<dyn metrics::Recorder> driven through the metrics 0.24 Recorder trait: 1-3 phases, each with describe calls (before or after first registration), 1-8 updater threads running generated scripts over 3 names x 3 label sets (counter increments incl. 0 and u32::MAX, histogram samples 0..2^32 and over-range through record and record_many, pauses), one gauge writer, and one or two reader threads calling readout() at generated points WHILE the updaters run, plus a readout after the join. Oracle: per counter key the readout deltas sum to the increments; per histogram key the bucket counts sum to the number of samples and, sorted pairwise, each reported value is exact below 32 and within 1/32 above (the bucket midpoint of a 1/16-wide bucket - the bound the bridge's own accuracy test pins); every reported key is a registered one and carries data only if data was recorded under it; every gauge that was set is in the quiescent readout with its last value; the final gauge equals the last value set; every readout replayed into a RecLog writes the injected timestamp, AllowSplitEntries before any value, each metric under its registered name with its labels as dimensions and the described unit; the readout entry is accepted by Emf::all_validations. Non-trivial = >=2 updater threads on the same key with a readout running concurrently",
            if q { 3_000 } else { 60_000 },
        )
        .threads(ctx.tier.pick(2, 4))
        .shrink_iters(150)
        .mandatory(&["multi-thread", "describe", "emit-zero-counters", "record-many", "two-overlapping-readers"]),
        || {
            (
                prop::collection::vec(
                    (
                        prop::collection::vec((0u8..3, 0u8..19, 0u8..3), 0..3),
                        prop::collection::vec(prop::collection::vec(arb_upd(), 0..60), 1..8),
                        prop::collection::vec((arb_k(), prop_oneof![any::<f64>(), (0u32..100).prop_map(|x| x as f64)]), 0..6),
                        prop::collection::vec(any::<u8>(), 0..5),
                    )
                        .prop_map(|(describes, threads, gauges, readouts)| {
                            // a description applies to the kind its name has
                            let describes = describes.into_iter().map(|(n, u, _)| (n, u, n % 3)).collect();
                            Phase {
                                describes,
                                threads,
                                gauges,
                                readouts,
                            }
                        }),
                    1..4,
                ),
                prop::bool::weighted(0.3),
            )
                .prop_map(|(phases, emit_zero)| Case { phases, emit_zero })
        },
        check,
    );
    ctx.explore(
        SubCfg::new(
            "c20-reporter",
            "MetricReporter (build_without_installing, metrics 0.24) on a current-thread tokio runtime with a capturing AnyEntrySink as destination: describe calls over all 18 facade units, then 0-40 steps of counter increments / histogram samples / sleeps of 0-2.8 ms (only then can the reporter task run) with a publish interval of 1 ms / 3 ms / 20 ms / 1 h, then shutdown().await. Oracle over the readout entries the sink received by the time shutdown() returned: counter deltas sum to the increments, histogram counts to the samples (the final readout at shutdown carries whatever came after the last tick), AllowSplitEntries first, units as described. Non-trivial = at least one periodic readout happened and updates followed the last sleep",
            if q { 1_500 } else { 40_000 },
        )
        .threads(ctx.tier.pick(4, 8))
        .shrink_iters(60)
        .mandatory(&["periodic-readout-before-shutdown", "updates-after-the-runtime-last-ran-the-reporter"]),
        || {
            (
                any::<u8>(),
                prop::bool::weighted(0.3),
                prop::collection::vec((0u8..3, 0u8..19), 0..4),
                prop::collection::vec(
                    prop_oneof![
                        4 => (arb_k(), prop_oneof![Just(0u32), 1u32..1000, any::<u32>()]).prop_map(|(k, n)| RStep::Inc(k, n)),
                        3 => (arb_k(), any::<u32>()).prop_map(|(k, v)| RStep::Hist(k, v)),
                        2 => any::<u8>().prop_map(RStep::Sleep),
                    ],
                    0..40,
                ),
            )
                .prop_map(|(interval_sel, emit_zero, describes, steps)| ReporterCase {
                    interval_sel,
                    emit_zero,
                    describes,
                    steps,
                })
        },
        check_reporter,
    );
    ctx.explore(
        SubCfg::new(
            "c20-stress",
            "2-7 threads each performing 20 000-200 000 counter increments (step 1-3, one or two keys) and a histogram sample every 8th iteration while the main thread calls readout() in a tight loop until they finish (hundreds to thousands of readouts race with the updates). Oracle: the counter deltas over all readouts sum exactly to the increments, the histogram counts to the samples. Non-trivial = >= 3 readouts overlapped the updates",
            if q { 24 } else { 600 },
        )
        .shrink_iters(6),
        || {
            (any::<u8>(), prop_oneof![20_000u32..60_000, 60_000u32..200_000], any::<u8>(), any::<u8>()).prop_map(|(threads, per_thread, keys, step)| StressCase {
                threads,
                per_thread,
                keys,
                step,
            })
        },
        check_stress,
    );
    ctx.explore(
        SubCfg::new(
            "c20-new-keys-during-readout",
            "1-3 threads add 200-3200 brand-new keys each (more until five readouts have run meanwhile, at most 15 000) - describe (one of the 18 units), register, update, in that order - while the main thread calls readout() in a tight loop over a registry of 200-4200 idle counters. Oracle: describe happens before register, so whenever a readout reports such a key it carries the described unit; every new key is reported. Non-trivial = at least two readouts that ran during the additions reported new keys",
            if q { 30 } else { 1_000 },
        )
        .shrink_iters(6),
        || {
            (any::<u16>(), any::<u16>(), any::<u8>(), any::<u8>(), any::<u8>()).prop_map(|(idle, new_keys, kind, unit, updaters)| NewKeysCase { idle, new_keys, kind, unit, updaters })
        },
        check_new_keys,
    );
    ctx.explore(
        SubCfg::new(
            "c20-capture-and-facade",
            "0-30 updates (counter increments, histogram samples, gauge sets over 3 label sets) made through the metrics facade macros (static names, per-call label vectors) under capture_metrics, capture_metrics_async (updates spread over several polls), metrics::with_local_recorder(&clone of the MetricRecorder) and MetricRecorder::with_local_recorder; the counter is described through describe_counter!. Oracle: one readout reports exactly the increments, samples and last gauge values per key, nothing else, and the described unit. Non-trivial = >= 4 updates over >= 2 counter keys",
            if q { 3_000 } else { 60_000 },
        )
        .threads(ctx.tier.pick(4, 8))
        .mandatory(&["capture-metrics", "capture-metrics-async", "facade-with-local-recorder-over-a-clone", "with-local-recorder"]),
        || {
            (any::<u8>(), prop::collection::vec((0u8..3, 0u8..3, prop_oneof![0u32..5, any::<u32>()]), 0..30), any::<u8>())
                .prop_map(|(ctor, updates, unit)| FacadeCase { ctor, updates, unit })
        },
        check_facade,
    );
}
