//! C07 — `#[metrics]` emits the documented names, values and units for every type shape.
//! Generated programs: trees of type definitions are written as Rust source into a scratch cargo
//! workspace (path dependencies on /repo), compiled, run, and compared with the reference
//! interpreter's expectation embedded in each program.

use crate::c07gen::*;
use crate::engine::*;
use proptest::prelude::*;
use serde::{Deserialize, Serialize};
use std::collections::BTreeMap;
use std::path::{Path, PathBuf};
use std::process::Command;

#[derive(Clone, Debug, Serialize, Deserialize)]
pub struct Case {
    pub root: Node,
}

fn work_root() -> PathBuf {
    PathBuf::from(format!("{}/target/c07work", verif_root()))
}

fn write_workspace(dir: &Path, crates: &[Vec<Node>]) -> std::io::Result<()> {
    let _ = std::fs::remove_dir_all(dir);
    std::fs::create_dir_all(dir)?;
    let members: Vec<String> = (0..crates.len()).map(|i| format!("\"g{i}\"")).collect();
    std::fs::write(
        dir.join("Cargo.toml"),
        format!(
            "[workspace]\nresolver = \"3\"\nmembers = [{}]\n\n[profile.dev]\nopt-level = 0\ndebug = 0\nincremental = false\n",
            members.join(", ")
        ),
    )?;
    std::fs::create_dir_all(dir.join(".cargo"))?;
    std::fs::write(dir.join(".cargo/config.toml"), "[net]\noffline = true\n")?;
    std::fs::copy(format!("{}/harness/Cargo.lock", verif_root()), dir.join("Cargo.lock"))?;
    for (i, roots) in crates.iter().enumerate() {
        let c = dir.join(format!("g{i}"));
        std::fs::create_dir_all(c.join("src"))?;
        std::fs::write(
            c.join("Cargo.toml"),
            format!(
                "[package]\nname = \"g{i}\"\nversion = \"0.0.0\"\nedition = \"2024\"\npublish = false\n\n[dependencies]\nmetrique = {{ path = \"/repo/metrique\", features = [\"test-util\"] }}\nc07rt = {{ path = \"{}/harness/c07rt\" }}\n",
                verif_root()
            ),
        )?;
        std::fs::write(c.join("src/main.rs"), program(roots))?;
    }
    Ok(())
}

enum BuildOutcome {
    Ok,
    Failed(String),
}

fn cargo_build(dir: &Path) -> BuildOutcome {
    let out = Command::new("cargo")
        .current_dir(dir)
        .env("CARGO_TARGET_DIR", format!("{}/target/c07", verif_root()))
        .env("CARGO_NET_OFFLINE", "true")
        .env_remove("RUSTFLAGS")
        .args(["build", "--workspace", "-q"])
        .output();
    match out {
        Ok(o) if o.status.success() => BuildOutcome::Ok,
        Ok(o) => BuildOutcome::Failed(String::from_utf8_lossy(&o.stderr).to_string()),
        Err(e) => BuildOutcome::Failed(format!("cannot run cargo: {e}")),
    }
}

/// run the built programs; returns per root type name either Ok or the mismatch JSON
fn run_programs(n: usize) -> Result<BTreeMap<String, Option<String>>, String> {
    let mut res = BTreeMap::new();
    for i in 0..n {
        let bin = format!("{}/target/c07/debug/g{i}", verif_root());
        let out = Command::new(&bin).output().map_err(|e| format!("cannot run {bin}: {e}"))?;
        if !out.status.success() {
            return Err(format!(
                "generated program g{i} crashed: {}",
                String::from_utf8_lossy(&out.stderr).chars().take(2000).collect::<String>()
            ));
        }
        for l in String::from_utf8_lossy(&out.stdout).lines() {
            if let Some(rest) = l.strip_prefix("C07 OK ") {
                res.insert(rest.trim().to_string(), None);
            } else if let Some(rest) = l.strip_prefix("C07 MISMATCH ") {
                let (name, json) = rest.split_once(' ').unwrap_or((rest, "{}"));
                res.insert(name.to_string(), Some(json.to_string()));
            }
        }
    }
    Ok(res)
}

/// root-cause signature from the tree and the mismatch
fn signature(root: &Node, mismatch: &str) -> String {
    let v: serde_json::Value = serde_json::from_str(mismatch).unwrap_or_default();
    if v.get("panic").is_some() {
        return "macro:generated-code-panicked".into();
    }
    let got = v["got"].as_array().cloned().unwrap_or_default();
    let exp = v["expected"].as_array().cloned().unwrap_or_default();
    if got.len() != exp.len() {
        return "macro:item-count".into();
    }
    for (g, e) in got.iter().zip(exp.iter()) {
        if g[0] != e[0] {
            // which kind of name differs?
            let en = e[0].as_str().unwrap_or("");
            if tag_names(root).iter().any(|t| en.ends_with(t.as_str())) && e[1] == "S" {
                return "macro:tag-field-name".into();
            }
            return "macro:field-name".into();
        }
        if g[1] != e[1] {
            return "macro:value-kind".into();
        }
        if g[2] != e[2] {
            return "macro:value".into();
        }
        if g[3] != e[3] {
            return "macro:unit".into();
        }
    }
    if v["got_sample_group"] != v["expected_sample_group"] {
        // known finding D9, matched exactly: the sample-group pairs the implementation yields are
        // those of the reference interpreter run WITHOUT adding flatten prefixes (field-level and
        // tuple-variant-level) to the chain - same values, same styles, same container prefixes.
        // Anything else (a lost container prefix, a wrong style, a missing pair) is a new finding.
        let g = v["got_sample_group"].as_array().cloned().unwrap_or_default();
        let mut got_pairs: Vec<(String, String)> = g
            .iter()
            .map(|p| (p[0].as_str().unwrap_or("").to_string(), p[1].as_str().unwrap_or("").to_string()))
            .collect();
        got_pairs.sort();
        let mut d9_exp = vec![];
        let mut d9_sg = vec![];
        expected(
            root,
            &crate::c07gen::NameCtx { style: None, chain: String::new(), d9_sample_group_names: true },
            &mut d9_exp,
            &mut d9_sg,
        );
        d9_sg.sort();
        if got_pairs == d9_sg && has_prefixed_flatten(root) {
            return "macro:sample-group-name-misses-flatten-prefix".into();
        }
        return "macro:sample-group".into();
    }
    "macro:other".into()
}

fn has_prefixed_flatten(n: &Node) -> bool {
    let mut fields: Vec<&Field> = n.fields.iter().collect();
    for var in &n.variants {
        match &var.data {
            VData::Struct(f) => fields.extend(f.iter()),
            VData::Tuple { child, prefix } => {
                if prefix.is_some() || has_prefixed_flatten(child) {
                    return true;
                }
            }
            VData::Unit => {}
        }
    }
    fields.iter().any(|f| match &f.kind {
        FKind::Flatten { child, prefix } => prefix.is_some() || has_prefixed_flatten(child),
        _ => false,
    })
}

fn tag_names(n: &Node) -> Vec<String> {
    let mut v = vec![];
    fn rec(n: &Node, v: &mut Vec<String>) {
        if let Some((t, _)) = &n.tag {
            match t {
                Tag::Name(x) | Tag::NameExact(x) => {
                    v.push(x.clone());
                    v.push(apply(Some(Style::Pascal), x));
                    v.push(apply(Some(Style::Snake), x));
                    v.push(apply(Some(Style::Kebab), x));
                }
            }
        }
        let mut fields: Vec<&Field> = n.fields.iter().collect();
        for var in &n.variants {
            match &var.data {
                VData::Struct(f) => fields.extend(f.iter()),
                VData::Tuple { child, .. } => rec(child, v),
                VData::Unit => {}
            }
        }
        for f in fields {
            if let FKind::Flatten { child, .. } = &f.kind {
                rec(child, v);
            }
        }
    }
    rec(n, &mut v);
    v
}

fn classify(root: &Node) -> (Classes, bool) {
    let mut acc = vec![];
    let mut styles = vec![];
    let mut max_chain = 0;
    features(root, 0, &mut acc, &mut styles, 0, &mut max_chain);
    if styles.len() >= 2 {
        acc.push("two-explicit-styles");
    }
    if max_chain >= 2 {
        acc.push("prefix-chain-2");
    }
    // final name lengths around the 100-byte const-concatenation limit
    let mut exp = vec![];
    let mut sg = vec![];
    expected(root, &crate::c07gen::NameCtx { style: None, chain: String::new(), d9_sample_group_names: false }, &mut exp, &mut sg);
    for e in &exp {
        match e.name.len() {
            0..=100 => {}
            101..=128 => acc.push("name-101-128-bytes"),
            _ => acc.push("name-over-128-bytes"),
        }
    }
    let nt = styles.len() >= 2 || max_chain >= 2;
    if nt {
        acc.push("nt");
    }
    acc.sort();
    acc.dedup();
    (acc, nt)
}

/// shrink a failing root by deleting fields / variants / attributes while it keeps failing with
/// the same signature; each step compiles a one-root crate
fn shrink(root: &Node, sig: &str, budget: usize) -> Node {
    let mut best = root.clone();
    let mut steps = 0;
    loop {
        let mut improved = false;
        for cand in reductions(&best) {
            if steps >= budget {
                return best;
            }
            steps += 1;
            let dir = work_root().join("shrink");
            if write_workspace(&dir, &[vec![cand.clone()]]).is_err() {
                continue;
            }
            if let BuildOutcome::Ok = cargo_build(&dir) {
                if let Ok(res) = run_programs(1) {
                    if let Some(Some(m)) = res.get(&cand.type_name) {
                        if signature(&cand, m) == sig {
                            best = cand;
                            improved = true;
                            break;
                        }
                    }
                }
            }
        }
        if !improved {
            return best;
        }
    }
}

fn reductions(n: &Node) -> Vec<Node> {
    let mut out = vec![];
    // drop one field
    for i in 0..n.fields.len() {
        if n.fields.len() > 1 {
            let mut c = n.clone();
            c.fields.remove(i);
            out.push(c);
        }
    }
    // replace a flatten child by its reductions / hoist
    for (i, f) in n.fields.iter().enumerate() {
        if let FKind::Flatten { child, prefix } = &f.kind {
            for r in reductions(child) {
                let mut c = n.clone();
                c.fields[i].kind = FKind::Flatten {
                    child: Box::new(r),
                    prefix: prefix.clone(),
                };
                out.push(c);
            }
            if prefix.is_some() {
                let mut c = n.clone();
                c.fields[i].kind = FKind::Flatten {
                    child: child.clone(),
                    prefix: None,
                };
                out.push(c);
            }
        }
    }
    // enum: keep only the active variant
    if n.variants.len() > 1 {
        let mut c = n.clone();
        let v = c.variants[c.active % c.variants.len()].clone();
        c.variants = vec![v];
        c.active = 0;
        out.push(c);
    }
    for (vi, v) in n.variants.iter().enumerate() {
        match &v.data {
            VData::Tuple { child, prefix } => {
                for r in reductions(child) {
                    let mut c = n.clone();
                    c.variants[vi].data = VData::Tuple {
                        child: Box::new(r),
                        prefix: prefix.clone(),
                    };
                    out.push(c);
                }
            }
            VData::Struct(fields) if fields.len() > 1 => {
                for i in 0..fields.len() {
                    let mut c = n.clone();
                    if let VData::Struct(f) = &mut c.variants[vi].data {
                        f.remove(i);
                    }
                    out.push(c);
                }
            }
            _ => {}
        }
    }
    if n.cprefix.is_some() {
        let mut c = n.clone();
        c.cprefix = None;
        out.push(c);
    }
    if n.tag.is_some() && n.fields.is_empty() {
        // keep the tag (often the culprit) but try without sample group
        if let Some((t, true)) = &n.tag {
            let mut c = n.clone();
            c.tag = Some((t.clone(), false));
            out.push(c);
        }
    }
    out
}

fn run_batch(ctx: &mut Ctx, name: &'static str, rule: &'static str, crates: Vec<Vec<Node>>, mandatory: &[&str]) {
    let mut t = Tally::new(name, rule);
    let dir = work_root().join(name);
    if let Err(e) = write_workspace(&dir, &crates) {
        ctx.inconclusive.push(format!("cannot write generated workspace: {e}"));
        return;
    }
    match cargo_build(&dir) {
        BuildOutcome::Ok => {}
        BuildOutcome::Failed(err) => {
            // a generated program that does not compile is a generator problem (or a repository
            // that does not build): never a violation
            let log = dir.join("build-error.log");
            let _ = std::fs::write(&log, &err);
            ctx.inconclusive.push(format!(
                "generated programs failed to compile (see {}): {}",
                log.display(),
                err.lines().filter(|l| l.starts_with("error")).take(3).collect::<Vec<_>>().join(" | ")
            ));
            ctx.push_custom(t.finish(mandatory));
            return;
        }
    }
    let res = match run_programs(crates.len()) {
        Ok(r) => r,
        Err(e) => {
            ctx.inconclusive.push(e);
            ctx.push_custom(t.finish(mandatory));
            return;
        }
    };
    let mut failure: Option<(Node, String)> = None;
    let mut known_hits: BTreeMap<String, u64> = BTreeMap::new();
    for roots in &crates {
        for r in roots {
            match res.get(&r.type_name) {
                Some(None) => {
                    let (classes, _) = classify(r);
                    t.record(hash_dbg(r), &classes, || {
                        let mut exp = vec![];
                        let mut sg = vec![];
                        expected(
                            r,
                            &crate::c07gen::NameCtx {
                                style: None,
                                chain: String::new(),
                                d9_sample_group_names: false,
                            },
                            &mut exp,
                            &mut sg,
                        );
                        serde_json::json!({
                            "root_type": r.type_name,
                            "expected_names": exp.iter().map(|e| e.name.clone()).collect::<Vec<_>>(),
                            "tree": r,
                        })
                    });
                }
                Some(Some(m)) => {
                    let sig = signature(r, m);
                    if ctx.is_known(&sig) {
                        // a listed finding: counted, not reported again, and the search goes on
                        *known_hits.entry(sig).or_insert(0u64) += 1;
                        t.evaluations += 1;
                    } else if failure.is_none() {
                        failure = Some((r.clone(), m.clone()));
                    }
                }
                None => ctx.inconclusive.push(format!("no result line for root {}", r.type_name)),
            }
        }
    }
    let mut rep = t.finish(mandatory);
    for (sig, n) in &known_hits {
        let what = ctx.known.iter().find(|k| k.signature == *sig).map(|k| k.what.clone()).unwrap_or_default();
        println!("KNOWN-FINDING: property={} signature={} hits={} {}", ctx.id, sig, n, what);
    }
    rep.known_finding_hits = known_hits;
    ctx.push_custom(rep);
    if let Some((root, m)) = failure {
        let sig = signature(&root, &m);
        let budget = if ctx.tier == Tier::Quick { 12 } else { 40 };
        let small = if ctx.is_known(&sig) { root.clone() } else { shrink(&root, &sig, budget) };
        // re-run the shrunk root to get its own mismatch text
        let dir = work_root().join("final");
        let mut msg = m.clone();
        if write_workspace(&dir, &[vec![small.clone()]]).is_ok() {
            if let BuildOutcome::Ok = cargo_build(&dir) {
                if let Ok(res) = run_programs(1) {
                    if let Some(Some(m2)) = res.get(&small.type_name) {
                        msg = m2.clone();
                    }
                }
            }
        }
        let case = Case { root: small.clone() };
        let src = program(&[small]);
        ctx.report_violation(
            "c07-generated-programs",
            Fail::new(sig, format!("generated #[metrics] program does not emit the documented items: {msg}\n--- program ---\n{src}")),
            serde_json::to_value(&case).unwrap(),
            format!("{case:?}"),
        );
    }
}

fn replay(ctx: &mut Ctx) {
    let Some(r) = &ctx.replay else { return };
    if r.check != "c07-generated-programs" {
        return;
    }
    ctx.replay_ran = true;
    let case: Case = match serde_json::from_value(r.case.clone()) {
        Ok(c) => c,
        Err(e) => {
            ctx.inconclusive.push(format!("replay decode: {e}"));
            return;
        }
    };
    let dir = work_root().join("replay");
    if write_workspace(&dir, &[vec![case.root.clone()]]).is_err() {
        ctx.inconclusive.push("cannot write replay workspace".into());
        return;
    }
    match cargo_build(&dir) {
        BuildOutcome::Ok => {}
        BuildOutcome::Failed(e) => {
            println!("REPLAY-INCONCLUSIVE build failed: {}", e.lines().take(5).collect::<Vec<_>>().join(" | "));
            ctx.inconclusive.push("replay program does not compile".into());
            return;
        }
    }
    match run_programs(1) {
        Ok(res) => match res.get(&case.root.type_name) {
            Some(None) => println!("REPLAY-PASS check=c07-generated-programs"),
            Some(Some(m)) => {
                ctx.replay_failed = true;
                println!(
                    "REPLAY-FAIL check=c07-generated-programs signature={} :: {m}",
                    signature(&case.root, m)
                );
            }
            None => ctx.inconclusive.push("no result".into()),
        },
        Err(e) => ctx.inconclusive.push(e),
    }
}

pub const RULE: &str = "generated PROGRAMS: trees (depth <= 3) of #[metrics] structs and entry enums with every combination of rename_all (none/PascalCase/snake_case/kebab-case), container prefix / exact_prefix, flatten with prefix / exact_prefix / none (incl. > 100-byte prefix chains), name overrides, unit attributes, ignore, Option Some/None, #[metrics(value)] newtypes, value(string) enums with variant name overrides, tag(name | name_exact [, sample_group]), sample_group fields, unit / tuple / struct variants, subfield / subfield_owned; identifiers with digits, acronyms and doubled delimiters; 25-60 root types per crate (one macro process), with words that occur as a field name in one type and as a flatten prefix (with or without trailing delimiter) in another. Written as Rust source into scratch crates (path deps on /repo), compiled, run. Oracle: a reference interpreter of the documented naming rules evaluated on the same tree (case conversion itself delegated to the Inflector crate, the composition is under test): exact ordered list of (name, string|metric, value, unit) and the sample-group pairs. Non-trivial = a root whose tree has >= 2 different explicit styles or a prefix chain of length >= 2";

pub fn run(ctx: &mut Ctx) {
    ctx.assume("programs are sampled; macro rejections (compile errors) are outside the property: a generated program that fails to compile makes the run inconclusive (exit 2), never a violation");
    ctx.assume("tag(name) is read per the attribute table ('inflectable, respects prefix and rename_all'), tag(name_exact) as 'exact, not affected by prefix or rename_all'; flatten prefixes do apply to both");
    if ctx.replay.is_some() {
        replay(ctx);
        return;
    }
    let (ncrates, per) = if ctx.tier == Tier::Quick { (8usize, 25usize) } else { (8, 60) };
    let rounds = ctx.tier.pick(1usize, 24usize);
    for round in 0..rounds {
        let seed = mix_seed(ctx.seed, "c07", round as u64);
        let roots = sample_strategy(&arb_root(2, "R"), seed, ncrates * per);
        let mut crates: Vec<Vec<Node>> = (0..ncrates).map(|_| vec![]).collect();
        for (i, r) in roots.into_iter().enumerate() {
            let mut r = r;
            // unique type names across the crate are guaranteed by the module per root; the root
            // type name must be unique across the batch for result matching
            r.type_name = format!("{}_{}", r.type_name, i);
            crates[i % ncrates].push(r);
        }
        run_batch(
            ctx,
            if round == 0 { "c07-generated-programs" } else { "c07-generated-programs-more" },
            RULE,
            crates,
            &[
                "style-pascal", "style-snake", "style-kebab", "container-prefix", "container-exact-prefix", "flatten-prefix",
                "flatten-exact-prefix", "name-override", "unit-attr", "ignore", "option-none", "value-struct",
                "value-string-enum", "entry-enum", "tag-name", "tag-name-exact", "tag-sample-group", "sample-group-field",
                "unit-variant", "tuple-variant", "struct-variant", "depth-3", "two-explicit-styles", "prefix-chain-2",
                "long-prefix-chain", "name-101-128-bytes", "name-over-128-bytes",
            ],
        );
        if !ctx.violations.is_empty() || !ctx.inconclusive.is_empty() {
            break;
        }
    }
}

#[allow(dead_code)]
fn _p() -> impl Strategy<Value = u8> {
    any::<u8>()
}
