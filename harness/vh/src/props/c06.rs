//! C06 — a unit-of-work entry is closed and appended exactly once, at the right moment.

use crate::engine::*;
use crate::reclog::*;
use crate::{vensure, vfail};
use metrique::unit_of_work::metrics;
use metrique::{FlushGuard, ForceFlushGuard, RootEntry};
use metrique::{OnParentDrop, Slot, SlotGuard};
use metrique_writer_core::sink::FlushWait;
use metrique_writer_core::{Entry, EntrySink};
use proptest::prelude::*;
use serde::{Deserialize, Serialize};
use std::sync::atomic::{AtomicU64, Ordering};
use std::sync::{Arc, Mutex};

#[metrics]
pub struct Uow {
    a: u64,
    b: u64,
    /// interior-mutable field: handle clones keep adding to it after the owner is gone; the entry
    /// must carry its value at the instant it is closed and appended
    c: metrique::Counter,
    /// closes to the harness step at which close() ran: "closed ... at the moment" is about the
    /// close as much as about the append (timers, timestamps-on-close and slots read their value
    /// then)
    t: ClosedAt,
}

thread_local! {
    static STEP: std::cell::Cell<u64> = const { std::cell::Cell::new(0) };
}
/// the value of a field of this type is the step (set by the driving thread before every
/// operation) during which the entry was closed
#[derive(Default)]
pub struct ClosedAt;
impl metrique::CloseValue for ClosedAt {
    type Closed = u64;
    fn close(self) -> u64 {
        STEP.with(|s| s.get())
    }
}
impl metrique::CloseValue for &ClosedAt {
    type Closed = u64;
    fn close(self) -> u64 {
        STEP.with(|s| s.get())
    }
}

/// what the sink saw: the entry's fields and the started-flags snapshot at the append instant
#[derive(Clone, Debug, Default)]
pub struct Appended {
    pub fields: Vec<(String, u64)>,
    pub started_snapshot: u64,
    pub thread: String,
}

/// counting sink for any rooted entry
pub struct CountSink {
    pub appended: Arc<Mutex<Vec<Appended>>>,
    /// bit i set = the drop of harness object i has started
    pub started: Arc<AtomicU64>,
}
impl Clone for CountSink {
    fn clone(&self) -> Self {
        CountSink {
            appended: self.appended.clone(),
            started: self.started.clone(),
        }
    }
}
impl CountSink {
    pub fn new() -> Self {
        CountSink {
            appended: Default::default(),
            started: Arc::new(AtomicU64::new(0)),
        }
    }
    pub fn count(&self) -> usize {
        self.appended.lock().unwrap().len()
    }
}
impl<E: Entry> EntrySink<E> for CountSink {
    fn append(&self, entry: E) {
        let snap = self.started.load(Ordering::SeqCst);
        let log = record(&entry);
        let fields = log
            .recs
            .iter()
            .filter_map(|r| match r {
                Rec::Value {
                    name,
                    val: RecVal::Metric { obs, .. },
                } => match obs.first() {
                    Some(crate::model::Obs::U(u)) => Some((name.clone(), *u)),
                    _ => None,
                },
                _ => None,
            })
            .collect();
        self.appended.lock().unwrap().push(Appended {
            fields,
            started_snapshot: snap,
            thread: format!("{:?}", std::thread::current().id()),
        });
    }
    fn flush_async(&self) -> FlushWait {
        FlushWait::ready()
    }
}

#[derive(Clone, Copy, Debug, PartialEq, Eq, Hash, Serialize, Deserialize)]
pub enum Op {
    NewFlushGuard,
    NewForceGuard,
    DropFlushGuard(u8),
    DropForceGuard(u8),
    Mutate(u8),
    IntoHandle,
    CloneHandle,
    DropHandle(u8),
    DropOwner,
    /// add to the Counter field through the i-th handle clone (`&self` access)
    AddViaHandle(u8, u8),
    /// release the owner through `Instrumented::from_parts((), owner).emit()` - for the keep-alive
    /// protocol the same as dropping it
    EmitOwner,
    /// release the owner through one of the other `Instrumented` routes (k % 6): instrument +
    /// finalize_metrics + emit, Result + on_error / on_success + emit, discard_metrics,
    /// into_parts, split_metrics_to, instrument_async (polled to completion) + emit - each ends
    /// with the owner dropped exactly once, so for the keep-alive protocol all equal a plain drop
    ReleaseVia(u8),
    /// a flush guard of the entry handed (`delay_flush`) to a SlotGuard whose own Slot is already
    /// gone: the SlotGuard is a plain holder of the guard, the entry waits for it like for any
    /// other flush guard
    NewFlushGuardInDetachedSlotGuard,
    /// the documented way to park a flush guard: `Slot::open(OnParentDrop::Wait(guard))`, the
    /// slot itself kept next to its guard
    NewFlushGuardInWaitSlotGuard,
    /// the same through `LazySlot::open(value, OnParentDrop::Wait(guard))`
    NewFlushGuardInLazySlotGuard,
    /// the i-th holder gets a fresh flush guard of the entry and releases the one it held
    /// (`delay_flush` again on a slot guard; create-then-drop for a plain guard)
    ReplaceHeldGuard(u8),
}

/// what keeps a flush guard alive (fields drop in order: the slot guard before its slot)
pub enum Holder {
    Plain(FlushGuard),
    InSlotGuard(SlotGuard<HolderChild>),
    WaitSlot(SlotGuard<HolderChild>, Slot<HolderChild>),
    LazySlot(SlotGuard<HolderChild>, metrique::slot::LazySlot<HolderChild>),
}

#[metrics(subfield)]
#[derive(Default)]
pub struct HolderChild {
    x: u64,
}

/// reference model of the keep-alive protocol
#[derive(Clone, Debug, Default)]
pub struct Model {
    pub owner_alive: bool,
    pub handles: usize,
    /// live flush guards: true = created before the first force drop (holds the entry)
    pub flush_guards: Vec<bool>,
    pub force_guards: usize,
    pub force_dropped: bool,
    pub a: u64,
    pub b: u64,
    pub c: u64,
}
impl Model {
    pub fn new() -> Self {
        Model {
            owner_alive: true,
            ..Default::default()
        }
    }
    pub fn emitted(&self) -> bool {
        !self.owner_alive && self.handles == 0 && (self.force_dropped || self.flush_guards.iter().all(|h| !*h))
    }
    pub fn enabled(&self, op: Op) -> bool {
        match op {
            Op::NewFlushGuard
            | Op::NewFlushGuardInDetachedSlotGuard
            | Op::NewFlushGuardInWaitSlotGuard
            | Op::NewFlushGuardInLazySlotGuard
            | Op::NewForceGuard
            | Op::Mutate(_)
            | Op::IntoHandle
            | Op::DropOwner
            | Op::EmitOwner
            | Op::ReleaseVia(_) => self.owner_alive,
            Op::ReplaceHeldGuard(i) => self.owner_alive && (i as usize) < self.flush_guards.len(),
            Op::DropFlushGuard(i) => (i as usize) < self.flush_guards.len(),
            Op::DropForceGuard(i) => (i as usize) < self.force_guards,
            Op::CloneHandle => self.handles > 0,
            Op::DropHandle(i) => (i as usize) < self.handles,
            Op::AddViaHandle(i, _) => (i as usize) < self.handles,
        }
    }
    pub fn apply(&mut self, op: Op) {
        match op {
            Op::NewFlushGuard | Op::NewFlushGuardInDetachedSlotGuard | Op::NewFlushGuardInWaitSlotGuard | Op::NewFlushGuardInLazySlotGuard => {
                self.flush_guards.push(!self.force_dropped)
            }
            Op::ReplaceHeldGuard(i) => self.flush_guards[i as usize] = !self.force_dropped,
            Op::NewForceGuard => self.force_guards += 1,
            Op::DropFlushGuard(i) => {
                self.flush_guards.remove(i as usize);
            }
            Op::DropForceGuard(_) => {
                self.force_guards -= 1;
                self.force_dropped = true;
            }
            Op::Mutate(k) => {
                self.a += k as u64;
                self.b += 1;
            }
            Op::IntoHandle => {
                self.owner_alive = false;
                self.handles = 1;
            }
            Op::CloneHandle => self.handles += 1,
            Op::DropHandle(_) => self.handles -= 1,
            Op::DropOwner | Op::EmitOwner | Op::ReleaseVia(_) => self.owner_alive = false,
            Op::AddViaHandle(_, k) => self.c += k as u64,
        }
    }
}

pub struct Real {
    pub sink: CountSink,
    pub owner: Option<UowGuard<CountSink>>,
    pub handles: Vec<UowHandle<CountSink>>,
    pub flush_guards: Vec<Holder>,
    pub force_guards: Vec<ForceFlushGuard>,
}
impl Real {
    pub fn new() -> Self {
        let sink = CountSink::new();
        let owner = Uow { a: 0, b: 0, c: metrique::Counter::new(0), t: ClosedAt }.append_on_drop(sink.clone());
        Real {
            sink,
            owner: Some(owner),
            handles: vec![],
            flush_guards: vec![],
            force_guards: vec![],
        }
    }
    pub fn apply(&mut self, op: Op) {
        match op {
            Op::NewFlushGuard => self.flush_guards.push(Holder::Plain(self.owner.as_ref().unwrap().flush_guard())),
            Op::NewFlushGuardInDetachedSlotGuard => {
                let mut slot: Slot<HolderChild> = Slot::default();
                let mut g = slot.open(OnParentDrop::Discard).expect("fresh slot opens");
                drop(slot); // the receiving side is gone: the guard is detached
                g.delay_flush(self.owner.as_ref().unwrap().flush_guard());
                self.flush_guards.push(Holder::InSlotGuard(g));
            }
            Op::NewFlushGuardInWaitSlotGuard => {
                let mut slot: Slot<HolderChild> = Slot::default();
                let g = slot.open(OnParentDrop::Wait(self.owner.as_ref().unwrap().flush_guard())).expect("fresh slot opens");
                self.flush_guards.push(Holder::WaitSlot(g, slot));
            }
            Op::NewFlushGuardInLazySlotGuard => {
                let mut slot: metrique::slot::LazySlot<HolderChild> = Default::default();
                let g = slot
                    .open(HolderChild::default(), OnParentDrop::Wait(self.owner.as_ref().unwrap().flush_guard()))
                    .expect("fresh lazy slot opens");
                self.flush_guards.push(Holder::LazySlot(g, slot));
            }
            Op::ReplaceHeldGuard(i) => {
                let fresh = self.owner.as_ref().unwrap().flush_guard();
                match &mut self.flush_guards[i as usize] {
                    h @ Holder::Plain(_) => {
                        let old = std::mem::replace(h, Holder::Plain(fresh));
                        drop(old);
                    }
                    Holder::InSlotGuard(g) | Holder::WaitSlot(g, _) | Holder::LazySlot(g, _) => g.delay_flush(fresh),
                }
            }
            Op::NewForceGuard => self.force_guards.push(self.owner.as_ref().unwrap().force_flush_guard()),
            Op::DropFlushGuard(i) => drop(self.flush_guards.remove(i as usize)),
            Op::DropForceGuard(i) => drop(self.force_guards.remove(i as usize)),
            Op::Mutate(k) => {
                let o = self.owner.as_mut().unwrap();
                o.a += k as u64;
                o.b += 1;
            }
            Op::IntoHandle => {
                let o = self.owner.take().unwrap();
                self.handles.push(o.handle());
            }
            Op::CloneHandle => {
                let h = self.handles[0].clone();
                self.handles.push(h);
            }
            Op::DropHandle(i) => drop(self.handles.remove(i as usize)),
            Op::DropOwner => drop(self.owner.take()),
            Op::EmitOwner => metrique::instrument::Instrumented::from_parts((), self.owner.take().unwrap()).emit(),
            Op::ReleaseVia(k) => {
                use metrique::instrument::Instrumented;
                let o = self.owner.take().unwrap();
                match k % 6 {
                    0 => {
                        // the closures see the entry but (here) leave it as it is
                        let v = Instrumented::instrument(o, |m| m.a).finalize_metrics(|v, m| assert_eq!(*v, m.a)).emit();
                        std::hint::black_box(v);
                    }
                    1 => {
                        let r: metrique::instrument::Result<u64, u64, _> =
                            Instrumented::instrument(o, |m| if k & 64 == 0 { Ok(m.a) } else { Err(m.a) });
                        let _ = r.on_error(|e, m| assert_eq!(*e, m.a)).on_success(|v, m| assert_eq!(*v, m.a)).emit();
                    }
                    2 => Instrumented::from_parts((), o).discard_metrics(),
                    3 => {
                        let ((), m) = Instrumented::from_parts((), o).into_parts();
                        drop(m);
                    }
                    4 => {
                        let mut target = None;
                        Instrumented::from_parts((), o).split_metrics_to(&mut target);
                        drop(target);
                    }
                    _ => {
                        let fut = Instrumented::instrument_async(o, async |m: &mut UowGuard<CountSink>| m.a);
                        let mut fut = std::pin::pin!(fut);
                        let w = std::task::Waker::noop();
                        let mut cx = std::task::Context::from_waker(w);
                        match fut.as_mut().poll(&mut cx) {
                            std::task::Poll::Ready(i) => {
                                i.emit();
                            }
                            std::task::Poll::Pending => unreachable!("a future without await points"),
                        }
                    }
                }
            }
            Op::AddViaHandle(i, k) => self.handles[i as usize].c.add(k as u64),
        }
    }
}

/// run a sequence single-threaded, comparing after every op
pub fn run_sequence(ops: &[Op]) -> Result<(Model, Real, Classes), Fail> {
    let mut m = Model::new();
    let mut r = Real::new();
    let mut classes: Classes = vec![];
    for (i, op) in ops.iter().enumerate() {
        if !m.enabled(*op) {
            continue;
        }
        let before = m.emitted();
        // classification of interesting situations
        match op {
            Op::DropForceGuard(_) if m.flush_guards.iter().any(|h| *h) => classes.push("force-drop-while-flush-guards-alive"),
            Op::NewFlushGuard | Op::NewFlushGuardInDetachedSlotGuard | Op::NewFlushGuardInWaitSlotGuard | Op::NewFlushGuardInLazySlotGuard
                if m.force_dropped =>
            {
                classes.push("guard-created-after-force-drop")
            }
            Op::NewFlushGuardInDetachedSlotGuard => classes.push("flush-guard-held-by-a-detached-slot-guard"),
            Op::NewFlushGuardInWaitSlotGuard | Op::NewFlushGuardInLazySlotGuard => classes.push("flush-guard-parked-by-slot-open-wait"),
            Op::ReplaceHeldGuard(_) => classes.push("held-guard-replaced"),
            Op::DropOwner | Op::IntoHandle | Op::EmitOwner | Op::ReleaseVia(_) if !m.flush_guards.is_empty() => classes.push("guard-outlives-owner"),
            Op::AddViaHandle(..) => classes.push("mutation-through-handle-after-owner-gone"),
            _ => {}
        }
        if matches!(op, Op::ReleaseVia(_)) {
            classes.push("owner-released-through-an-instrumented-combinator");
        }
        m.apply(*op);
        STEP.with(|s| s.set(1000 + i as u64));
        let res = no_panic("uow-op", || r.apply(*op));
        res?;
        let want = m.emitted() as usize;
        let got = r.sink.count();
        if got != want {
            let sig = if got > want {
                if want == 0 { "uow:appended-too-early" } else { "uow:appended-twice" }
            } else {
                "uow:not-appended"
            };
            vfail!(
                sig,
                "after op {i} ({op:?}) of {ops:?}: the sink has {got} entries, the model says {want} (owner alive: {}, handles: {}, flush guards: {:?}, force dropped: {})",
                m.owner_alive,
                m.handles,
                m.flush_guards,
                m.force_dropped
            );
        }
        if !before && m.emitted() {
            let a = r.sink.appended.lock().unwrap()[0].clone();
            let mut f = a.fields.clone();
            f.sort();
            let closed_at = f.iter().position(|x| x.0 == "t").map(|k| f.remove(k).1);
            vensure!(
                closed_at == Some(1000 + i as u64),
                "uow:closed-at-another-moment-than-appended",
                "the entry was appended during op {i} ({op:?}) but its fields were closed during step {:?} (1000 + op index) of {ops:?}",
                closed_at
            );
            vensure!(
                f == vec![("a".to_string(), m.a), ("b".to_string(), m.b), ("c".to_string(), m.c)],
                "uow:content-does-not-reflect-mutations",
                "appended entry has fields {f:?}, the mutations up to the append instant sum to a={}, b={}, c={} (c is added to through handle clones)",
                m.a,
                m.b,
                m.c
            );
        }
    }
    classes.sort();
    classes.dedup();
    Ok((m, r, classes))
}

#[derive(Clone, Debug, Serialize, Deserialize)]
pub struct SeqCase {
    pub ops: Vec<Op>,
    /// >0: the remaining objects are dropped by this many threads
    pub threads: u8,
    pub order: Vec<u8>,
    pub jitter: Vec<u8>,
    /// single-threaded finish only: every leftover object is dropped while its thread unwinds
    /// from a panic (the usual fate of a unit of work whose handler panicked)
    #[serde(default)]
    pub unwinding: bool,
}

pub fn check_seq(case: &SeqCase) -> CaseResult {
    let (mut m, mut r, mut classes) = run_sequence(&case.ops)?;
    // finish: drop everything that is left, single-threaded or spread over threads
    enum Obj {
        Owner(UowGuard<CountSink>),
        Handle(UowHandle<CountSink>),
        Flush(Holder, bool),
        Force(ForceFlushGuard),
    }
    // ForceFlushGuard is !Unpin but Send; all are Send
    struct SendObj(Obj);
    unsafe impl Send for SendObj {}
    let mut objs: Vec<SendObj> = vec![];
    if let Some(o) = r.owner.take() {
        objs.push(SendObj(Obj::Owner(o)));
    }
    for h in r.handles.drain(..) {
        objs.push(SendObj(Obj::Handle(h)));
    }
    for (g, holds) in r.flush_guards.drain(..).zip(m.flush_guards.iter()) {
        objs.push(SendObj(Obj::Flush(g, *holds)));
    }
    for g in r.force_guards.drain(..) {
        objs.push(SendObj(Obj::Force(g)));
    }
    if m.emitted() {
        // already emitted: dropping leftovers must not append again
        drop(objs);
        vensure!(r.sink.count() == 1, "uow:appended-twice", "{} appends after dropping leftover guards", r.sink.count());
        return Ok(classes);
    }
    // deterministic permutation from `order`
    let n = objs.len();
    let mut idx: Vec<usize> = (0..n).collect();
    for i in 0..n {
        let j = i + (case.order.get(i).copied().unwrap_or(0) as usize) % (n - i);
        idx.swap(i, j);
    }
    let mut slots: Vec<Option<SendObj>> = objs.into_iter().map(Some).collect();
    let ordered: Vec<(usize, SendObj)> = idx.iter().map(|i| (*i, slots[*i].take().unwrap())).collect();
    // bit layout for the started flags: kind and whether it holds the entry
    let describe = |o: &Obj| match o {
        Obj::Owner(_) => 0u8,
        Obj::Handle(_) => 1,
        Obj::Flush(_, true) => 2,
        Obj::Flush(_, false) => 3,
        Obj::Force(_) => 4,
    };
    let kinds: Vec<(usize, u8)> = ordered.iter().map(|(i, o)| (*i, describe(&o.0))).collect();
    let nthreads = (case.threads as usize).min(4).min(n.max(1));
    let started = r.sink.started.clone();
    let force_dropped_before = m.force_dropped;
    if nthreads <= 1 {
        if case.unwinding && n > 0 {
            classes.push("final-drops-while-unwinding");
        }
        for (i, o) in ordered {
            started.fetch_or(1 << i, Ordering::SeqCst);
            if case.unwinding {
                no_panic("uow-drop-while-unwinding", || drop_while_unwinding(o))?;
            } else {
                drop(o);
            }
        }
    } else {
        classes.push("concurrent-final-drops");
        let barrier = std::sync::Barrier::new(nthreads);
        let mut buckets: Vec<Vec<(usize, SendObj)>> = (0..nthreads).map(|_| vec![]).collect();
        for (k, item) in ordered.into_iter().enumerate() {
            buckets[k % nthreads].push(item);
        }
        std::thread::scope(|s| {
            for (t, bucket) in buckets.into_iter().enumerate() {
                let barrier = &barrier;
                let started = started.clone();
                let jit = case.jitter.clone();
                s.spawn(move || {
                    barrier.wait();
                    for (k, (i, o)) in bucket.into_iter().enumerate() {
                        if !jit.is_empty() {
                            crate::bq::jitter(jit[(t + k) % jit.len()]);
                        }
                        // the flag is set BEFORE the real drop starts
                        started.fetch_or(1 << i, Ordering::SeqCst);
                        drop(o);
                    }
                });
            }
        });
    }
    let appended = r.sink.appended.lock().unwrap().clone();
    vensure!(
        appended.len() == 1,
        if appended.is_empty() { "uow:not-appended" } else { "uow:appended-twice" },
        "after every owner/handle/guard was dropped the sink has {} entries (ops {:?})",
        appended.len(),
        case.ops
    );
    // the snapshot taken at the append instant must satisfy the model condition
    let snap = appended[0].started_snapshot;
    let st = |i: usize| snap & (1 << i) != 0;
    let owners_started = kinds.iter().filter(|(_, k)| *k <= 1).all(|(i, _)| st(*i));
    let all_holding_flush_started = kinds.iter().filter(|(_, k)| *k == 2).all(|(i, _)| st(*i));
    let some_force_started = force_dropped_before || kinds.iter().any(|(i, k)| *k == 4 && st(*i));
    vensure!(
        owners_started && (all_holding_flush_started || some_force_started),
        "uow:appended-too-early",
        "the entry was appended while an owner/handle or a needed guard had not even begun to drop (snapshot {snap:#b}, objects {kinds:?})"
    );
    let mut f = appended[0].fields.clone();
    f.sort();
    f.retain(|x| x.0 != "t");
    vensure!(
        f == vec![("a".to_string(), m.a), ("b".to_string(), m.b), ("c".to_string(), m.c)],
        "uow:content-does-not-reflect-mutations",
        "appended entry has fields {f:?}, expected a={}, b={}",
        m.a,
        m.b
    );
    m.owner_alive = false;
    if classes.iter().any(|c| {
        matches!(
            *c,
            "force-drop-while-flush-guards-alive" | "guard-created-after-force-drop" | "guard-outlives-owner"
        )
    }) || nthreads > 1
    {
        classes.push("nt");
    }
    Ok(classes)
}

fn exhaustive(ctx: &mut Ctx) {
    let max_len = ctx.tier.pick(8usize, 10usize);
    let alphabet = [
        Op::NewFlushGuard,
        Op::NewForceGuard,
        Op::DropFlushGuard(0),
        Op::DropFlushGuard(1),
        Op::DropFlushGuard(2),
        Op::DropForceGuard(0),
        Op::DropForceGuard(1),
        Op::Mutate(3),
        Op::IntoHandle,
        Op::CloneHandle,
        Op::DropHandle(0),
        Op::DropHandle(1),
        Op::DropOwner,
    ];
    let t0 = std::time::Instant::now();
    let results: Vec<(Tally, Option<(Vec<Op>, Fail)>)> = std::thread::scope(|s| {
        let hs: Vec<_> = alphabet
            .iter()
            .map(|first| {
                let alphabet = &alphabet;
                s.spawn(move || {
                    let mut t = Tally::new("c06-exhaustive", "");
                    let mut fail = None;
                    fn rec(
                        seq: &mut Vec<Op>,
                        m: &Model,
                        alphabet: &[Op],
                        max_len: usize,
                        t: &mut Tally,
                        fail: &mut Option<(Vec<Op>, Fail)>,
                    ) {
                        if fail.is_some() {
                            return;
                        }
                        // evaluate this (well-formed) sequence, then let the remaining objects
                        // drop in creation order
                        let case = SeqCase {
                            ops: seq.clone(),
                            threads: 0,
                            order: vec![],
                            jitter: vec![],
                            unwinding: false,
                        };
                        match check_seq(&case) {
                            Ok(c) => {
                                t.evaluations += 1;
                                if c.contains(&"nt") {
                                    t.nt_extra += 1;
                                    if t.samples.len() < 2 {
                                        t.samples.push(serde_json::to_value(&case.ops).unwrap());
                                    }
                                }
                                for x in c {
                                    *t.classes.entry(x).or_insert(0) += 1;
                                }
                            }
                            Err(f) => {
                                *fail = Some((seq.clone(), f));
                                return;
                            }
                        }
                        if seq.len() >= max_len {
                            return;
                        }
                        for op in alphabet {
                            if !m.enabled(*op) {
                                continue;
                            }
                            // bounds: <= 2 handles, <= 3 flush guards, <= 2 force guards alive
                            let mut m2 = m.clone();
                            m2.apply(*op);
                            if m2.handles > 2 || m2.flush_guards.len() > 3 || m2.force_guards > 2 {
                                continue;
                            }
                            // nothing interesting happens after emission except leftover drops
                            if m.emitted() && matches!(op, Op::Mutate(_)) {
                                continue;
                            }
                            seq.push(*op);
                            rec(seq, &m2, alphabet, max_len, t, fail);
                            seq.pop();
                        }
                    }
                    let m0 = Model::new();
                    if m0.enabled(*first) {
                        let mut m1 = m0.clone();
                        m1.apply(*first);
                        let mut seq = vec![*first];
                        rec(&mut seq, &m1, alphabet, max_len, &mut t, &mut fail);
                    }
                    (t, fail)
                })
            })
            .collect();
        hs.into_iter().map(|h| h.join().unwrap()).collect()
    });
    let mut total = Tally::new(
        "c06-exhaustive",
        "ALL well-formed operation sequences up to the length bound (quick 8, thorough 10) over {new flush guard, new force-flush guard, drop flush guard #0-2, drop force guard #0-1, mutate, owner->handle, clone handle, drop handle #0-1, drop owner} with at most 2 handles, 3 flush guards, 2 force guards alive; real #[metrics] struct with append_on_drop into a counting sink; after EVERY op sink.count == model.emitted (never earlier, never twice, never missing) and the appended fields equal the sum of the owner's mutations; leftovers dropped at the end. Non-trivial = a guard outlives the owner, or a force guard is dropped while flush guards are alive, or a guard is created after a force drop",
    );
    total.t0 = t0;
    total.exhaustive = true;
    let mut failure = None;
    for (t, f) in results {
        total.merge(t);
        if failure.is_none() {
            failure = f;
        }
    }
    ctx.push_custom(total.finish(&[]));
    if let Some((ops, f)) = failure {
        let case = SeqCase {
            ops,
            threads: 0,
            order: vec![],
            jitter: vec![],
            unwinding: false,
        };
        ctx.report_violation("c06-random", f, serde_json::to_value(&case).unwrap(), format!("{case:?}"));
    }
}

/// a force-flush guard dropped while other threads use the entry's guards and handles through
/// `&self` (Debug formatting, handle clones, new flush guards): those operations must not make
/// the force drop a no-op
#[derive(Clone, Debug, Serialize, Deserialize)]
pub struct ForceVsUseCase {
    pub flush_guards: u8,
    pub readers: u8,
    pub jitter: Vec<u8>,
    /// the owner is dropped before (true) or after the racing phase
    pub owner_first: bool,
}

pub fn check_force_vs_use(case: &ForceVsUseCase) -> CaseResult {
    let sink = CountSink::new();
    let mut owner = Some(Uow { a: 1, b: 2, c: metrique::Counter::new(0), t: ClosedAt }.append_on_drop(sink.clone()));
    let n = 1 + (case.flush_guards % 3) as usize;
    let guards: Vec<FlushGuard> = (0..n).map(|_| owner.as_ref().unwrap().flush_guard()).collect();
    let force = owner.as_ref().unwrap().force_flush_guard();
    if case.owner_first {
        no_panic("uow-op", || drop(owner.take()))?;
        vensure!(sink.count() == 0, "uow:appended-too-early", "owner dropped with {n} flush guard(s) and a force guard alive: already appended");
    }
    let nr = 1 + (case.readers % 3) as usize;
    let barrier = std::sync::Barrier::new(nr + 1);
    let jit = |k: usize| case.jitter.get(k % case.jitter.len().max(1)).copied().unwrap_or(0);
    let res = std::thread::scope(|s| {
        for r in 0..nr {
            let guards = &guards;
            let barrier = &barrier;
            s.spawn(move || {
                barrier.wait();
                let mut len = 0usize;
                for k in 0..300 {
                    len += format!("{:?}", guards[(r + k) % guards.len()]).len();
                }
                len
            });
        }
        let barrier = &barrier;
        let h = s.spawn(move || {
            barrier.wait();
            crate::bq::jitter(jit(0));
            std::panic::catch_unwind(std::panic::AssertUnwindSafe(|| drop(force))).is_ok()
        });
        h.join().unwrap_or(false)
    });
    vensure!(res, "panic:force-guard-drop", "dropping the force-flush guard panicked");
    if !case.owner_first {
        no_panic("uow-op", || drop(owner.take()))?;
    }
    // owner gone, no handles, a force guard was dropped: appended now, whatever the flush guards do
    vensure!(
        sink.count() == 1,
        if sink.count() == 0 { "uow:not-appended" } else { "uow:appended-twice" },
        "the force-flush guard was dropped (while {nr} thread(s) were Debug-formatting the entry's {n} flush guard(s)) and the owner is gone, but the sink holds {} entries",
        sink.count()
    );
    no_panic("uow-op", || drop(guards))?;
    vensure!(sink.count() == 1, "uow:appended-twice", "dropping the flush guards after the force flush appended again: {}", sink.count());
    Ok(vec!["nt", if case.owner_first { "owner-dropped-before-the-race" } else { "owner-dropped-after-the-race" }])
}

pub fn arb_op() -> impl Strategy<Value = Op> {
    prop_oneof![
        3 => Just(Op::NewFlushGuard),
        1 => Just(Op::NewFlushGuardInDetachedSlotGuard),
        1 => Just(Op::NewFlushGuardInWaitSlotGuard),
        1 => Just(Op::NewFlushGuardInLazySlotGuard),
        1 => (0u8..4).prop_map(Op::ReplaceHeldGuard),
        2 => Just(Op::NewForceGuard),
        3 => (0u8..4).prop_map(Op::DropFlushGuard),
        1 => (0u8..3).prop_map(Op::DropForceGuard),
        3 => (0u8..50).prop_map(Op::Mutate),
        1 => Just(Op::IntoHandle),
        2 => Just(Op::CloneHandle),
        2 => (0u8..4).prop_map(Op::DropHandle),
        1 => Just(Op::DropOwner),
        1 => Just(Op::EmitOwner),
        1 => any::<u8>().prop_map(Op::ReleaseVia),
        2 => (0u8..4, 1u8..50).prop_map(|(i, k)| Op::AddViaHandle(i, k)),
        // guards of any age, not only the oldest ones
        1 => (0u8..40).prop_map(Op::DropFlushGuard),
    ]
}

pub fn run(ctx: &mut Ctx) {
    ctx.assume("emission is observed by a counting sink whose append() snapshots, at that instant, which harness objects have begun to drop (a flag set immediately before each drop); for concurrent drops only the necessary condition 'everything the model requires has at least begun to drop' is asserted");
    if ctx.replay.is_none() {
        exhaustive(ctx);
    }
    let q = ctx.tier == Tier::Quick;
    ctx.explore(
        SubCfg::new(
            "c06-random",
            "random op sequences up to length 60 (unbounded numbers of guards/handles), single-threaded, model compared after every op; flush guards are held plainly, by a SlotGuard whose slot is gone (delay_flush), by Slot::open(Wait(..)) / LazySlot::open(.., Wait(..)) guards, and holders get their guard replaced; the owner is released by a plain drop, Instrumented::emit or one of the other Instrumented routes (instrument + finalize_metrics, Result + on_error / on_success, discard_metrics, into_parts, split_metrics_to, instrument_async); the leftovers are dropped in a generated order, in 20% of the cases while the dropping thread unwinds from a panic. Non-trivial as in the exhaustive sub-check",
            if q { 30_000 } else { 1_000_000 },
        )
        .threads(ctx.tier.pick(8, 16))
        .mandatory(&["force-drop-while-flush-guards-alive", "guard-created-after-force-drop", "guard-outlives-owner", "final-drops-while-unwinding", "mutation-through-handle-after-owner-gone", "flush-guard-held-by-a-detached-slot-guard", "flush-guard-parked-by-slot-open-wait", "held-guard-replaced", "owner-released-through-an-instrumented-combinator"]),
        || {
            (prop::collection::vec(arb_op(), 0..60), prop::collection::vec(any::<u8>(), 0..12), prop::bool::weighted(0.2)).prop_map(|(ops, order, unwinding)| SeqCase {
                ops,
                threads: 0,
                order,
                jitter: vec![],
                unwinding,
            })
        },
        check_seq,
    );
    ctx.explore(
        SubCfg::new(
            "c06-concurrent-drops",
            "a generated single-threaded prefix, then every remaining owner/handle/guard is handed to 2-4 real threads that drop them after a barrier in a generated order with generated yields/spins/sleeps. Oracle: exactly one append in total; the started-flags snapshot at the append instant satisfies the model condition; content equals the mutations. Non-trivial = every case (the last drops race on different threads)",
            if q { 3_000 } else { 100_000 },
        )
        .threads(ctx.tier.pick(2, 4))
        .shrink_iters(200)
        .mandatory(&["concurrent-final-drops"]),
        || {
            (
                prop::collection::vec(arb_op(), 0..25),
                2u8..=4,
                prop::collection::vec(any::<u8>(), 0..12),
                prop::collection::vec(any::<u8>(), 0..6),
            )
                .prop_map(|(mut ops, threads, order, jitter)| {
                    // keep something alive for the threads to drop
                    // keep something alive for the threads to drop (a force-guard drop in the prefix is kept in
                    // every third case: guards created after it do not hold the entry)
                    let keep_force_drop = threads % 3 == 0;
                    ops.retain(|o| !matches!(o, Op::DropOwner | Op::EmitOwner | Op::ReleaseVia(_)) && (keep_force_drop || !matches!(o, Op::DropForceGuard(_))));
                    SeqCase {
                        ops,
                        threads,
                        order,
                        jitter,
                        unwinding: false,
                    }
                })
        },
        check_seq,
    );
    ctx.explore(
        SubCfg::new(
            "c06-force-drop-vs-concurrent-use",
            "owner + 1-3 flush guards + a force-flush guard; the force guard is dropped on its own thread while 1-3 other threads Debug-format the flush guards in a loop (a &self use of the entry's keep-alive state); the owner is dropped before or after. Oracle: with the owner gone and the force guard dropped the entry is appended exactly once, whatever the flush guards do afterwards. Non-trivial = every case",
            if q { 600 } else { 20_000 },
        )
        .threads(ctx.tier.pick(2, 4))
        .shrink_iters(20)
        .mandatory(&["owner-dropped-before-the-race", "owner-dropped-after-the-race"]),
        || (any::<u8>(), any::<u8>(), prop::collection::vec(any::<u8>(), 0..4), any::<bool>()).prop_map(|(flush_guards, readers, jitter, owner_first)| ForceVsUseCase { flush_guards, readers, jitter, owner_first }),
        check_force_vs_use,
    );
}
