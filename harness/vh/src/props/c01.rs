//! C01 — the background queue hands every appended entry to the stream exactly once, in
//! per-producer order; errors for one entry do not disturb any other.

use crate::bq::*;
use crate::engine::*;
use crate::iofault::{SRes, arb_sres};
use crate::{vensure, vfail};
use metrique_writer::sink::{BackgroundQueue, BackgroundQueueBuilder, BackgroundQueueJoinHandle};
use metrique_writer_core::sink::FlushWait;
use metrique_writer_core::{AnyEntrySink, BoxEntrySink, EntrySink};
use proptest::prelude::*;
use serde::{Deserialize, Serialize};
use std::collections::BTreeMap;
use std::sync::Arc;
use std::time::Duration;

#[derive(Clone)]
pub enum Q {
    Typed(BackgroundQueue<TestE>),
    Boxed(BoxEntrySink),
    /// `build::<BoxEntry>`: the typed queue of boxed entries, used directly
    TypedBox(BackgroundQueue<metrique_writer_core::BoxEntry>),
    /// a `BoxEntrySink` boxed once more (what `attach` does with the output of `build_boxed`),
    /// driven through the blanket `impl EntrySink<E> for T: AnyEntrySink`
    ReBoxed(BoxEntrySink),
}
impl Q {
    pub fn append(&self, e: TestE) {
        match self {
            Q::Typed(q) => q.append(e),
            Q::Boxed(q) => q.append_any(e),
            Q::TypedBox(q) => q.append(metrique_writer_core::BoxEntry::new(e)),
            Q::ReBoxed(q) => EntrySink::<TestE>::append(q, e),
        }
    }
    pub fn flush_async(&self) -> FlushWait {
        match self {
            Q::Typed(q) => EntrySink::<TestE>::flush_async(q),
            Q::Boxed(q) => AnyEntrySink::flush_async(q),
            Q::TypedBox(q) => EntrySink::<metrique_writer_core::BoxEntry>::flush_async(q),
            Q::ReBoxed(q) => EntrySink::<TestE>::flush_async(q),
        }
    }
}

/// the ways a user can come by a background queue (beyond typed / `build_boxed`): kind 0 = as
/// `boxed` says; 1 = `build::<BoxEntry>`; 2 = boxed twice + blanket EntrySink impl; 3 =
/// `BackgroundQueue::new` (all builder defaults: capacity 64 Ki, flush every second); 4 = with a
/// local metrics recorder and a metric name; 5 = builder without thread name, with shutdown_timeout
pub fn build_queue_kind(
    kind: u8,
    capacity: usize,
    boxed: bool,
    flush_interval: Duration,
    stream: BqStream,
) -> (Q, BackgroundQueueJoinHandle) {
    match kind % 6 {
        1 => {
            let (q, h) = BackgroundQueueBuilder::new()
                .capacity(capacity)
                .flush_interval(flush_interval)
                .thread_name("vq")
                .build::<metrique_writer_core::BoxEntry>(stream);
            (Q::TypedBox(q), h)
        }
        2 => {
            let (q, h) = BackgroundQueueBuilder::new()
                .capacity(capacity)
                .flush_interval(flush_interval)
                .thread_name("vq")
                .build_boxed(stream);
            (Q::ReBoxed(BoxEntrySink::new(q)), h)
        }
        3 if capacity <= 60_000 => {
            let (q, h) = BackgroundQueue::<TestE>::new(stream);
            (Q::Typed(q), h)
        }
        4 => {
            let rec = Arc::new(metrics_util_020::debugging::DebuggingRecorder::new());
            let b = BackgroundQueueBuilder::new()
                .capacity(capacity)
                .flush_interval(flush_interval)
                .metric_name("vq")
                .metrics_recorder_local::<dyn metrics_024::Recorder, _>(rec);
            if boxed {
                let (q, h) = b.build_boxed(stream);
                (Q::Boxed(q), h)
            } else {
                let (q, h) = b.build::<TestE>(stream);
                (Q::Typed(q), h)
            }
        }
        5 => {
            let b = BackgroundQueueBuilder::new()
                .shutdown_timeout(Duration::from_secs(25))
                .flush_interval(flush_interval)
                .capacity(capacity);
            if boxed {
                let (q, h) = b.build_boxed(stream);
                (Q::Boxed(q), h)
            } else {
                let (q, h) = b.build::<TestE>(stream);
                (Q::Typed(q), h)
            }
        }
        _ => build_queue(capacity, boxed, flush_interval, stream),
    }
}

pub fn build_queue(
    capacity: usize,
    boxed: bool,
    flush_interval: Duration,
    stream: BqStream,
) -> (Q, BackgroundQueueJoinHandle) {
    let b = BackgroundQueueBuilder::new()
        .capacity(capacity)
        .flush_interval(flush_interval)
        .thread_name("vq");
    if boxed {
        let (q, h) = b.build_boxed(stream);
        (Q::Boxed(q), h)
    } else {
        let (q, h) = b.build::<TestE>(stream);
        (Q::Typed(q), h)
    }
}

#[derive(Clone, Copy, Debug, PartialEq, Serialize, Deserialize)]
pub enum POp {
    Append,
    Burst(u8),
    /// request a flush and keep the future (awaited at the end of the producer)
    FlushFire,
    /// request a flush and wait for it
    FlushAwait,
    Yield(u8),
    /// continue through a fresh clone of the handle
    CloneHandle,
}

#[derive(Clone, Copy, Debug, PartialEq, Serialize, Deserialize)]
pub enum GStep {
    Grant(u8),
    Pause(u8),
    WaitBlocked,
}

#[derive(Clone, Debug, Serialize, Deserialize)]
pub struct Case {
    pub boxed: bool,
    pub flush_us: u32,
    pub producers: Vec<Vec<POp>>,
    pub results: Vec<SRes>,
    pub gate: Vec<GStep>,
    pub jitter: Vec<u8>,
    pub gated: bool,
    /// the gate stays shut until shut_down() has begun: the shutdown-time drain meets a backlog
    /// (with whatever per-entry results the script holds); awaited flushes become fire-and-forget
    /// and are awaited after the shutdown
    #[serde(default)]
    pub backlog_at_shutdown: bool,
    /// end through the writer's "no appenders left" exit instead of shut_down(): the join handle
    /// is forgotten, then the last queue handle is dropped
    #[serde(default)]
    pub end_by_forget: bool,
    /// results of successive stream.flush() calls (true = Ok); empty = always Ok
    #[serde(default)]
    pub flush_results: Vec<bool>,
    /// the result and flush scripts repeat for the whole run instead of covering only its start
    #[serde(default)]
    pub cycle_scripts: bool,
    /// results the stream gives the queue's own in-band report entries (Ok or Io)
    #[serde(default)]
    pub report_results: Vec<SRes>,
    /// queue capacity == number of entries appended (it can become exactly full, never overflow)
    #[serde(default)]
    pub exact_capacity: bool,
    /// how the queue is built and addressed (see `build_queue_kind`); 0 = typed / build_boxed
    #[serde(default)]
    pub qkind: u8,
}

pub fn flush_interval(us: u32) -> Duration {
    Duration::from_micros(us.max(1) as u64)
}

pub fn check(case: &Case) -> CaseResult {
    let total: usize = case
        .producers
        .iter()
        .map(|p| {
            p.iter()
                .map(|o| match o {
                    POp::Append => 1usize,
                    POp::Burst(n) => *n as usize,
                    _ => 0,
                })
                .sum::<usize>()
        })
        .sum();
    let log = Arc::new(EventLog::default());
    let backlog = case.backlog_at_shutdown;
    let gate = Gate::new(!(case.gated || backlog));
    let mut stream = BqStream::new(case.results.clone(), gate.clone(), log.clone());
    stream.jitter = case.jitter.clone();
    stream.flush_ok = case.flush_results.clone();
    stream.cycle = case.cycle_scripts;
    stream.report_results = case.report_results.clone();
    // capacity >= total appends: no overflow by construction
    let capacity = if case.exact_capacity { total.max(1) } else { total.max(1) + 1 };
    let (q, handle) = build_queue_kind(case.qkind, capacity, case.boxed, flush_interval(case.flush_us), stream);
    let flush_counter = std::sync::atomic::AtomicU32::new(0);
    let reports_before = REPORTS_SEEN.load(std::sync::atomic::Ordering::Relaxed);
    let res: Result<Vec<(u32, FlushWait)>, Fail> = std::thread::scope(|s| {
        let mut hs = vec![];
        for (pi, ops) in case.producers.iter().enumerate() {
            let q = q.clone();
            let log = log.clone();
            let fc = &flush_counter;
            hs.push(s.spawn(move || -> Result<Vec<(u32, FlushWait)>, Fail> {
                let mut q = q;
                let mut seq = 0u32;
                let mut pending: Vec<(u32, FlushWait)> = vec![];
                let mut do_append = |q: &Q, seq: &mut u32| {
                    let id = Id { p: pi as u32, s: *seq };
                    *seq += 1;
                    log.push(Ev::AppendStart(id));
                    q.append(TestE(id));
                    log.push(Ev::AppendEnd(id));
                };
                for op in ops {
                    match op {
                        POp::Append => do_append(&q, &mut seq),
                        POp::Burst(n) => {
                            for _ in 0..*n {
                                do_append(&q, &mut seq);
                            }
                        }
                        POp::FlushFire => {
                            let i = fc.fetch_add(1, std::sync::atomic::Ordering::SeqCst);
                            log.push(Ev::FlushReq(i));
                            pending.push((i, q.flush_async()));
                        }
                        POp::FlushAwait if backlog => {
                            let i = fc.fetch_add(1, std::sync::atomic::Ordering::SeqCst);
                            log.push(Ev::FlushReq(i));
                            pending.push((i, q.flush_async()));
                        }
                        POp::FlushAwait => {
                            let i = fc.fetch_add(1, std::sync::atomic::Ordering::SeqCst);
                            log.push(Ev::FlushReq(i));
                            let f = q.flush_async();
                            if block_on_timeout(f, Duration::from_secs(40)).is_none() {
                                return Err(Fail::new("inconclusive:flush-timeout", "flush did not complete in 40 s"));
                            }
                            log.push(Ev::FlushDone(i));
                        }
                        POp::Yield(k) => jitter(*k),
                        POp::CloneHandle => q = q.clone(),
                    }
                }
                if backlog {
                    return Ok(pending);
                }
                for (i, f) in pending {
                    if block_on_timeout(f, Duration::from_secs(40)).is_none() {
                        return Err(Fail::new("inconclusive:flush-timeout", "flush did not complete in 40 s"));
                    }
                    log.push(Ev::FlushDone(i));
                }
                Ok(vec![])
            }));
        }
        // controller: gate script, then open
        for g in &case.gate {
            match g {
                GStep::Grant(n) => gate.grant(*n as u64),
                GStep::Pause(k) => jitter(*k),
                GStep::WaitBlocked => {
                    gate.wait_blocked(Duration::from_millis(2));
                }
            }
        }
        if !backlog {
            gate.open();
        }
        let mut r = Ok(vec![]);
        for h in hs {
            match h.join() {
                Ok(Ok(mut p)) => {
                    if let Ok(all) = &mut r {
                        all.append(&mut p);
                    }
                }
                Ok(Err(f)) => r = Err(f),
                Err(_) => r = Err(Fail::new("panic:producer", format!("producer panicked: {:?}", take_last_panic()))),
            }
        }
        r
    });
    let mut q = Some(q);
    if !case.end_by_forget {
        drop(q.take());
    }
    let queued_at_shutdown = backlog && (gate.consumed() as usize) < total;
    let opener = backlog.then(|| {
        let gate = gate.clone();
        let log = log.clone();
        let delay = case.jitter.first().copied().unwrap_or(0);
        std::thread::spawn(move || {
            let t0 = std::time::Instant::now();
            while log.count(|e| matches!(e, Ev::HandleDropStart)) == 0 && t0.elapsed() < Duration::from_secs(5) {
                std::thread::yield_now();
            }
            jitter(delay);
            gate.open();
        })
    });
    log.push(Ev::HandleDropStart);
    let sd = if case.end_by_forget {
        let r = no_panic("queue-forget", || {
            handle.forget();
            drop(q.take());
        });
        // the writer notices that no appender is left, drains, flushes and closes on its own
        let t0 = std::time::Instant::now();
        let mut closed = false;
        while t0.elapsed() < Duration::from_secs(10) {
            if log.count(|e| matches!(e, Ev::StreamDropped)) > 0 {
                closed = true;
                break;
            }
            std::thread::sleep(Duration::from_micros(200));
        }
        if let Some(o) = opener {
            let _ = o.join();
        }
        r?;
        if !closed {
            // whether a forgotten queue terminates at all is C05's question
            return Ok(vec!["inconclusive-timeout"]);
        }
        Ok(())
    } else {
        let r = no_panic("queue-shutdown", || handle.shut_down());
        if let Some(o) = opener {
            let _ = o.join();
        }
        r
    };
    sd?;
    log.push(Ev::HandleDropEnd);
    let pending = match res {
        Ok(p) => p,
        Err(f) => {
            if f.sig.starts_with("inconclusive") {
                return Ok(vec!["inconclusive-timeout"]);
            }
            return Err(f);
        }
    };
    for (i, f) in pending {
        if block_on_timeout(f, Duration::from_secs(40)).is_none() {
            vfail!("queue:flush-never-completes-after-shutdown", "flush {i} requested before shut_down() never completed");
        }
        log.push(Ev::FlushDone(i));
    }
    if gate.timed_out.load(std::sync::atomic::Ordering::Relaxed) {
        return Ok(vec!["inconclusive-timeout"]);
    }
    let evs = log.snapshot();
    evaluate_delivery(&evs, &case.producers, total, reports_before)?;
    // C04 barrier clause is checked here too (cheap, same log)
    super::c04::check_flush_barrier(&evs, usize::MAX)?;
    let mut classes: Classes = vec![];
    let busy = case
        .producers
        .iter()
        .filter(|p| {
            p.iter()
                .map(|o| match o {
                    POp::Append => 1usize,
                    POp::Burst(n) => *n as usize,
                    _ => 0,
                })
                .sum::<usize>()
                >= 2
        })
        .count();
    let non_ok = evs.iter().any(|e| matches!(e, Ev::Next(_, r) if *r != SRes::Ok));
    let flushes = evs.iter().any(|e| matches!(e, Ev::FlushReq(_)));
    if non_ok {
        classes.push("non-ok-result");
    }
    if flushes {
        classes.push("flush-request");
    }
    if evs.iter().any(|e| matches!(e, Ev::NextReport(_))) {
        classes.push("in-band-error-report");
    }
    if case.boxed {
        classes.push("boxed-queue");
    } else {
        classes.push("typed-queue");
    }
    classes.push(match case.qkind % 6 {
        1 => "queue-of-box-entry",
        2 => "reboxed-sink-through-blanket-entrysink",
        3 => "background-queue-new-defaults",
        4 => "queue-with-metrics-recorder",
        5 => "builder-default-thread-name-shutdown-timeout",
        _ => "plain-builder",
    });
    if case.gated {
        classes.push("gated-writer");
    }
    if case.exact_capacity && total >= 2 {
        classes.push("capacity-equals-entries-appended");
    }
    if case.cycle_scripts && total > 40 && !case.results.is_empty() {
        classes.push("non-ok-results-throughout-a-long-run");
    }
    if !case.flush_results.is_empty() && case.flush_results.iter().any(|b| !*b) {
        classes.push("stream-flush-errors");
    }
    if case.end_by_forget {
        classes.push("ended-by-forget-and-last-handle-drop");
        if queued_at_shutdown {
            classes.push("backlog-when-last-handle-dropped");
        }
    }
    if queued_at_shutdown {
        classes.push("backlog-at-shutdown");
        if evs.iter().any(|e| matches!(e, Ev::Next(_, r) if *r == SRes::Io)) {
            classes.push("io-result-inside-shutdown-backlog");
        }
    }
    if busy >= 2 && (non_ok || flushes) {
        classes.push("nt");
    }
    Ok(classes)
}

/// exactly-once + per-producer order + only the rate-limited report as extra
pub fn evaluate_delivery(evs: &[Ev], producers: &[Vec<POp>], total: usize, reports_before: u64) -> Result<(), Fail> {
    let mut seen: BTreeMap<Id, usize> = BTreeMap::new();
    let mut last_seq: BTreeMap<u32, i64> = BTreeMap::new();
    let mut validation_so_far = 0usize;
    let mut reports = 0usize;
    let mut dropped = false;
    let mut flush_after_last_next = false;
    for e in evs {
        match e {
            Ev::Next(id, r) => {
                vensure!(!dropped, "queue:next-after-drop", "stream used after it was dropped");
                *seen.entry(*id).or_insert(0) += 1;
                let l = last_seq.entry(id.p).or_insert(-1);
                vensure!(
                    (id.s as i64) > *l,
                    "queue:per-producer-order",
                    "producer {} entries reached the stream out of order: seq {} after {}",
                    id.p,
                    id.s,
                    l
                );
                *l = id.s as i64;
                if *r == SRes::Validation {
                    validation_so_far += 1;
                }
                flush_after_last_next = false;
            }
            Ev::NextReport(_) => {
                reports += 1;
                vensure!(
                    validation_so_far >= 1,
                    "queue:report-without-validation-error",
                    "in-band error report written although no validation error had occurred"
                );
            }
            Ev::NextOther => vfail!("queue:foreign-entry", "an entry that was never appended reached the stream"),
            Ev::StreamFlush => flush_after_last_next = true,
            Ev::StreamDropped => dropped = true,
            _ => {}
        }
    }
    for (pi, ops) in producers.iter().enumerate() {
        let n: usize = ops
            .iter()
            .map(|o| match o {
                POp::Append => 1usize,
                POp::Burst(n) => *n as usize,
                _ => 0,
            })
            .sum();
        for s in 0..n {
            let id = Id { p: pi as u32, s: s as u32 };
            let c = seen.get(&id).copied().unwrap_or(0);
            vensure!(
                c == 1,
                if c == 0 { "queue:entry-lost" } else { "queue:entry-duplicated" },
                "entry {id:?} reached the stream {c} times (appended once, no overflow, clean shutdown)"
            );
        }
    }
    vensure!(
        seen.len() == total,
        "queue:foreign-entry",
        "{} distinct entries reached the stream, {total} were appended",
        seen.len()
    );
    vensure!(reports <= validation_so_far, "queue:too-many-reports", "{reports} reports for {validation_so_far} validation errors");
    // process-wide rate limit: at most one report per second
    let all = REPORTS_SEEN.load(std::sync::atomic::Ordering::Relaxed);
    let secs = process_start().elapsed().as_secs();
    vensure!(
        all <= secs + 2,
        "queue:report-not-rate-limited",
        "{all} in-band reports in {secs} s of process time (rate limit is one per second); {} in this case",
        all - reports_before
    );
    vensure!(dropped, "queue:stream-not-dropped", "shutdown returned but the stream was not dropped");
    vensure!(
        total == 0 || flush_after_last_next,
        "queue:no-flush-after-last-entry",
        "shutdown returned without a stream flush after the last entry"
    );
    Ok(())
}

pub fn arb_pop() -> impl Strategy<Value = POp> {
    prop_oneof![
        6 => Just(POp::Append),
        3 => (1u8..20).prop_map(POp::Burst),
        1 => Just(POp::FlushFire),
        1 => Just(POp::FlushAwait),
        2 => any::<u8>().prop_map(POp::Yield),
        1 => Just(POp::CloneHandle),
    ]
}

pub fn arb_case(max_producers: usize, max_ops: usize) -> impl Strategy<Value = Case> {
    (
        any::<bool>(),
        prop::sample::select(vec![1u32, 1, 1000, 50_000]),
        prop::collection::vec(prop::collection::vec(arb_pop(), 0..max_ops), 1..=max_producers),
        prop::collection::vec(arb_sres(), 0..40),
        prop::collection::vec(
            prop_oneof![
                4 => (0u8..12).prop_map(GStep::Grant),
                3 => any::<u8>().prop_map(GStep::Pause),
                2 => Just(GStep::WaitBlocked),
            ],
            0..20,
        ),
        prop::collection::vec(any::<u8>(), 0..8),
        prop::bool::weighted(0.7),
        prop::bool::weighted(0.25),
        prop::bool::weighted(0.25),
        (
            prop::collection::vec(prop::bool::weighted(0.7), 0..6),
            prop::bool::weighted(0.4),
            prop::collection::vec(prop_oneof![3 => Just(SRes::Ok), 2 => Just(SRes::Io), 1 => Just(SRes::Validation)], 0..3),
            prop::bool::weighted(0.3),
            prop_oneof![5 => Just(0u8), 5 => 1u8..6],
        ),
    )
        .prop_map(|(boxed, flush_us, producers, results, gate, jitter, gated, backlog_at_shutdown, end_by_forget, (flush_results, cycle_scripts, report_results, exact_capacity, qkind))| Case {
            boxed,
            flush_us,
            producers,
            results,
            gate,
            jitter,
            gated,
            backlog_at_shutdown,
            end_by_forget,
            flush_results,
            cycle_scripts,
            report_results,
            exact_capacity,
            qkind,
        })
}


// ---------------------------------------------------------------------------------------------
// "nothing else reaches the stream" once a tracing subscriber exists: the global default
// subscriber cannot be removed again, so every history runs in its own child process
// (vcheck C01 --child <boxed>,<valid entries per phase>,<late>,<second queue>)

struct CountingSubscriber(Arc<std::sync::atomic::AtomicUsize>);
impl tracing::Subscriber for CountingSubscriber {
    fn enabled(&self, _m: &tracing::Metadata<'_>) -> bool {
        true
    }
    fn new_span(&self, _s: &tracing::span::Attributes<'_>) -> tracing::span::Id {
        tracing::span::Id::from_u64(1)
    }
    fn record(&self, _s: &tracing::span::Id, _v: &tracing::span::Record<'_>) {}
    fn record_follows_from(&self, _s: &tracing::span::Id, _f: &tracing::span::Id) {}
    fn event(&self, event: &tracing::Event<'_>) {
        if *event.metadata().level() == tracing::Level::ERROR {
            self.0.fetch_add(1, std::sync::atomic::Ordering::SeqCst);
        }
    }
    fn enter(&self, _s: &tracing::span::Id) {}
    fn exit(&self, _s: &tracing::span::Id) {}
}

pub fn child_subscriber(arg: &str) -> i32 {
    let f: Vec<u32> = arg.split(',').map(|x| x.parse().unwrap_or(0)).collect();
    if f.len() != 4 {
        return 2;
    }
    let (boxed, k, late, second) = (f[0] == 1, f[1], f[2] == 1, f[3] == 1);
    let errors = Arc::new(std::sync::atomic::AtomicUsize::new(0));
    let install = |errors: &Arc<std::sync::atomic::AtomicUsize>| {
        tracing::subscriber::set_global_default(CountingSubscriber(errors.clone())).is_ok()
    };
    if !late && !install(&errors) {
        println!("CHILD-INCONCLUSIVE a global subscriber already exists");
        return 2;
    }
    let log = Arc::new(EventLog::default());
    // phase script per queue: k valid entries, one Validation, k valid entries, ...
    let phase = |n: u32| -> Vec<SRes> {
        let mut v = vec![];
        for _ in 0..n {
            v.extend(std::iter::repeat(SRes::Ok).take(k as usize));
            v.push(SRes::Validation);
        }
        v.extend(std::iter::repeat(SRes::Ok).take(k as usize));
        v
    };
    let script = phase(2);
    let total = script.len() as u32;
    let stream = BqStream::new(script.clone(), Gate::new(true), log.clone());
    let (q, h) = build_queue(64, boxed, Duration::from_millis(5), stream);
    let wait = |q: &Q| block_on_timeout(q.flush_async(), Duration::from_secs(20)).is_some();
    let half = k + 1;
    for s in 0..half {
        q.append(TestE(Id { p: 0, s }));
    }
    if !wait(&q) {
        println!("CHILD-INCONCLUSIVE flush timed out");
        return 2;
    }
    let reports_phase1 = log.count(|e| matches!(e, Ev::NextReport(_)));
    if !late && reports_phase1 != 0 {
        println!("CHILD-FAIL subscriber installed before the queue was built, validation error written in-band: {:?}", log.snapshot());
        return 1;
    }
    if late {
        if reports_phase1 > 1 {
            println!("CHILD-FAIL {reports_phase1} in-band reports for one validation error");
            return 1;
        }
        if !install(&errors) {
            println!("CHILD-INCONCLUSIVE a global subscriber already exists");
            return 2;
        }
    }
    log.push(Ev::Note("subscriber-installed"));
    // the report is rate limited to one per second, process-wide: let the limit expire so that the
    // second validation error is reported again (to wherever reports go)
    std::thread::sleep(Duration::from_millis(1150));
    let before = errors.load(std::sync::atomic::Ordering::SeqCst);
    // optionally through a queue that is built after the subscriber exists, too
    let (q2, h2, log2) = if second {
        let log2 = Arc::new(EventLog::default());
        let (q2, h2) = build_queue(64, !boxed, Duration::from_millis(5), BqStream::new(phase(1), Gate::new(true), log2.clone()));
        (Some(q2), Some(h2), Some(log2))
    } else {
        (None, None, None)
    };
    for s in half..total {
        q.append(TestE(Id { p: 0, s }));
    }
    if !wait(&q) {
        println!("CHILD-INCONCLUSIVE flush timed out");
        return 2;
    }
    if let Some(q2) = &q2 {
        std::thread::sleep(Duration::from_millis(1150));
        for s in 0..(2 * k + 1) {
            q2.append(TestE(Id { p: 1, s }));
        }
        if !wait(q2) {
            println!("CHILD-INCONCLUSIVE flush timed out");
            return 2;
        }
    }
    drop(q);
    h.shut_down();
    drop(q2);
    if let Some(h2) = h2 {
        h2.shut_down();
    }
    let evs = log.snapshot();
    let marker = evs.iter().position(|e| matches!(e, Ev::Note("subscriber-installed"))).unwrap();
    let late_reports = evs[marker..].iter().filter(|e| matches!(e, Ev::NextReport(_))).count();
    if late_reports != 0 {
        println!("CHILD-FAIL {late_reports} in-band report entr(y/ies) reached the stream although a tracing subscriber was installed (boxed={boxed} late={late}); tail of the log: {:?}", &evs[marker..]);
        return 1;
    }
    let ids: Vec<u32> = evs.iter().filter_map(|e| if let Ev::Next(id, _) = e { Some(id.s) } else { None }).collect();
    if ids != (0..total).collect::<Vec<_>>() {
        println!("CHILD-FAIL entries seen by the stream {ids:?}, appended 0..{total}");
        return 1;
    }
    if let Some(l2) = &log2 {
        let e2 = l2.snapshot();
        if e2.iter().any(|e| matches!(e, Ev::NextReport(_))) {
            println!("CHILD-FAIL in-band report on a queue built after the subscriber was installed: {e2:?}");
            return 1;
        }
        let ids: Vec<u32> = e2.iter().filter_map(|e| if let Ev::Next(id, _) = e { Some(id.s) } else { None }).collect();
        if ids != (0..2 * k + 1).collect::<Vec<_>>() {
            println!("CHILD-FAIL second queue: entries seen by the stream {ids:?}");
            return 1;
        }
    }
    let got = errors.load(std::sync::atomic::Ordering::SeqCst) - before;
    println!("CHILD-OK reports_before_subscriber={reports_phase1} error_events_after={got}");
    0
}

fn subscriber_children(ctx: &mut Ctx) {
    let mut t = Tally::new(
        "c01-subscriber-child-process",
        "a global tracing subscriber cannot be uninstalled: each history runs in a child process (vcheck C01 --child boxed,k,late,second). Typed or boxed queue; k valid entries then one Validation result, flushed; the subscriber is installed either before the queue is built or only now (late: the first validation error may have produced one in-band report); after the 1 s report rate limit has expired k more entries, another Validation result, k more; optionally a second queue of the other flavour built after the subscriber exists gets the same. Oracle: after the subscriber is installed no in-band report entry reaches any stream, every appended entry reaches its stream exactly once in order. Non-trivial = late installation or a second queue",
    );
    let n_children = ctx.tier.pick(4, 24);
    let exe = crate::engine::self_exe();
    let mut failure = None;
    let mut handles = vec![];
    for i in 0..n_children {
        let w = ctx.seed.wrapping_mul(0x9E37_79B9_7F4A_7C15).rotate_left(i as u32 * 7) ^ (i as u64);
        // the first four cover every (boxed, late) combination
        let boxed = i % 2;
        let late = (i / 2 + 1) % 2;
        let k = (w >> 8) % 6;
        let second = if i < 4 { (i == 1 || i == 2) as u64 } else { (w >> 16) % 2 };
        let arg = format!("{boxed},{k},{late},{second}");
        let exe = exe.clone();
        handles.push((arg.clone(), late == 1 || second == 1, std::thread::spawn(move || std::process::Command::new(&exe).args(["C01", "--child", &arg]).output())));
    }
    for (arg, nt, h) in handles {
        match h.join().unwrap() {
            Ok(o) => {
                let s = String::from_utf8_lossy(&o.stdout).to_string();
                if s.contains("CHILD-OK") {
                    let tags: &[&str] = if nt { &["nt"] } else { &[] };
                    t.record(hash_of(&arg), tags, || serde_json::json!({"boxed,k,late,second": arg, "child": s.trim()}));
                } else if s.contains("CHILD-FAIL") {
                    if failure.is_none() {
                        failure = Some((Fail::new("bq:in-band-report-with-subscriber", format!("child history {arg}: {s}")), arg.clone()));
                    }
                } else {
                    ctx.inconclusive.push(format!("child {arg}: {s} {}", String::from_utf8_lossy(&o.stderr)));
                }
            }
            Err(e) => {
                ctx.inconclusive.push(format!("cannot spawn child: {e}"));
            }
        }
    }
    ctx.push_custom(t.finish(&[]));
    if let Some((f, arg)) = failure {
        ctx.report_violation("c01-subscriber-child-process", f, serde_json::json!({"child": arg}), "child".into());
    }
}


/// entries appended while the writer is INSIDE a stream flush (one it performs for a flush
/// request, or a periodic one), with the end of the queue's life beginning before that flush
/// returns: shut_down() / drop of the join handle is called from another thread while the writer
/// is still held, so the shutdown signal is already set when the flush comes back. Everything was
/// appended before shut_down() was called - all of it has to reach the stream.
#[derive(Clone, Debug, Serialize, Deserialize)]
pub struct DuringFlushEndCase {
    pub boxed: bool,
    pub qkind: u8,
    /// entries before the flush request (written before the writer enters the flush)
    pub k1: u8,
    /// entries appended while the writer is held inside stream.flush()
    pub m: u8,
    pub long_interval: bool,
    /// 0 shut_down(), 1 drop of the join handle
    pub end: u8,
    /// a flush request is outstanding (otherwise the held flush is the periodic one)
    pub request: bool,
    /// stream answers (cyclic; empty = Ok)
    pub results: Vec<SRes>,
}

pub fn check_during_flush_end(case: &DuringFlushEndCase) -> CaseResult {
    let log = Arc::new(EventLog::default());
    let gate = Gate::new(true);
    let mut stream = BqStream::new(case.results.clone(), gate.clone(), log.clone());
    stream.cycle = true;
    let hold = Arc::new(FlushHold::default());
    stream.flush_hold = Some(hold.clone());
    let k1 = case.k1 as usize;
    let m = case.m.max(1) as usize;
    let cap = k1 + m + 2;
    // without a request only a periodic flush can be the held one
    let long_interval = case.long_interval && case.request;
    let interval = if long_interval { Duration::from_secs(30) } else { Duration::from_millis(1) };
    let qkind = [0u8, 1, 2, 4, 5][case.qkind as usize % 5];
    let (q, handle) = build_queue_kind(qkind, cap, case.boxed, interval, stream);
    let reports_before = REPORTS_SEEN.load(std::sync::atomic::Ordering::Relaxed);
    let mut seq = 0u32;
    let mut append = |n: usize| {
        for _ in 0..n {
            let id = Id { p: 0, s: seq };
            seq += 1;
            log.push(Ev::AppendStart(id));
            q.append(TestE(id));
            log.push(Ev::AppendEnd(id));
        }
    };
    append(k1);
    hold.arm();
    let f1 = if case.request { Some(q.flush_async()) } else { None };
    if !hold.wait_in_flush(Duration::from_secs(5)) {
        hold.release();
        drop(f1);
        let _ = no_panic("queue-shutdown", || handle.shut_down());
        return Ok(vec!["inconclusive-timeout"]);
    }
    append(m);
    log.push(Ev::Note("end-of-life begins while the writer is inside stream.flush()"));
    let ender = {
        let end = case.end % 2;
        std::thread::spawn(move || no_panic("queue-shutdown", || if end == 0 { handle.shut_down() } else { drop(handle) }))
    };
    // shut_down() / the handle's drop raise the signal first thing; give them time to get there
    std::thread::sleep(Duration::from_millis(3));
    hold.release();
    let t0 = std::time::Instant::now();
    while !ender.is_finished() {
        if t0.elapsed() > Duration::from_secs(20) {
            return Ok(vec!["inconclusive-timeout"]);
        }
        std::thread::sleep(Duration::from_micros(200));
    }
    ender.join().map_err(|_| Fail::new("panic:queue-shutdown", "the ending thread panicked"))??;
    drop(f1);
    drop(q);
    let evs = log.snapshot();
    evaluate_delivery(&evs, &[vec![POp::Burst((k1 + m) as u8)]], k1 + m, reports_before)?;
    let mut classes: Classes = vec!["nt", "appended-while-writer-inside-stream-flush-then-shutdown"];
    classes.push(if case.request { "held-flush-serves-a-request" } else { "held-flush-is-periodic" });
    classes.push(if case.end % 2 == 0 { "ended-by-shut-down" } else { "ended-by-handle-drop" });
    Ok(classes)
}

pub const RULE: &str = "1-6 real producer threads x 0-25 ops (append, bursts, flush requests fired or awaited, yields/spins/sleeps, continuing through a clone) on a typed or boxed queue (also: build::<BoxEntry>, a BoxEntrySink boxed again and driven through the blanket EntrySink impl, BackgroundQueue::new with all defaults, a queue with a local metrics recorder and metric name, a builder with shutdown_timeout and no thread name) with capacity > total appends; the library's own writer thread; per-call stream results Ok/Validation/Io for entries (optionally repeating for the whole run), Ok/Io/Validation for the in-band report, Ok/error for stream.flush(); capacity = entries appended + 1 or exactly the entries appended; writer progress owned by a generated fuel script (grants, pauses, wait-until-parked-at-the-gate) so that park/unpark races and drained-then-refilled queues occur; flush interval 1us / 1ms / 50ms; in a quarter of the cases the gate stays shut until shut_down() has begun, so that the shutdown-time drain meets a backlog with Io / Validation results inside it; no tracing subscriber (in-band report path live). a quarter of the cases end through forget() + drop of the last handle (the writer's own 'no appenders left' exit) instead of shut_down(). Oracle over the global event log after the end: every appended (producer, seq) reaches the stream exactly once, per-producer seq increasing, nothing else except the in-band report (only after a validation error, process-wide <= 1/s), stream flushed after the last entry and dropped. Non-trivial = >=2 producers with >=2 entries each and (a non-Ok result or a flush request)";

pub fn run(ctx: &mut Ctx) {
    ctx.assume("thread interleavings are sampled (perturbed by generated yields/spins/sleeps in producers and in the stream callbacks and by the fuel script), not enumerated");
    ctx.assume("the in-band error report is rate limited by a process-wide static: its count is bounded over the whole process (<= 1 + seconds)");
    process_start();
    let q = ctx.tier == Tier::Quick;
    ctx.explore(
        SubCfg::new("c01-delivery", RULE, if q { 1_500 } else { 40_000 })
            .threads(ctx.tier.pick(4, 8))
            .shrink_iters(200)
            .mandatory(&["non-ok-result", "flush-request", "boxed-queue", "typed-queue", "gated-writer", "backlog-at-shutdown", "io-result-inside-shutdown-backlog", "backlog-when-last-handle-dropped", "capacity-equals-entries-appended", "stream-flush-errors", "queue-of-box-entry", "reboxed-sink-through-blanket-entrysink", "background-queue-new-defaults", "queue-with-metrics-recorder"]),
        || arb_case(6, 25),
        check,
    );
    // stress: few large cases
    ctx.explore(
        SubCfg::new(
            "c01-stress",
            "same as c01-delivery with 6 producers x up to 120 ops (thousands of entries per case), ungated writer racing the producers",
            if q { 40 } else { 1_500 },
        )
        .threads(2)
        .shrink_iters(60),
        || {
            arb_case(6, 120).prop_map(|mut c| {
                c.gated = false;
                c.backlog_at_shutdown = false;
                c
            })
        },
        check,
    );
    ctx.explore(
        SubCfg::new(
            "c01-append-during-flush-then-shutdown",
            "queue (typed / boxed, five kinds, flush interval 1 ms or 30 s) whose writer is held INSIDE stream.flush() - the flush it performs for an outstanding flush request after draining 0-20 entries, or a periodic one - while 1-30 further entries are appended and then shut_down() / the drop of the join handle is started on another thread, so that the shutdown signal is set when the held flush returns; stream answers Ok or a generated cycle of Ok / Validation / Io. Oracle: c01-delivery's - every entry (all were appended before the end began) reaches the stream exactly once, in order. Non-trivial = every case",
            if q { 300 } else { 6_000 },
        )
        .threads(ctx.tier.pick(8, 16))
        .shrink_iters(40)
        .mandatory(&["held-flush-serves-a-request", "held-flush-is-periodic", "ended-by-shut-down", "ended-by-handle-drop"]),
        || {
            (
                any::<bool>(),
                any::<u8>(),
                0u8..20,
                1u8..30,
                any::<bool>(),
                0u8..2,
                prop::bool::weighted(0.7),
                prop_oneof![3 => Just(vec![]), 1 => prop::collection::vec(arb_sres(), 1..5)],
            )
                .prop_map(|(boxed, qkind, k1, m, long_interval, end, request, results)| DuringFlushEndCase {
                    boxed,
                    qkind,
                    k1,
                    m,
                    long_interval,
                    end,
                    request,
                    results,
                })
        },
        check_during_flush_end,
    );
    subscriber_children(ctx);
}
