//! C16 — partial writes and I/O errors never tear, duplicate or stall metric output.

use crate::emfgen::arb_valid;
use crate::emfh::*;
use crate::engine::*;
use crate::iofault::*;
use crate::model::*;
use crate::{vensure, vfail};
use metrique_writer::format::FormatExt;
use metrique_writer::sink::FlushImmediately;
use metrique_writer::stream::EntryIoStreamExt;
use metrique_writer_core::format::Format;
use metrique_writer_core::{AnyEntrySink, Entry, EntryIoStream, EntrySink, IoStreamError};
use proptest::prelude::*;
use serde::{Deserialize, Serialize};
use std::collections::BTreeMap;
use std::io;
use std::sync::{Arc, Mutex};

#[derive(Clone, Debug, Serialize, Deserialize)]
pub struct FmtCase {
    pub cfg: EmfCfg,
    pub entry: GenEntry,
    pub script: WScript,
}

fn ref_lines(cfg: &EmfCfg, entry: &GenEntry) -> Result<Option<Vec<Vec<u8>>>, Fail> {
    let mut out = vec![];
    let mut emf = no_panic("emf-build", || cfg.build())?;
    let p = entry.prepare();
    match no_panic("emf-format-ref", || emf.format(&p, &mut out))? {
        Ok(()) => {}
        Err(_) => return Ok(None),
    }
    let mut lines = vec![];
    for l in out.split_inclusive(|b| *b == b'\n') {
        lines.push(l.to_vec());
    }
    Ok(Some(lines))
}

/// `received` must be: complete reference lines (each at most as often as in the reference) plus,
/// iff `allow_partial`, a proper prefix of one remaining reference line.
fn check_received(
    received: &[u8],
    reference: &[Vec<u8>],
    complete_required: bool,
) -> Result<(usize, usize), String> {
    let mut remaining: BTreeMap<&[u8], usize> = BTreeMap::new();
    for l in reference {
        *remaining.entry(l.as_slice()).or_insert(0) += 1;
    }
    let mut complete = 0;
    let mut rest = received;
    while let Some(nl) = rest.iter().position(|b| *b == b'\n') {
        let line = &rest[..=nl];
        match remaining.get_mut(line) {
            Some(n) if *n > 0 => {
                *n -= 1;
                complete += 1;
            }
            _ => {
                return Err(format!(
                    "received a line that is not a (remaining) reference record: {:?}",
                    String::from_utf8_lossy(line)
                ));
            }
        }
        rest = &rest[nl + 1..];
    }
    let left: usize = remaining.values().sum();
    if complete_required {
        if !rest.is_empty() {
            return Err(format!(
                "trailing partial line after a successful write: {:?}",
                String::from_utf8_lossy(rest)
            ));
        }
        if left != 0 {
            return Err(format!("{left} reference record(s) never arrived"));
        }
    } else if !rest.is_empty()
        && !remaining
            .iter()
            .any(|(l, n)| *n > 0 && l.len() > rest.len() && l.starts_with(rest))
    {
        return Err(format!(
            "bytes after the last complete line are not a prefix of a remaining reference record: {:?}",
            String::from_utf8_lossy(rest)
        ));
    }
    Ok((complete, rest.len()))
}

pub fn check_fmt(case: &FmtCase) -> CaseResult {
    let Some(reference) = ref_lines(&case.cfg, &case.entry)? else {
        return Ok(vec!["entry-not-accepted"]);
    };
    let w = ScriptedWriter::new(case.script.clone());
    let mut emf = no_panic("emf-build", || case.cfg.build())?;
    let p = case.entry.prepare();
    let mut wr = w.clone();
    let res = no_panic("emf-format-faulty-writer", || emf.format(&p, &mut wr))?;
    let calls = w.calls();
    let received = w.received();
    let fault = calls
        .iter()
        .position(|c| matches!(c.step, WStep::Zero | WStep::Hard(_)));
    let mut classes: Classes = vec![];
    match fault {
        None => {
            match &res {
                Ok(()) => {}
                Err(e) => vfail!(
                    "io:error-without-fault",
                    "writer never failed (only short writes / Interrupted) but format returned {e:?}"
                ),
            }
            if let Err(e) = check_received(&received, &reference, true) {
                vfail!("io:torn-or-duplicated-output", "{e}\ncalls={calls:?}");
            }
            classes.push("no-fault");
        }
        Some(fi) => {
            let expected_kind = match calls[fi].step {
                WStep::Zero => io::ErrorKind::WriteZero,
                WStep::Hard(k) => hard_kind(k),
                _ => unreachable!(),
            };
            match &res {
                Err(IoStreamError::Io(e)) => vensure!(
                    e.kind() == expected_kind,
                    "io:wrong-error-kind",
                    "expected io error kind {expected_kind:?}, got {:?}",
                    e.kind()
                ),
                other => vfail!(
                    "io:fault-not-surfaced",
                    "writer failed at call {fi} ({:?}) but format returned {other:?}",
                    calls[fi].step
                ),
            }
            vensure!(
                fi == calls.len() - 1,
                "io:write-after-error",
                "formatter kept writing after a hard error: calls={calls:?}"
            );
            match check_received(&received, &reference, false) {
                Ok((complete, _)) => {
                    if complete >= 1 && reference.len() >= 2 {
                        classes.push("error-after-complete-line");
                        classes.push("nt");
                    }
                }
                Err(e) => vfail!("io:torn-or-duplicated-output", "{e}\ncalls={calls:?}"),
            }
            classes.push("fault");
        }
    }
    // a write_vectored call must never offer zero bytes
    vensure!(
        w.state.lock().unwrap().empty_write_calls == 0,
        "io:empty-write-call",
        "write called with no bytes"
    );
    for (i, c) in calls.iter().enumerate() {
        let total: usize = c.offered.iter().sum();
        if c.offered.len() >= 2 && c.accepted > c.offered[0] && c.accepted < total {
            classes.push("short-write-inside-later-slice");
            classes.push("nt");
        }
        if c.step == WStep::Interrupted {
            classes.push("interrupted");
            // the retry must offer exactly the same bytes
            if let Some(n) = calls.get(i + 1) {
                vensure!(
                    n.offered == c.offered,
                    "io:interrupted-not-retried-identically",
                    "after Interrupted the next call offered {:?}, before {:?}",
                    n.offered,
                    c.offered
                );
            }
        }
    }
    if reference.len() >= 2 {
        classes.push("multi-line");
    }
    if !case.cfg.extra_namespaces.is_empty() {
        classes.push("multi-namespace");
    }
    classes.sort();
    classes.dedup();
    Ok(classes)
}

// ---------------------------------------------------------------------------------------------
// exhaustive k sweep

fn exhaustive_k(ctx: &mut Ctx) {
    let mut t = Tally::new(
        "c16-exhaustive-accept-k",
        "for sampled valid entries (single, multi-namespace, split into several lines): EVERY k in 1..total as first short write, every k as constant chunk size, and Interrupted / Ok(0) / hard error at EVERY call index; same oracle as c16-fmt. Non-trivial = k that ends inside a later slice, or fault at call index >= 1",
    );
    let n_entries = ctx.tier.pick(40, 600);
    let cases = sample_strategy(&arb_valid(true), mix_seed(ctx.seed, "exhaustive-k", 0), n_entries);
    let mut failure: Option<(FmtCase, Fail)> = None;
    'outer: for (cfg, entry) in cases {
        let Ok(Some(reference)) = ref_lines(&cfg, &entry) else {
            continue;
        };
        let total: usize = reference.iter().map(|l| l.len()).sum();
        if total > ctx.tier.pick(1500, 6000) {
            continue;
        }
        let mut scripts: Vec<WScript> = vec![];
        for k in 1..total as u32 {
            scripts.push(WScript {
                steps: vec![WStep::AcceptK(k)],
                then: WStep::AcceptAll,
                flushes: vec![],
            });
            if k <= 64 || k % 7 == 0 {
                scripts.push(WScript {
                    steps: vec![],
                    then: WStep::AcceptK(k),
                    flushes: vec![],
                });
            }
        }
        for at in 0..(reference.len() * 3 + 2) {
            for f in [WStep::Interrupted, WStep::Zero, WStep::Hard(at as u8)] {
                let mut steps = vec![WStep::AcceptK(17); at];
                steps.push(f);
                scripts.push(WScript {
                    steps,
                    then: WStep::AcceptK(23),
                    flushes: vec![],
                });
            }
        }
        for script in scripts {
            let case = FmtCase {
                cfg: cfg.clone(),
                entry: entry.clone(),
                script,
            };
            match check_fmt(&case) {
                Ok(classes) => {
                    let key = hash_dbg(&case);
                    t.record(key, &classes, || serde_json::to_value(&case).unwrap());
                }
                Err(f) => {
                    failure = Some((case, f));
                    break 'outer;
                }
            }
        }
    }
    t.note = Some("exhaustive over k and fault position for each sampled entry; entries are sampled".into());
    ctx.push_custom(t.finish(&[]));
    if let Some((case, f)) = failure {
        let v = serde_json::to_value(&case).unwrap();
        // replayable through the c16-fmt sub-check
        ctx.report_violation("c16-fmt", f, v, format!("{case:?}"));
    }
}

// ---------------------------------------------------------------------------------------------
// sink level

/// stream wrapper that marks, per entry, which bytes arrived and what the result was
struct Marking<S> {
    inner: S,
    writer: ScriptedWriter,
    marks: Arc<Mutex<Vec<(usize, usize, &'static str)>>>,
}

impl<S: EntryIoStream> EntryIoStream for Marking<S> {
    fn next(&mut self, entry: &impl Entry) -> Result<(), IoStreamError> {
        let before = self.writer.state.lock().unwrap().received.len();
        let r = self.inner.next(entry);
        let after = self.writer.state.lock().unwrap().received.len();
        self.marks.lock().unwrap().push((
            before,
            after,
            match &r {
                Ok(()) => "Ok",
                Err(IoStreamError::Validation(_)) => "Validation",
                Err(IoStreamError::Io(_)) => "Io",
            },
        ));
        r
    }
    fn flush(&mut self) -> io::Result<()> {
        self.inner.flush()
    }
}

#[derive(Clone, Copy, Debug, PartialEq, Serialize, Deserialize)]
pub enum SinkKind {
    Typed,
    Any,
    Boxed,
}

#[derive(Clone, Debug, Serialize, Deserialize)]
pub struct SinkFmtCase {
    pub cfg: EmfCfg,
    /// entries: valid ones and ones with an injected defect (validation failure)
    pub entries: Vec<GenEntry>,
    pub script: WScript,
    pub kind: SinkKind,
    /// how the formatter is bound to its output: false = output_to(writer), true =
    /// output_to_makewriter(|| writer) (a fresh writer handle per entry, flush is a no-op)
    #[serde(default)]
    pub makewriter: bool,
}

pub fn check_sink_fmt(case: &SinkFmtCase) -> CaseResult {
    if case.makewriter {
        let w = ScriptedWriter::new(case.script.clone());
        let emf = no_panic("emf-build", || case.cfg.build())?;
        let maker = {
            let w = w.clone();
            move || w.clone()
        };
        check_sink_fmt_over(case, w, emf.output_to_makewriter(maker), false).map(|mut c| {
            c.push("bound-through-makewriter");
            c
        })
    } else {
        let w = ScriptedWriter::new(case.script.clone());
        let emf = no_panic("emf-build", || case.cfg.build())?;
        check_sink_fmt_over(case, w.clone(), emf.output_to(w), true)
    }
}

fn check_sink_fmt_over<S: EntryIoStream + Send + Sync + 'static>(case: &SinkFmtCase, w: ScriptedWriter, inner: S, writer_flushed: bool) -> CaseResult {
    let marks = Arc::new(Mutex::new(vec![]));
    let stream = Marking {
        inner,
        writer: w.clone(),
        marks: marks.clone(),
    };
    let entries: Vec<OwnedPrepared> = case
        .entries
        .iter()
        .map(|e| OwnedPrepared::new(e.clone()))
        .collect();
    no_panic("sink-append", || match case.kind {
        SinkKind::Typed => {
            let sink = FlushImmediately::<OwnedPrepared, _>::new(stream);
            for e in entries {
                sink.append(e);
            }
        }
        SinkKind::Any => {
            let sink = metrique_writer::sink::AnyFlushImmediately::new(stream);
            for e in entries {
                sink.append_any(e);
            }
        }
        SinkKind::Boxed => {
            let sink = FlushImmediately::new_boxed(stream);
            for e in entries {
                sink.append(e.boxed());
            }
        }
    })?;
    let marks = marks.lock().unwrap().clone();
    vensure!(
        marks.len() == case.entries.len(),
        "sink:entry-not-handed-to-stream-exactly-once",
        "{} entries appended, stream saw {}",
        case.entries.len(),
        marks.len()
    );
    let received = w.received();
    let calls = w.calls();
    let flushes = w.state.lock().unwrap().flush_calls;
    vensure!(
        flushes == case.entries.len() || !writer_flushed,
        "sink:flush-count",
        "FlushImmediately must flush after every entry: {} entries, {} flushes",
        case.entries.len(),
        flushes
    );
    let mut classes: Classes = vec![];
    let mut saw_failure = false;
    let mut ok_after_failure = false;
    for (i, e) in case.entries.iter().enumerate() {
        let (b, a, res) = marks[i];
        let bytes = &received[b..a];
        let reference = ref_lines(&case.cfg, e)?;
        match (reference, res) {
            (None, "Validation") => {
                vensure!(bytes.is_empty(), "validation-error-wrote-bytes", "entry {i}: rejected but wrote bytes");
                saw_failure = true;
                classes.push("validation-failure");
            }
            (None, other) => vfail!(
                "sink:decision-depends-on-history",
                "entry {i} is rejected by a fresh formatter but the sink's formatter returned {other}"
            ),
            (Some(r), "Ok") => {
                if let Err(m) = check_received(bytes, &r, true) {
                    vfail!("io:torn-or-duplicated-output", "entry {i}: {m}");
                }
                if saw_failure {
                    ok_after_failure = true;
                }
            }
            (Some(r), "Io") => {
                if let Err(m) = check_received(bytes, &r, false) {
                    vfail!("io:torn-or-duplicated-output", "entry {i} (io failed): {m}");
                }
                saw_failure = true;
                classes.push("io-failure");
            }
            (Some(_), other) => vfail!(
                "sink:decision-depends-on-history",
                "entry {i} is accepted by a fresh formatter but the sink's formatter returned {other}"
            ),
        }
    }
    // Io results must correspond to writer faults and vice versa
    let faults = calls
        .iter()
        .filter(|c| matches!(c.step, WStep::Zero | WStep::Hard(_)))
        .count();
    let ios = marks.iter().filter(|m| m.2 == "Io").count();
    vensure!(
        faults == ios,
        "io:fault-not-surfaced",
        "{faults} writer faults but {ios} entries reported Io"
    );
    if ok_after_failure {
        classes.push("ok-after-failure");
        classes.push("nt");
    }
    classes.push(match case.kind {
        SinkKind::Typed => "sink-typed",
        SinkKind::Any => "sink-any",
        SinkKind::Boxed => "sink-boxed",
    });
    classes.sort();
    classes.dedup();
    Ok(classes)
}

#[derive(Clone, Debug, Serialize, Deserialize)]
pub struct TeeCase {
    pub n: usize,
    pub r1: Vec<SRes>,
    pub r2: Vec<SRes>,
    pub f1: Vec<bool>,
    pub f2: Vec<bool>,
    pub kind: SinkKind,
    pub nested: bool,
}

fn id_entry(i: usize) -> GenEntry {
    GenEntry {
        ops: vec![Op::Value {
            name: "id".into(),
            val: Val::Metric {
                obs: vec![Obs::U(i as u64)],
                unit: UnitG(0),
                dims: vec![],
                flags: FlagG::None,
            },
        }],
        sample_group: vec![],
    }
}

fn ids_of(log: &StreamLog) -> Vec<u64> {
    log.nexts
        .iter()
        .map(|(r, _)| match r.recs.first() {
            Some(crate::reclog::Rec::Value {
                val: crate::reclog::RecVal::Metric { obs, .. },
                ..
            }) => match obs.first() {
                Some(Obs::U(u)) => *u,
                _ => u64::MAX,
            },
            _ => u64::MAX,
        })
        .collect()
}

pub fn check_tee(case: &TeeCase) -> CaseResult {
    let (s1, l1) = ScriptedStream::new(case.r1.clone(), case.f1.clone());
    let (s2, l2) = ScriptedStream::new(case.r2.clone(), case.f2.clone());
    let (s3, l3) = ScriptedStream::new(case.r2.iter().rev().cloned().collect(), vec![]);
    let entries: Vec<OwnedPrepared> = (0..case.n).map(|i| OwnedPrepared::new(id_entry(i))).collect();
    macro_rules! drive {
        ($stream:expr) => {
            no_panic("sink-append", || match case.kind {
                SinkKind::Typed => {
                    let sink = FlushImmediately::<OwnedPrepared, _>::new($stream);
                    for e in entries {
                        sink.append(e);
                    }
                }
                SinkKind::Any => {
                    let sink = metrique_writer::sink::AnyFlushImmediately::new($stream);
                    for e in entries {
                        sink.append_any(e);
                    }
                }
                SinkKind::Boxed => {
                    let sink = FlushImmediately::new_boxed($stream);
                    for e in entries {
                        sink.append(e.boxed());
                    }
                }
            })?
        };
    }
    if case.nested {
        drive!(s1.tee(s2.tee(s3)));
    } else {
        drop(s3);
        drive!(s1.tee(s2));
    }
    let expected: Vec<u64> = (0..case.n as u64).collect();
    let mut logs = vec![("first", l1), ("second", l2)];
    if case.nested {
        logs.push(("third", l3));
    }
    for (name, l) in &logs {
        let l = l.lock().unwrap();
        vensure!(
            ids_of(&l) == expected,
            "tee:branch-missed-or-repeated-entry",
            "{name} tee branch saw {:?}, expected every entry once in order {:?}",
            ids_of(&l),
            expected
        );
        vensure!(
            l.flushes == case.n,
            "tee:branch-flush-count",
            "{name} tee branch flushed {} times for {} entries",
            l.flushes,
            case.n
        );
        vensure!(l.dropped, "tee:stream-not-dropped", "{name} branch stream not dropped with the sink");
    }
    let mut classes: Classes = vec![];
    let first_fails = case.r1.iter().take(case.n).any(|r| *r != SRes::Ok);
    if first_fails && case.n >= 2 {
        classes.push("first-branch-fails");
        classes.push("nt");
    }
    if case.nested {
        classes.push("nested-tee");
    }
    Ok(classes)
}

pub const RULE_FMT: &str = "valid entry (1 line, multi-namespace, k split lines) x writer script (AcceptAll / AcceptK / Interrupted / Ok(0) / hard error per write_vectored call, then-behaviour, flush results). Oracle: no fault => Ok and bytes received == multiset of reference lines (fresh formatter, perfect writer) each once and complete; fault => Io with the fault's kind, no write after it, bytes = complete reference lines + proper prefix of one further line; Interrupted retried with identical slices; never an empty write. Non-trivial = short write ending inside the 2nd+ slice of a vectored write, or an error after >=1 complete line of a multi-line entry";

pub fn run(ctx: &mut Ctx) {
    ctx.assume("line order of one entry's records is unspecified (multiset comparison against the reference lines)");
    ctx.assume("a hard error may leave a prefix of one record behind; that tears the framing of the following bytes by nature and is not counted against the next entry (per-entry byte ranges are marked by a harness-owned stream wrapper)");
    let q = ctx.tier == Tier::Quick;
    let threads = ctx.tier.pick(8, 16);
    ctx.explore(
        SubCfg::new("c16-fmt", RULE_FMT, if q { 40_000 } else { 800_000 })
            .threads(threads)
            .mandatory(&[
                "short-write-inside-later-slice",
                "error-after-complete-line",
                "interrupted",
                "multi-line",
                "fault",
                "no-fault",
            ]),
        || {
            (arb_valid(true), arb_wscript()).prop_map(|((cfg, entry), script)| FmtCase {
                cfg,
                entry,
                script,
            })
        },
        check_fmt,
    );
    if ctx.replay.is_none() {
        exhaustive_k(ctx);
    }
    ctx.explore(
        SubCfg::new(
            "c16-sink-format",
            "sequence of 1-8 entries (valid ones and ones with an injected validation defect) through FlushImmediately / AnyFlushImmediately / boxed sink over Emf.output_to(scripted writer); per-entry byte ranges marked by a stream wrapper. Oracle: every entry handed to the stream exactly once; per entry Ok => its reference lines, Io => complete lines + prefix, Validation => nothing; decisions equal a fresh formatter's; one flush per entry; number of Io results == number of writer faults; append never panics. Non-trivial = an accepted entry written completely after an earlier entry failed",
            if q { 8_000 } else { 200_000 },
        )
        .threads(threads)
        .mandatory(&["ok-after-failure", "io-failure", "validation-failure", "sink-typed", "sink-any", "sink-boxed", "bound-through-makewriter"]),
        || {
            (
                arb_valid(true),
                prop::collection::vec((arb_valid(true), prop::option::weighted(0.3, (crate::emfgen::arb_defect(), any::<u32>(), any::<u32>()))), 1..8),
                arb_wscript(),
                prop::sample::select(vec![SinkKind::Typed, SinkKind::Any, SinkKind::Boxed]),
            )
                .prop_map(|((cfg, first), more, script, kind)| {
                    // all entries share one configuration; entries generated for other
                    // configurations are still well-formed call sequences (they may or may not be
                    // accepted: the oracle asks a fresh formatter)
                    let mut entries = vec![first];
                    for ((_c, e), d) in more {
                        let e2 = match d {
                            Some((d, s, p)) => crate::emfgen::inject(&cfg, &e, d, s, p).unwrap_or(e),
                            None => e,
                        };
                        entries.push(e2);
                    }
                    let makewriter = entries.len() % 3 == 0;
                    SinkFmtCase {
                        cfg,
                        entries,
                        script,
                        kind,
                        makewriter,
                    }
                })
        },
        check_sink_fmt,
    );
    // the BackgroundQueue half of the sink clause: the C01 driver (real writer thread, per-entry
    // stream results, fuel gate) with its exactly-once oracle, reported under this property
    ctx.explore(
        SubCfg::new(
            "c16-background-queue",
            "BackgroundQueue over a scripted stream with per-entry results Ok / Validation / Io, failing stream flushes and Io results for the queue's own in-band report (the driver and oracle of C01: 1-3 producer threads x 0-12 ops, fuel-gated writer, shutdown with or without a backlog). Oracle: every appended entry is handed to the stream exactly once whatever the results of the others (no retry after an Io error, nothing skipped), the stream is flushed after the last entry and dropped, append never panics. Non-trivial as in c01-delivery",
            if q { 600 } else { 15_000 },
        )
        .threads(ctx.tier.pick(4, 8))
        .shrink_iters(100)
        .mandatory(&["non-ok-result", "stream-flush-errors"]),
        || super::c01::arb_case(3, 12),
        super::c01::check,
    );
    ctx.explore(
        SubCfg::new(
            "c16-tee",
            "0-12 entries through an immediate-flush sink (typed/any/boxed) over tee(s1, s2) or tee(s1, tee(s2, s3)) of scripted streams with generated per-entry results (Ok/Validation/Io) and flush results. Oracle: every branch sees every entry exactly once, in order, and one flush per entry, whatever the other branches return; streams dropped with the sink; no panic. Non-trivial = first branch fails for some entry and >=2 entries",
            if q { 20_000 } else { 400_000 },
        )
        .threads(threads)
        .mandatory(&["first-branch-fails", "nested-tee"]),
        || {
            (
                0usize..12,
                prop::collection::vec(arb_sres(), 0..12),
                prop::collection::vec(arb_sres(), 0..12),
                prop::collection::vec(any::<bool>(), 0..12),
                prop::collection::vec(any::<bool>(), 0..12),
                prop::sample::select(vec![SinkKind::Typed, SinkKind::Any, SinkKind::Boxed]),
                any::<bool>(),
            )
                .prop_map(|(n, r1, r2, f1, f2, kind, nested)| TeeCase {
                    n,
                    r1,
                    r2,
                    f1,
                    f2,
                    kind,
                    nested,
                })
        },
        check_tee,
    );
}
