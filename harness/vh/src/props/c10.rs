//! C10 — aggregation conserves inputs: each merged entry is in exactly one aggregate.

use crate::engine::*;
use crate::model::Obs;
use crate::reclog::*;
use crate::{vensure, vfail};
use metrique::unit_of_work::metrics;
use metrique_aggregation::aggregate;
use metrique_aggregation::aggregator::{Aggregate, KeyedAggregator};
use metrique_aggregation::histogram::{Histogram, SortAndMerge};
use metrique_aggregation::sink::{MutexSink, TeeSink, WorkerSink, non_aggregate};
use metrique_aggregation::traits::{AggregateSink, AggregateStrategy, FlushableSink, Key, RootSink};
use metrique_aggregation::value::{Distribution, KeepLast, Sum};
use metrique_core::CloseValue;
use metrique_writer_core::sink::FlushWait;
use metrique_writer_core::{Entry, EntrySink};
use proptest::prelude::*;
use serde::{Deserialize, Serialize};
use std::borrow::Cow;
use std::collections::BTreeMap;
use std::sync::atomic::{AtomicU64, Ordering};
use std::sync::{Arc, Mutex};
use std::time::Duration;

#[aggregate(ref)]
#[metrics]
pub struct Item {
    #[aggregate(key)]
    word: String,
    #[aggregate(key)]
    n: u8,
    #[aggregate(strategy = Sum)]
    total: u64,
    #[aggregate(strategy = KeepLast)]
    last: u32,
    #[aggregate(strategy = Histogram<Duration, SortAndMerge>)]
    lat: Duration,
    #[aggregate(strategy = Distribution)]
    dist: u64,
}

/// keyless variant for embedded aggregation
#[aggregate]
#[metrics]
pub struct Sub {
    #[aggregate(strategy = Sum)]
    total: u64,
    #[aggregate(strategy = KeepLast)]
    last: u32,
    #[aggregate(strategy = Distribution)]
    dist: u64,
}

#[metrics]
pub struct ParentEntry {
    id: u64,
    #[metrics(flatten)]
    subs: Aggregate<Sub>,
}

/// custom key strategy over the same source: Cow key whose Hash deliberately collides
/// (hash = length of the word) so that `static_key_matches` decides between hash-equal
/// borrowed/owned keys
pub struct ByWord;
#[derive(Clone, PartialEq, Eq)]
#[metrics]
pub struct WordKey<'a> {
    word: Cow<'a, String>,
}
impl std::hash::Hash for WordKey<'_> {
    fn hash<H: std::hash::Hasher>(&self, h: &mut H) {
        h.write_usize(self.word.len());
    }
}
pub struct WordKeyExtractor;
impl Key<ItemEntry> for WordKeyExtractor {
    type Key<'a> = WordKey<'a>;
    fn from_source(source: &ItemEntry) -> Self::Key<'_> {
        #[allow(deprecated)]
        WordKey {
            word: Cow::Borrowed(&source.word),
        }
    }
    fn static_key<'a>(key: &Self::Key<'a>) -> Self::Key<'static> {
        WordKey {
            word: Cow::Owned(key.word.clone().into_owned()),
        }
    }
    fn static_key_matches<'a>(owned: &Self::Key<'static>, borrowed: &Self::Key<'a>) -> bool {
        owned == borrowed
    }
}
impl AggregateStrategy for ByWord {
    type Source = ItemEntry;
    type Key = WordKeyExtractor;
}

// ---------------------------------------------------------------------------------------------
// generated inputs

pub const WORDS: [&str; 5] = ["a", "b", "cc", "dd", "eee"];

#[derive(Clone, Debug, PartialEq, Serialize, Deserialize)]
pub struct In {
    pub word: u8,
    pub n: u8,
    pub total: u32,
    pub last: u32,
    pub lat_ms: u16,
    pub dist: u16,
}
/// words 0-4 are the five fixed ones; larger indexes give up to 250 further distinct keys (hash
/// table growth, long collision chains in the tee branch whose hash is the word length)
fn word_of(w: u8) -> String {
    if w < 5 { WORDS[w as usize].to_string() } else { format!("k{w}") }
}

impl In {
    fn item(&self) -> Item {
        Item {
            word: word_of(self.word),
            n: self.n % 3,
            total: self.total as u64,
            last: self.last,
            lat: Duration::from_millis(self.lat_ms as u64),
            dist: self.dist as u64,
        }
    }
    fn key(&self) -> (String, u8) {
        (word_of(self.word), self.n % 3)
    }
}

#[derive(Clone, Debug, PartialEq, Serialize, Deserialize)]
pub enum Step {
    Input(In),
    Flush,
    /// create a merge-on-drop guard (dropped later by DropGuard or at the end)
    Guard(In),
    DropGuard(u8),
}

#[derive(Clone, Copy, Debug, PartialEq, Serialize, Deserialize)]
pub enum SinkKind {
    Keyed,
    Worker,
    Tee,
}

#[derive(Clone, Debug, Serialize, Deserialize)]
pub struct Case {
    pub kind: SinkKind,
    pub steps: Vec<Step>,
    pub producers: u8,
}

// ---------------------------------------------------------------------------------------------
// collecting output sink

#[derive(Clone, Debug, Default, PartialEq)]
pub struct Agg {
    pub word: Option<String>,
    pub n: Option<u64>,
    pub total: Option<u64>,
    pub last: Option<u64>,
    pub lat: Vec<(f64, u64)>,
    pub dist: Vec<(f64, u64)>,
    pub id: Option<u64>,
}

fn decode(e: &impl Entry) -> Agg {
    let mut a = Agg::default();
    for r in record(e).recs {
        if let Rec::Value { name, val } = r {
            match val {
                RecVal::Str(s) if name == "word" => a.word = Some(s),
                RecVal::Metric { obs, .. } => {
                    let one = obs.first().and_then(|o| match o {
                        Obs::U(u) => Some(*u),
                        Obs::Fl(f) => Some(f.0 as u64),
                        _ => None,
                    });
                    let rep: Vec<(f64, u64)> = obs
                        .iter()
                        .map(|o| match o {
                            Obs::Rep { total, occ } => (total.0 / *occ as f64, *occ),
                            Obs::U(u) => (*u as f64, 1),
                            Obs::Fl(f) => (f.0, 1),
                        })
                        .collect();
                    match name.as_str() {
                        "n" => a.n = one,
                        "total" => a.total = one,
                        "last" => a.last = one,
                        "id" => a.id = one,
                        "lat" => a.lat = rep,
                        "dist" => a.dist = rep,
                        _ => {}
                    }
                }
                _ => {}
            }
        }
    }
    a
}

#[derive(Clone, Default)]
pub struct Collect {
    pub out: Arc<Mutex<Vec<(u64, Agg)>>>,
    pub epoch: Arc<AtomicU64>,
}
impl<E: Entry> EntrySink<E> for Collect {
    fn append(&self, entry: E) {
        let a = decode(&entry);
        self.out.lock().unwrap().push((self.epoch.load(Ordering::SeqCst), a));
    }
    fn flush_async(&self) -> FlushWait {
        FlushWait::ready()
    }
}

/// reference accumulator
#[derive(Clone, Debug, Default)]
struct Acc {
    total: u64,
    last: Option<u32>,
    lat: Vec<u64>,
    dist: Vec<u64>,
    count: usize,
}
impl Acc {
    fn add(&mut self, i: &In) {
        self.total += i.total as u64;
        self.last = Some(i.last);
        self.lat.push(i.lat_ms as u64);
        self.dist.push(i.dist as u64);
        self.count += 1;
    }
}

fn expand(v: &[(f64, u64)]) -> Vec<u64> {
    let mut out = vec![];
    for (x, c) in v {
        for _ in 0..*c {
            out.push(x.round() as u64);
        }
    }
    out.sort();
    out
}

fn compare(what: &str, got: &Agg, exp: &Acc, check_last: bool) -> Result<(), Fail> {
    vensure!(
        got.total == Some(exp.total),
        "agg:sum-wrong",
        "{what}: summed field {:?}, inputs sum to {}",
        got.total,
        exp.total
    );
    if check_last {
        vensure!(
            got.last == exp.last.map(|x| x as u64),
            "agg:keep-last-wrong",
            "{what}: keep-last field {:?}, last input {:?}",
            got.last,
            exp.last
        );
    }
    let mut l = exp.lat.clone();
    l.sort();
    vensure!(
        expand(&got.lat) == l,
        "agg:distribution-wrong",
        "{what}: histogram field holds {:?}, inputs {:?}",
        expand(&got.lat),
        l
    );
    let mut d = exp.dist.clone();
    d.sort();
    vensure!(
        expand(&got.dist) == d,
        "agg:distribution-wrong",
        "{what}: distribution field holds {:?}, inputs {:?}",
        expand(&got.dist),
        d
    );
    Ok(())
}

/// AggregateSink wrapper that lets guards target a plain `&mut` sink through a mutex
struct Shared<S>(Arc<Mutex<S>>);
impl<S> Clone for Shared<S> {
    fn clone(&self) -> Self {
        Shared(self.0.clone())
    }
}
impl<T, S: AggregateSink<T>> RootSink<T> for Shared<S> {
    fn merge(&self, entry: T) {
        self.0.lock().unwrap().merge(entry)
    }
}

pub fn check(case: &Case) -> CaseResult {
    match case.kind {
        SinkKind::Keyed => check_keyed(case, false),
        SinkKind::Tee => check_keyed(case, true),
        SinkKind::Worker => check_worker(case),
    }
}

/// sequential driver: KeyedAggregator (optionally inside a TeeSink with a colliding-hash
/// strategy and a non-aggregating branch)
fn check_keyed(case: &Case, tee: bool) -> CaseResult {
    let out_a = Collect::default();
    let out_b = Collect::default();
    let out_raw = Collect::default();
    let agg_a: KeyedAggregator<Item, Collect> = KeyedAggregator::new(out_a.clone());
    let agg_b: KeyedAggregator<ByWord, Collect> = KeyedAggregator::new(out_b.clone());
    enum S {
        Plain(Shared<KeyedAggregator<Item, Collect>>),
        Tee(Shared<TeeSink<KeyedAggregator<Item, Collect>, TeeSink<KeyedAggregator<ByWord, Collect>, metrique_aggregation::sink::NonAggregatedSink<Collect>>>>),
    }
    let sink = if tee {
        S::Tee(Shared(Arc::new(Mutex::new(TeeSink::new(
            agg_a,
            TeeSink::new(agg_b, non_aggregate(out_raw.clone())),
        )))))
    } else {
        S::Plain(Shared(Arc::new(Mutex::new(agg_a))))
    };
    let merge = |i: &In| match &sink {
        S::Plain(s) => s.merge(i.item().close()),
        S::Tee(s) => s.merge(i.item().close()),
    };
    let flush = || match &sink {
        S::Plain(s) => s.0.lock().unwrap().flush(),
        S::Tee(s) => s.0.lock().unwrap().flush(),
    };
    let mut epochs_a: Vec<BTreeMap<(String, u8), Acc>> = vec![BTreeMap::new()];
    let mut epochs_b: Vec<BTreeMap<String, Acc>> = vec![BTreeMap::new()];
    let mut raw_expected = 0usize;
    let mut guards: Vec<(In, Box<dyn std::any::Any>)> = vec![];
    let mut classes: Classes = vec![];
    let mut account = |i: &In, ea: &mut Vec<BTreeMap<(String, u8), Acc>>, eb: &mut Vec<BTreeMap<String, Acc>>, raw: &mut usize| {
        ea.last_mut().unwrap().entry(i.key()).or_default().add(i);
        eb.last_mut().unwrap().entry(i.key().0).or_default().add(i);
        *raw += 1;
    };
    for st in &case.steps {
        match st {
            Step::Input(i) => {
                no_panic("agg-merge", || merge(i))?;
                account(i, &mut epochs_a, &mut epochs_b, &mut raw_expected);
            }
            Step::Flush => {
                no_panic("agg-flush", flush)?;
                out_a.epoch.fetch_add(1, Ordering::SeqCst);
                out_b.epoch.fetch_add(1, Ordering::SeqCst);
                epochs_a.push(BTreeMap::new());
                epochs_b.push(BTreeMap::new());
            }
            Step::Guard(i) => {
                let g: Box<dyn std::any::Any> = match &sink {
                    S::Plain(s) => Box::new(i.item().close_and_merge(s.clone())),
                    S::Tee(s) => Box::new(i.item().close_and_merge(s.clone())),
                };
                guards.push((i.clone(), g));
                classes.push("merge-on-drop-guard");
            }
            Step::DropGuard(k) => {
                if !guards.is_empty() {
                    let (i, g) = guards.remove(*k as usize % guards.len());
                    no_panic("agg-guard-drop", || drop(g))?;
                    account(&i, &mut epochs_a, &mut epochs_b, &mut raw_expected);
                }
            }
        }
    }
    for (i, g) in guards.drain(..) {
        drop(g);
        account(&i, &mut epochs_a, &mut epochs_b, &mut raw_expected);
    }
    no_panic("agg-flush", flush)?;
    // evaluate: per epoch one aggregate per key with the right content
    let got_a = out_a.out.lock().unwrap().clone();
    for (ei, exp) in epochs_a.iter().enumerate() {
        let mine: Vec<&Agg> = got_a.iter().filter(|(e, _)| *e == ei as u64).map(|x| &x.1).collect();
        vensure!(
            mine.len() == exp.len(),
            "agg:aggregate-count",
            "flush {ei}: {} aggregates emitted for {} distinct keys ({:?})",
            mine.len(),
            exp.len(),
            exp.keys().collect::<Vec<_>>()
        );
        for (k, acc) in exp {
            let found: Vec<&&Agg> = mine
                .iter()
                .filter(|a| a.word.as_deref() == Some(k.0.as_str()) && a.n == Some(k.1 as u64))
                .collect();
            vensure!(
                found.len() == 1,
                "agg:key-not-exactly-once",
                "flush {ei}: key {k:?} emitted {} times",
                found.len()
            );
            compare(&format!("flush {ei} key {k:?}"), found[0], acc, true)?;
        }
    }
    if tee {
        let got_b = out_b.out.lock().unwrap().clone();
        for (ei, exp) in epochs_b.iter().enumerate() {
            let mine: Vec<&Agg> = got_b.iter().filter(|(e, _)| *e == ei as u64).map(|x| &x.1).collect();
            vensure!(
                mine.len() == exp.len(),
                "agg:aggregate-count",
                "tee branch (colliding-hash key) flush {ei}: {} aggregates for {} distinct words",
                mine.len(),
                exp.len()
            );
            for (k, acc) in exp {
                let found: Vec<&&Agg> = mine.iter().filter(|a| a.word.as_deref() == Some(k.as_str())).collect();
                vensure!(
                    found.len() == 1,
                    "agg:key-not-exactly-once",
                    "tee branch flush {ei}: word {k:?} emitted {} times (hash-equal keys must be told apart by static_key_matches)",
                    found.len()
                );
                compare(&format!("tee branch flush {ei} word {k:?}"), found[0], acc, true)?;
            }
        }
        let raw = out_raw.out.lock().unwrap().len();
        vensure!(
            raw == raw_expected,
            "agg:tee-branch-missed-entry",
            "non-aggregating tee branch saw {raw} entries, {raw_expected} were merged"
        );
        classes.push("tee");
        if epochs_b.iter().any(|e| {
            let lens: Vec<usize> = e.keys().map(|k| k.len()).collect();
            let mut d = lens.clone();
            d.sort();
            d.dedup();
            d.len() < lens.len()
        }) {
            classes.push("hash-collision-between-keys");
        }
    }
    let shared_key = epochs_a.iter().any(|e| e.values().any(|a| a.count >= 2));
    let keys: usize = epochs_a.iter().map(|e| e.len()).max().unwrap_or(0);
    if shared_key && epochs_a.len() >= 3 && keys >= 2 {
        classes.push("nt");
    }
    classes.sort();
    classes.dedup();
    Ok(classes)
}

/// probe around the worker's inner sink: counts flush() calls and notices its own drop
struct Probe<I> {
    /// while set, merge() waits: the worker thread is stalled with its queue filling up
    hold: Option<Arc<std::sync::atomic::AtomicBool>>,
    inner: I,
    flushes: Arc<AtomicU64>,
    dropped: Arc<AtomicU64>,
    /// the collecting sink's epoch counter: advanced after every real flush of the inner sink, so
    /// that "one aggregate per key per flush" is judged per flush the worker actually performed
    /// (periodic ones included)
    epoch: Arc<AtomicU64>,
}
impl<T, I: AggregateSink<T>> AggregateSink<T> for Probe<I> {
    fn merge(&mut self, entry: T) {
        if let Some(h) = &self.hold {
            while h.load(Ordering::SeqCst) {
                std::thread::sleep(Duration::from_micros(100));
            }
        }
        self.inner.merge(entry)
    }
}
impl<I: FlushableSink> FlushableSink for Probe<I> {
    fn flush(&mut self) {
        self.flushes.fetch_add(1, Ordering::SeqCst);
        self.inner.flush();
        self.epoch.fetch_add(1, Ordering::SeqCst);
    }
}
impl<I> Drop for Probe<I> {
    fn drop(&mut self) {
        self.dropped.store(1, Ordering::SeqCst);
    }
}

fn check_worker(case: &Case) -> CaseResult {
    let out = Collect::default();
    let flushes = Arc::new(AtomicU64::new(0));
    let dropped = Arc::new(AtomicU64::new(0));
    let inner = Probe {
        hold: None,
        inner: KeyedAggregator::<Item, Collect>::new(out.clone()),
        flushes: flushes.clone(),
        dropped: dropped.clone(),
        epoch: out.epoch.clone(),
    };
    // no periodic flush during the case (only explicit flushes and the final one) in 5 of 8
    // cases - spelled as 1 h, or as "never": Duration::MAX / u64::MAX seconds, which no Instant
    // can be advanced by; otherwise the worker's own periodic flush is live: zero, 100 us or 2 ms
    let interval = match (case.producers / 4) % 8 {
        0..=2 => Duration::from_secs(3600),
        3 => Duration::MAX,
        4 => Duration::from_secs(u64::MAX),
        5 => Duration::ZERO,
        6 => Duration::from_micros(100),
        _ => Duration::from_millis(2),
    };
    let sink: WorkerSink<ItemEntry, _> = WorkerSink::new(inner, interval);
    let periodic = interval < Duration::from_secs(1);
    let never = interval > Duration::from_secs(1 << 40);
    let np = (case.producers % 4 + 1) as usize;
    // split the steps into segments at Flush; inside a segment inputs are spread over producers
    let mut all: BTreeMap<(String, u8), Acc> = BTreeMap::new();
    let mut classes: Classes = vec![];
    let mut segment: Vec<In> = vec![];
    let mut n_flush = 0;
    let mut pending_guards: Vec<In> = vec![];
    let run_segment = |seg: &Vec<In>, sink: &WorkerSink<ItemEntry, Probe<KeyedAggregator<Item, Collect>>>| {
        if np == 1 {
            for i in seg {
                sink.send(i.item().close());
            }
        } else {
            std::thread::scope(|s| {
                for t in 0..np {
                    let sink = sink.clone();
                    s.spawn(move || {
                        for (k, i) in seg.iter().enumerate() {
                            if k % np == t {
                                sink.send(i.item().close());
                            }
                        }
                    });
                }
            });
        }
    };
    // one producer, no periodic flush: the order in which the worker merges is fully determined
    // (guards dropped during a segment are sent at once, the segment's inputs at its flush), so
    // keep-last can be judged per flush: the aggregate of a key carries the LAST value sent for it
    let ordered = np == 1 && !periodic;
    let mut seg_guard_last: BTreeMap<(String, u8), u32> = BTreeMap::new();
    for st in &case.steps {
        match st {
            Step::Input(i) => {
                segment.push(i.clone());
                all.entry(i.key()).or_default().add(i);
            }
            Step::Guard(i) => pending_guards.push(i.clone()),
            Step::DropGuard(_) => {
                if let Some(i) = pending_guards.pop() {
                    drop(i.item().close_and_merge(sink.clone()));
                    // a guard dropped by this thread before the flush below must be in it
                    all.entry(i.key()).or_default().add(&i);
                    seg_guard_last.insert(i.key(), i.last);
                    classes.push("merge-on-drop-guard");
                }
            }
            Step::Flush => {
                run_segment(&segment, &sink);
                let mut seg_last = std::mem::take(&mut seg_guard_last);
                for i in &segment {
                    seg_last.insert(i.key(), i.last);
                }
                segment.clear();
                let before: usize = out.out.lock().unwrap().len();
                let f = sink.flush();
                if crate::bq::block_on_timeout(f, Duration::from_secs(20)).is_none() {
                    return Ok(vec!["inconclusive-timeout"]);
                }
                n_flush += 1;
                if ordered {
                    let got = out.out.lock().unwrap().clone();
                    for (k, want) in &seg_last {
                        // aggregates emitted by this flush carry epoch n_flush - 1
                        let mine: Vec<&Agg> = got
                            .iter()
                            .filter(|(e, a)| *e == n_flush as u64 - 1 && a.word.as_deref() == Some(k.0.as_str()) && a.n == Some(k.1 as u64))
                            .map(|x| &x.1)
                            .collect();
                        vensure!(
                            mine.len() == 1 && mine[0].last == Some(*want as u64),
                            "agg:keep-last-wrong",
                            "worker, one producer, flush {}: key {k:?} - the last value sent was {want}, the emitted aggregate(s) carry {:?}",
                            n_flush - 1,
                            mine.iter().map(|a| a.last).collect::<Vec<_>>()
                        );
                    }
                    classes.push("worker-keep-last-checked");
                }
                // barrier: everything merged before the flush (all producers joined) is emitted
                let emitted: u64 = out
                    .out
                    .lock()
                    .unwrap()
                    .iter()
                    .map(|(_, a)| expand(&a.lat).len() as u64)
                    .sum();
                let merged: u64 = all.values().map(|a| a.count as u64).sum();
                vensure!(
                    emitted == merged,
                    "agg:flush-not-a-barrier",
                    "flush().await returned: {merged} entries were merged before it, {emitted} are in emitted aggregates ({} aggregates before, {} now)",
                    before,
                    out.out.lock().unwrap().len()
                );
            }
        }
    }
    run_segment(&segment, &sink);
    // dropping the last handle: the worker emits what it holds and terminates. The flush counter is
    // read AFTER the drop returned: with a live periodic flush (zero / 100 us interval) a correct
    // worker flushes continuously up to that point, and from then on at most a few more times
    // (its next receive reports the disconnect)
    drop(sink);
    let flushes_before_drop = flushes.load(Ordering::SeqCst);
    let t0 = std::time::Instant::now();
    loop {
        if dropped.load(Ordering::SeqCst) == 1 {
            break;
        }
        let extra = flushes.load(Ordering::SeqCst) - flushes_before_drop;
        if extra >= 1000 {
            vfail!(
                "agg:worker-spins-after-last-handle-dropped",
                "the last WorkerSink handle was dropped: the worker called flush() {extra} more times and is still running (it spins on the disconnected channel)"
            );
        }
        if t0.elapsed() > Duration::from_secs(10) {
            return Ok(vec!["inconclusive-timeout"]);
        }
        std::thread::sleep(Duration::from_micros(200));
    }
    // conservation over the union of all epochs
    let got = out.out.lock().unwrap().clone();
    let mut union: BTreeMap<(String, u8), (u64, Vec<u64>, Vec<u64>)> = BTreeMap::new();
    let mut per_epoch_keys: BTreeMap<(u64, String, u8), usize> = BTreeMap::new();
    for (e, a) in &got {
        let k = (a.word.clone().unwrap_or_default(), a.n.unwrap_or(255) as u8);
        *per_epoch_keys.entry((*e, k.0.clone(), k.1)).or_insert(0) += 1;
        let u = union.entry(k).or_default();
        u.0 += a.total.unwrap_or(0);
        u.1.extend(expand(&a.lat));
        u.2.extend(expand(&a.dist));
    }
    for ((e, w, n), c) in &per_epoch_keys {
        vensure!(*c == 1, "agg:key-not-exactly-once", "flush {e}: key ({w},{n}) emitted {c} times");
    }
    for (k, acc) in &all {
        let u = union.get(k).cloned().unwrap_or_default();
        let mut l = acc.lat.clone();
        l.sort();
        let mut ul = u.1.clone();
        ul.sort();
        vensure!(
            u.0 == acc.total && ul == l,
            if ul.len() < l.len() { "agg:input-lost" } else { "agg:input-double-counted" },
            "key {k:?}: over all flushes the aggregates sum to {} with {} observations, the inputs sum to {} with {}",
            u.0,
            ul.len(),
            acc.total,
            l.len()
        );
    }
    vensure!(union.len() == all.len(), "agg:foreign-key", "{} keys emitted, {} merged", union.len(), all.len());
    classes.push("worker");
    if never {
        classes.push("worker-flush-interval-never");
    }
    if periodic {
        classes.push("worker-periodic-flush-live");
    }
    if np > 1 {
        classes.push("multi-producer");
    }
    let shared_key = all.values().any(|a| a.count >= 2);
    if shared_key && n_flush >= 2 && all.len() >= 2 {
        classes.push("nt");
    }
    classes.sort();
    classes.dedup();
    Ok(classes)
}

// a stalled worker and a burst of sends: nothing a producer handed over may be dropped
#[derive(Clone, Debug, Serialize, Deserialize)]
pub struct BurstCase {
    pub n: u16,
    pub producers: u8,
    pub seed: u32,
    /// while the worker is stalled a flush is requested and its future dropped after one poll (a
    /// caller whose timeout expired); entries sent afterwards must still be merged and emitted
    #[serde(default)]
    pub cancelled_flush: bool,
    /// two flush requests from two handles overlap: A is requested while the worker is stalled,
    /// more entries are sent, then B is requested; when B completes everything sent before it must
    /// have been emitted (A's completion says nothing about those entries)
    #[serde(default)]
    pub overlapping_flush: bool,
}

pub fn check_worker_burst(case: &BurstCase) -> CaseResult {
    let out = Collect::default();
    let hold = Arc::new(std::sync::atomic::AtomicBool::new(true));
    let inner = Probe {
        hold: Some(hold.clone()),
        inner: KeyedAggregator::<Item, Collect>::new(out.clone()),
        flushes: Arc::new(AtomicU64::new(0)),
        dropped: Arc::new(AtomicU64::new(0)),
        epoch: out.epoch.clone(),
    };
    let sink: WorkerSink<ItemEntry, _> = WorkerSink::new(inner, Duration::from_secs(3600));
    let n = case.n as usize;
    let np = (case.producers % 4 + 1) as usize;
    let inputs: Vec<In> = (0..n)
        .map(|i| {
            let x = (i as u32).wrapping_mul(2654435761).wrapping_add(case.seed);
            In {
                word: (x % 200) as u8,
                n: ((x >> 8) % 3) as u8,
                total: x >> 12,
                last: i as u32,
                lat_ms: (x % 2000) as u16,
                dist: (x % 50) as u16,
            }
        })
        .collect();
    let mut all: BTreeMap<(String, u8), Acc> = BTreeMap::new();
    for i in &inputs {
        all.entry(i.key()).or_default().add(i);
    }
    // the worker is stalled inside its first merge while the producers send everything
    std::thread::scope(|s| {
        for t in 0..np {
            let sink = sink.clone();
            let inputs = &inputs;
            s.spawn(move || {
                for (k, i) in inputs.iter().enumerate() {
                    if k % np == t {
                        sink.send(i.item().close());
                    }
                }
            });
        }
    });
    let mut late: Vec<In> = vec![];
    if case.cancelled_flush {
        let mut f = Box::pin(sink.flush());
        let _ = crate::bq::poll_once(f.as_mut());
        drop(f);
    }
    let overlapping = case.overlapping_flush && !case.cancelled_flush;
    let sink_a = sink.clone();
    let sink_b = sink.clone();
    if overlapping {
        let mut fa = Box::pin(sink_a.flush());
        let _ = crate::bq::poll_once(fa.as_mut());
        for j in 0..5u32 {
            let i = In { word: 2, n: 1, total: 2000 + j, last: j, lat_ms: 9, dist: 4 };
            sink.send(i.item().close());
            all.entry(i.key()).or_default().add(&i);
            late.push(i);
        }
        // request B is issued (registered by its first poll) while A is still in flight
        let mut fb = Box::pin(sink_b.flush());
        let _ = crate::bq::poll_once(fb.as_mut());
        hold.store(false, Ordering::SeqCst);
        // both requests are awaited, each by its own thread (a caller of A keeps polling A)
        let done_b = std::thread::scope(|s| {
            let ha = s.spawn(move || crate::bq::block_on_timeout(fa, Duration::from_secs(30)).is_some());
            let b = crate::bq::block_on_timeout(fb, Duration::from_secs(30)).is_some();
            // B's completion is the barrier for everything sent before B was requested
            let got = out.out.lock().unwrap().clone();
            let a = ha.join().unwrap_or(false);
            (a && b).then_some(got)
        });
        let Some(got) = done_b else {
            return Ok(vec!["inconclusive-timeout"]);
        };
        let mut emitted: BTreeMap<(String, u8), usize> = BTreeMap::new();
        for (_, a) in &got {
            *emitted.entry((a.word.clone().unwrap_or_default(), a.n.unwrap_or(255) as u8)).or_default() += expand(&a.lat).len();
        }
        for (k, acc) in &all {
            let e = emitted.get(k).copied().unwrap_or(0);
            vensure!(
                e == acc.count,
                if e < acc.count { "agg:flush-completed-before-earlier-entries-were-emitted" } else { "agg:input-double-counted" },
                "flush B (requested from a second handle while flush A was in flight, 5 entries sent between the two requests) completed with {e} of {} observations of key {k:?} emitted",
                acc.count
            );
        }
    }
    hold.store(false, Ordering::SeqCst);
    if case.cancelled_flush {
        // the worker serves the abandoned request; whatever is sent afterwards still counts
        std::thread::sleep(Duration::from_millis(2));
        for j in 0..5u32 {
            let i = In {
                word: 1,
                n: 0,
                total: 1000 + j,
                last: j,
                lat_ms: 7,
                dist: 3,
            };
            sink.send(i.item().close());
            all.entry(i.key()).or_default().add(&i);
            late.push(i);
        }
    }
    let flushed = no_panic("worker-flush-after-a-cancelled-flush", || crate::bq::block_on_timeout(sink.flush(), Duration::from_secs(30)))?;
    if flushed.is_none() {
        return Ok(vec!["inconclusive-timeout"]);
    }
    let got = out.out.lock().unwrap().clone();
    let mut union: BTreeMap<(String, u8), (u64, usize)> = BTreeMap::new();
    for (_, a) in &got {
        let k = (a.word.clone().unwrap_or_default(), a.n.unwrap_or(255) as u8);
        let u = union.entry(k).or_default();
        u.0 += a.total.unwrap_or(0);
        u.1 += expand(&a.lat).len();
    }
    for (k, acc) in &all {
        let u = union.get(k).copied().unwrap_or_default();
        vensure!(
            u.0 == acc.total && u.1 == acc.count,
            if u.1 < acc.count { "agg:input-lost" } else { "agg:input-double-counted" },
            "{n} entries sent by {np} producer(s) while the worker was stalled, then flush().await: key {k:?} aggregates sum to {} over {} observations, the inputs to {} over {}",
            u.0,
            u.1,
            acc.total,
            acc.count
        );
    }
    let mut classes: Classes = vec!["nt"];
    if !late.is_empty() && case.cancelled_flush {
        classes.push("entries-sent-after-a-cancelled-flush");
    }
    if overlapping {
        classes.push("overlapping-flushes-from-two-handles");
    }
    if n > 1024 {
        classes.push("more-than-1024-queued");
    }
    if n > 8192 {
        classes.push("more-than-8192-queued");
    }
    Ok(classes)
}


// ---------------------------------------------------------------------------------------------
// the other public ways in: direct mode + MergeOnDrop, MergeOptions / Flatten / exponential
// histogram field strategies, a keyless struct behind KeyedAggregator, insert_direct,
// insert_and_send_to, AggregateSinkRef::merge_ref, Aggregate::new, guards into a MutexSink

pub mod other {
    use super::*;
    use metrique_aggregation::traits::AggregateSinkRef;
    use metrique_aggregation::value::{Flatten, MergeOptions};
    use metrique::unit::Millisecond;

    #[aggregate]
    #[metrics]
    pub struct Inner2 {
        #[aggregate(strategy = Sum)]
        pub count: u64,
    }

    /// keyless, entry mode
    #[aggregate]
    #[metrics]
    pub struct Wide {
        #[aggregate(strategy = Sum)]
        pub total: u64,
        #[aggregate(strategy = MergeOptions<Sum>)]
        pub opt: Option<u64>,
        #[aggregate(strategy = MergeOptions<Histogram<Duration, SortAndMerge>>)]
        #[metrics(unit = Millisecond)]
        pub lat: Option<Duration>,
        #[aggregate(strategy = Histogram<u64>)]
        pub h: u64,
        #[aggregate(strategy = Flatten)]
        #[metrics(flatten)]
        pub inner: Inner2,
        #[aggregate(strategy = KeepLast)]
        pub last: u32,
    }

    /// keyless, by-reference merge available (insert_and_send_to / merge_ref)
    #[aggregate(ref)]
    #[metrics]
    pub struct SubRef {
        #[aggregate(strategy = Sum)]
        pub total: u64,
        #[aggregate(strategy = KeepLast)]
        pub last: u32,
        #[aggregate(strategy = Distribution)]
        pub dist: u64,
    }

    /// direct mode: merged without closing, guard = MergeOnDrop
    #[aggregate(direct)]
    #[metrics]
    #[derive(Clone)]
    pub struct Direct {
        #[aggregate(key)]
        pub word: String,
        #[aggregate(strategy = Sum)]
        pub total: u64,
        #[aggregate(strategy = Distribution)]
        pub dist: u64,
    }

    #[aggregate(direct)]
    #[metrics]
    #[derive(Clone)]
    pub struct DirectNoKey {
        #[aggregate(strategy = Sum)]
        pub total: u64,
        #[aggregate(strategy = Distribution)]
        pub dist: u64,
    }

    #[derive(Clone, Debug, Serialize, Deserialize)]
    pub struct OIn {
        pub total: u32,
        pub opt: Option<u16>,
        pub lat_ms: Option<u16>,
        pub h: u16,
        pub count: u16,
        pub last: u32,
        pub word: u8,
        /// how this input enters: see check
        pub via: u8,
        /// guard inputs: the value is changed through DerefMut before the drop
        pub bump: u8,
    }

    #[derive(Clone, Debug, Serialize, Deserialize)]
    pub struct OCase {
        pub inputs: Vec<OIn>,
        pub preload: Option<u32>,
    }

    /// name -> (sum of totals, number of observations, observation values)
    #[derive(Debug, Default, Clone)]
    pub struct Seen {
        pub metrics: BTreeMap<String, (f64, u64, Vec<(f64, u64)>)>,
        pub strings: BTreeMap<String, String>,
    }
    pub fn see(e: &impl Entry) -> Seen {
        let mut s = Seen::default();
        for r in record(e).recs {
            if let Rec::Value { name, val } = r {
                match val {
                    RecVal::Str(v) => {
                        s.strings.insert(name, v);
                    }
                    RecVal::Metric { obs, .. } => {
                        let e = s.metrics.entry(name).or_default();
                        for o in obs {
                            let (t, n) = match o {
                                Obs::U(u) => (u as f64, 1u64),
                                Obs::Fl(f) => (f.0, 1),
                                Obs::Rep { total, occ } => (total.0, occ),
                            };
                            e.0 += t;
                            e.1 += n;
                            e.2.push((t / n.max(1) as f64, n));
                        }
                    }
                    _ => {}
                }
            }
        }
        s
    }
    #[derive(Clone, Default)]
    pub struct SeeSink(pub Arc<Mutex<Vec<Seen>>>);
    impl<E: Entry> EntrySink<E> for SeeSink {
        fn append(&self, entry: E) {
            self.0.lock().unwrap().push(see(&entry));
        }
        fn flush_async(&self) -> FlushWait {
            FlushWait::ready()
        }
    }
    struct E<T>(T);
    impl<T: metrique_core::InflectableEntry> Entry for E<T> {
        fn write<'a>(&'a self, w: &mut impl metrique_writer_core::EntryWriter<'a>) {
            self.0.write(w)
        }
    }

    fn sorted(mut v: Vec<u64>) -> Vec<u64> {
        v.sort();
        v
    }
    fn expand(obs: &[(f64, u64)]) -> Vec<u64> {
        let mut v = vec![];
        for (x, n) in obs {
            for _ in 0..*n {
                v.push(x.round() as u64);
            }
        }
        v.sort();
        v
    }

    pub fn check(case: &OCase) -> CaseResult {
        let mut classes: Classes = vec![];
        // ---- A: Wide (keyless, entry mode) through Aggregate::insert, a KeyedAggregator (NoKey) and a
        // guard into a MutexSink
        let mut agg: Aggregate<Wide> = Aggregate::default();
        let keyed_out = SeeSink::default();
        let mut keyed: KeyedAggregator<Wide, SeeSink> = KeyedAggregator::new(keyed_out.clone());
        let mutexed: MutexSink<Aggregate<Wide>> = MutexSink::new(Aggregate::default());
        let mk = |i: &OIn| Wide {
            total: i.total as u64,
            opt: i.opt.map(|x| x as u64),
            lat: i.lat_ms.map(|ms| Duration::from_millis(ms as u64)),
            h: i.h as u64,
            inner: Inner2 { count: i.count as u64 },
            last: i.last,
        };
        let (mut total, mut opt_sum, mut count_sum) = (0u64, 0u64, 0u64);
        let (mut lats, mut hs): (Vec<u64>, Vec<u64>) = (vec![], vec![]);
        let mut last = None;
        for i in &case.inputs {
            no_panic("agg-merge", || {
                agg.insert(mk(i));
                keyed.merge(mk(i).close());
                if i.via % 2 == 0 {
                    RootSink::merge(&mutexed, mk(i).close());
                } else {
                    // guard into the mutex-shared aggregate, changed through DerefMut before the drop
                    let mut g = mk(i).close_and_merge(mutexed.clone());
                    g.total += i.bump as u64;
                    g.total -= i.bump as u64;
                    drop(g);
                }
            })?;
            total += i.total as u64;
            opt_sum += i.opt.unwrap_or(0) as u64;
            count_sum += i.count as u64;
            if let Some(ms) = i.lat_ms {
                lats.push(ms as u64);
            }
            hs.push(i.h as u64);
            last = Some(i.last as u64);
        }
        no_panic("agg-flush", || keyed.flush())?;
        let seen_embedded = see(&E(agg.close()));
        let seen_mutex = see(&E(mutexed.close()));
        let keyed_seen = keyed_out.0.lock().unwrap().clone();
        if case.inputs.is_empty() {
            vensure!(keyed_seen.is_empty(), "agg:phantom-aggregate", "flush of an empty keyless KeyedAggregator emitted {keyed_seen:?}");
        } else {
            vensure!(
                keyed_seen.len() == 1,
                "agg:aggregate-count",
                "a keyless struct behind KeyedAggregator: {} aggregates emitted by one flush for {} inputs",
                keyed_seen.len(),
                case.inputs.len()
            );
            for (what, s) in [("Aggregate::insert", &seen_embedded), ("KeyedAggregator (NoKey)", &keyed_seen[0]), ("MutexSink<Aggregate> (merge / close_and_merge guard)", &seen_mutex)] {
                let g = |n: &str| s.metrics.get(n).cloned().unwrap_or_default();
                vensure!(g("total").0 == total as f64, "agg:sum-wrong", "{what}: total {} expected {total}", g("total").0);
                vensure!(
                    g("opt").0 == opt_sum as f64,
                    "agg:sum-wrong",
                    "{what}: MergeOptions<Sum> over Option<u64>: {} expected {opt_sum} (None adds nothing)",
                    g("opt").0
                );
                vensure!(g("count").0 == count_sum as f64, "agg:sum-wrong", "{what}: Flatten(inner.count) {} expected {count_sum}", g("count").0);
                vensure!(
                    expand(&g("lat").2) == sorted(lats.clone()),
                    "agg:distribution-wrong",
                    "{what}: MergeOptions<Histogram<Duration>> with unit: {:?} expected {:?}",
                    g("lat").2,
                    sorted(lats.clone())
                );
                vensure!(
                    g("h").1 == hs.len() as u64,
                    "agg:distribution-wrong",
                    "{what}: exponential Histogram<u64> field holds {} observations for {} inputs",
                    g("h").1,
                    hs.len()
                );
                vensure!(Some(g("last").0 as u64) == last, "agg:keep-last-wrong", "{what}: last {} expected {last:?}", g("last").0);
            }
            classes.push("keyless-behind-keyed-aggregator");
            if case.inputs.iter().any(|i| i.opt.is_none()) && case.inputs.iter().any(|i| i.opt.is_some()) {
                classes.push("merge-options-some-and-none");
            }
        }
        // ---- B: SubRef: insert_and_send_to / merge_ref / Aggregate::new
        let raw = SeeSink::default();
        let pre = case.preload.map(|p| {
            let mut a: Aggregate<SubRef> = Aggregate::default();
            a.insert(SubRef { total: p as u64, last: 1, dist: 3 });
            a
        });
        let mut sub: Aggregate<SubRef> = pre.unwrap_or_default();
        let (mut t2, mut d2): (u64, Vec<u64>) = (case.preload.unwrap_or(0) as u64, if case.preload.is_some() { vec![3] } else { vec![] });
        let mut sent = 0usize;
        for i in &case.inputs {
            let v = SubRef { total: i.total as u64, last: i.last, dist: i.h as u64 };
            no_panic("agg-merge", || match i.via % 3 {
                0 => sub.insert(v),
                1 => {
                    sub.insert_and_send_to(v, &raw);
                }
                _ => AggregateSinkRef::merge_ref(&mut sub, &v.close()),
            })?;
            if i.via % 3 == 1 {
                sent += 1;
            }
            t2 += i.total as u64;
            d2.push(i.h as u64);
        }
        let sseen = see(&E(sub.close()));
        let g = |n: &str| sseen.metrics.get(n).cloned().unwrap_or_default();
        if !case.inputs.is_empty() || case.preload.is_some() {
            vensure!(
                g("total").0 == t2 as f64 && expand(&g("dist").2) == sorted(d2.clone()),
                "agg:embedded-wrong",
                "Aggregate<SubRef> fed through insert / insert_and_send_to / merge_ref (preloaded: {:?}): total {} dist {:?}, expected {t2} {:?}",
                case.preload,
                g("total").0,
                g("dist").2,
                sorted(d2.clone())
            );
        }
        let raws = raw.0.lock().unwrap().clone();
        vensure!(raws.len() == sent, "agg:raw-entry-count", "insert_and_send_to called {sent} times, the second sink received {} entries", raws.len());
        let mut want_raw: Vec<u64> = case.inputs.iter().filter(|i| i.via % 3 == 1).map(|i| i.total as u64).collect();
        let mut got_raw: Vec<u64> = raws.iter().map(|r| r.metrics.get("total").map_or(u64::MAX, |m| m.0 as u64)).collect();
        want_raw.sort();
        got_raw.sort();
        vensure!(want_raw == got_raw, "agg:raw-entry-content", "raw entries sent on: totals {got_raw:?}, expected {want_raw:?}");
        if sent > 0 {
            classes.push("insert-and-send-to");
        }
        // ---- C: direct mode: insert_direct, MergeOnDrop guards (mutated before the drop), keyed
        let dout = SeeSink::default();
        let dkeyed = Shared(Arc::new(Mutex::new(KeyedAggregator::<Direct, SeeSink>::new(dout.clone()))));
        let mut dagg: Aggregate<DirectNoKey> = Aggregate::default();
        let mut per_word: BTreeMap<String, (u64, Vec<u64>)> = BTreeMap::new();
        let (mut t3, mut d3): (u64, Vec<u64>) = (0, vec![]);
        for i in &case.inputs {
            let w = word_of(i.word % 8);
            let bump = i.bump as u64;
            no_panic("agg-merge", || {
                if i.via % 2 == 0 {
                    dkeyed.merge(Direct { word: w.clone(), total: i.total as u64 + bump, dist: i.h as u64 });
                } else {
                    let mut g = Direct { word: w.clone(), total: i.total as u64, dist: i.h as u64 }.merge(dkeyed.clone());
                    g.total += bump;
                    drop(g);
                }
                dagg.insert_direct(DirectNoKey { total: i.total as u64, dist: i.h as u64 });
            })?;
            let e = per_word.entry(w).or_default();
            e.0 += i.total as u64 + bump;
            e.1.push(i.h as u64);
            t3 += i.total as u64;
            d3.push(i.h as u64);
        }
        no_panic("agg-flush", || dkeyed.0.lock().unwrap().flush())?;
        let douts = dout.0.lock().unwrap().clone();
        vensure!(
            douts.len() == per_word.len(),
            "agg:aggregate-count",
            "direct mode: {} aggregates for {} distinct keys",
            douts.len(),
            per_word.len()
        );
        for s in &douts {
            let w = s.strings.get("word").cloned().unwrap_or_default();
            let Some((t, d)) = per_word.get(&w) else {
                vfail!("agg:phantom-aggregate", "direct mode: aggregate for key {w:?} that was never merged");
            };
            let gt = s.metrics.get("total").cloned().unwrap_or_default();
            let gd = s.metrics.get("dist").cloned().unwrap_or_default();
            vensure!(
                gt.0 == *t as f64 && expand(&gd.2) == sorted(d.clone()),
                "agg:sum-wrong",
                "direct mode (merge / MergeOnDrop guard changed before its drop) key {w:?}: total {} dist {:?}, expected {t} {:?}",
                gt.0,
                gd.2,
                sorted(d.clone())
            );
        }
        let ds = see(&E(dagg.close()));
        if !case.inputs.is_empty() {
            let gt = ds.metrics.get("total").cloned().unwrap_or_default();
            let gd = ds.metrics.get("dist").cloned().unwrap_or_default();
            vensure!(
                gt.0 == t3 as f64 && expand(&gd.2) == sorted(d3.clone()),
                "agg:embedded-wrong",
                "Aggregate::insert_direct: total {} dist {:?}, expected {t3} {:?}",
                gt.0,
                gd.2,
                sorted(d3.clone())
            );
            classes.push("direct-mode");
        }
        if case.inputs.len() >= 3 && case.inputs.iter().any(|i| i.via % 2 == 1 && i.bump > 0) {
            classes.push("nt");
        }
        Ok(classes)
    }

    pub fn arb_case() -> impl Strategy<Value = OCase> {
        (
            prop::collection::vec(
                (any::<u32>(), prop::option::of(any::<u16>()), prop::option::of(0u16..5000), 0u16..2000, any::<u16>(), any::<u32>(), any::<u8>(), any::<u8>(), 0u8..4).prop_map(
                    |(total, opt, lat_ms, h, count, last, word, via, bump)| OIn { total, opt, lat_ms, h, count, last, word, via, bump },
                ),
                0..25,
            ),
            prop::option::of(any::<u32>()),
        )
            .prop_map(|(inputs, preload)| OCase { inputs, preload })
    }
}

// embedded + mutex-shared aggregation
#[derive(Clone, Debug, Serialize, Deserialize)]
pub struct EmbeddedCase {
    pub id: u64,
    pub inputs: Vec<(u32, u32, u16)>,
    pub threads: u8,
}

pub fn check_embedded(case: &EmbeddedCase) -> CaseResult {
    let mut parent = ParentEntry {
        id: case.id,
        subs: Aggregate::default(),
    };
    let mut exp = Acc::default();
    for (t, l, d) in &case.inputs {
        parent.subs.insert(Sub {
            total: *t as u64,
            last: *l,
            dist: *d as u64,
        });
        exp.total += *t as u64;
        exp.last = Some(*l);
        exp.dist.push(*d as u64);
    }
    let a = decode(&metrique::RootEntry::new(parent.close()));
    vensure!(a.id == Some(case.id), "agg:parent-field-affected", "parent id {:?}", a.id);
    if case.inputs.is_empty() {
        // nothing merged: sum 0, no last, empty distribution
        vensure!(a.total.unwrap_or(0) == 0 && a.dist.is_empty(), "agg:sum-wrong", "empty aggregate wrote {a:?}");
    } else {
        let mut d = exp.dist.clone();
        d.sort();
        vensure!(
            a.total == Some(exp.total) && a.last == exp.last.map(|x| x as u64) && expand(&a.dist) == d,
            "agg:embedded-wrong",
            "embedded aggregate {a:?}, expected total {} last {:?} dist {:?}",
            exp.total,
            exp.last,
            d
        );
    }
    // mutex-shared: the same inputs merged from several threads
    let shared: MutexSink<Aggregate<Sub>> = MutexSink::default();
    let nt = (case.threads % 4 + 1) as usize;
    std::thread::scope(|s| {
        for t in 0..nt {
            let shared = shared.clone();
            let inputs = &case.inputs;
            s.spawn(move || {
                for (k, (tt, l, d)) in inputs.iter().enumerate() {
                    if k % nt == t {
                        let sub = Sub {
                            total: *tt as u64,
                            last: *l,
                            dist: *d as u64,
                        };
                        RootSink::merge(&shared, sub.close());
                    }
                }
            });
        }
    });
    struct E<T>(T);
    impl<T: metrique_core::InflectableEntry> Entry for E<T> {
        fn write<'a>(&'a self, w: &mut impl metrique_writer_core::EntryWriter<'a>) {
            self.0.write(w)
        }
    }
    let b = decode(&E(shared.close()));
    let mut d = exp.dist.clone();
    d.sort();
    if !case.inputs.is_empty() {
        vensure!(
            b.total == Some(exp.total) && expand(&b.dist) == d,
            "agg:mutex-sink-wrong",
            "mutex-shared aggregate {b:?}, expected total {} dist {:?}",
            exp.total,
            d
        );
    }
    let mut classes: Classes = vec!["embedded"];
    if case.inputs.len() >= 2 && nt >= 2 {
        classes.push("nt");
    }
    Ok(classes)
}

fn arb_in() -> impl Strategy<Value = In> {
    (prop_oneof![5 => 0u8..5, 2 => 5u8..40, 1 => 5u8..=255], 0u8..3, prop_oneof![Just(0u32), 1u32..100, any::<u32>()], any::<u32>(), 0u16..2000, 0u16..50).prop_map(
        |(word, n, total, last, lat_ms, dist)| In {
            word,
            n,
            total,
            last,
            lat_ms,
            dist,
        },
    )
}

fn arb_step() -> impl Strategy<Value = Step> {
    prop_oneof![
        10 => arb_in().prop_map(Step::Input),
        2 => Just(Step::Flush),
        2 => arb_in().prop_map(Step::Guard),
        2 => any::<u8>().prop_map(Step::DropGuard),
    ]
}

pub fn run(ctx: &mut Ctx) {
    ctx.assume("with concurrent producers the flush epoch of an input is only constrained by the producers having been joined before the flush request; conservation is asserted over the union of all epochs, the barrier at every flush().await");
    ctx.assume("worker termination is decided by counting flush() calls on a probe around the inner sink after the last handle was dropped (>= 1000 => it spins), never by time");
    let q = ctx.tier == Tier::Quick;
    ctx.explore(
        SubCfg::new(
            "c10-keyed-and-tee",
            "sequences (0-60 steps) of Input(key from 5 words x 3, sum / keep-last / Histogram<Duration,SortAndMerge> / Distribution fields) | Flush | Guard (close_and_merge guard) | DropGuard(i) driven into a KeyedAggregator, or into TeeSink(by-ref KeyedAggregator, TeeSink(KeyedAggregator with a hand-written Cow key whose Hash deliberately collides (hash = word length), non_aggregate branch)). Oracle: reference map per flush epoch: exactly one aggregate per distinct key per flush, sum == sum of inputs, distributions == multiset of inputs, keep-last == last input; every tee branch independently; the non-aggregating branch sees every entry. Non-trivial = >=2 inputs share a key within an epoch, >=2 flushes, >=2 keys",
            if q { 6_000 } else { 200_000 },
        )
        .threads(ctx.tier.pick(8, 16))
        .mandatory(&["tee", "hash-collision-between-keys", "merge-on-drop-guard"]),
        || {
            (prop::sample::select(vec![SinkKind::Keyed, SinkKind::Tee]), prop::collection::vec(arb_step(), 0..60))
                .prop_map(|(kind, steps)| Case { kind, steps, producers: 0 })
        },
        check,
    );
    ctx.explore(
        SubCfg::new(
            "c10-worker",
            "the same steps through WorkerSink(KeyedAggregator) with 1-4 producer threads per segment (joined before each flush().await); flush interval 1 h or never (Duration::MAX / u64::MAX s; explicit flushes only) or 0 / 100 us / 2 ms (the worker's periodic flush races the merges; epochs are counted at the inner sink's real flushes). Oracle: when flush().await returns everything merged before it is in emitted aggregates (barrier); one aggregate per key per flush; with one producer and no periodic flush the keep-last field of each aggregate is the last value sent for its key; union over all flushes == all inputs (nothing lost, nothing double counted); after the last handle is dropped the worker emits what it holds and its inner sink is dropped (the thread exits) before 1000 further flush() calls. Non-trivial = >=2 inputs share a key, >=2 flushes, >=2 keys",
            if q { 1_500 } else { 30_000 },
        )
        .threads(ctx.tier.pick(4, 8))
        .shrink_iters(100)
        .mandatory(&["worker", "multi-producer", "worker-periodic-flush-live", "worker-keep-last-checked", "worker-flush-interval-never"]),
        || {
            (prop::collection::vec(arb_step(), 0..50), any::<u8>()).prop_map(|(steps, producers)| Case {
                kind: SinkKind::Worker,
                steps,
                producers,
            })
        },
        check,
    );
    ctx.explore(
        SubCfg::new(
            "c10-worker-burst",
            "WorkerSink whose worker thread is stalled inside its first merge (harness-owned probe) while 1-4 producer threads send 2-20 000 entries over up to 600 keys; in half of the cases a flush is requested during the stall and its future dropped after one poll; the stall is then released, (after a cancelled flush) five more entries are sent, and flush().await taken. Oracle: per key the emitted aggregates sum to the inputs with the same number of observations - a send never drops an entry, however far the producers are ahead of the worker. Non-trivial = every case",
            if q { 40 } else { 400 },
        )
        .threads(ctx.tier.pick(4, 8))
        .shrink_iters(12)
        .mandatory(&["more-than-1024-queued", "more-than-8192-queued", "entries-sent-after-a-cancelled-flush", "overlapping-flushes-from-two-handles"]),
        || {
            (prop_oneof![2u16..1500, 1025u16..9000, 8193u16..20000], any::<u8>(), any::<u32>(), any::<bool>(), any::<bool>())
                .prop_map(|(n, producers, seed, cancelled_flush, overlapping_flush)| BurstCase { n, producers, seed, cancelled_flush, overlapping_flush })
        },
        check_worker_burst,
    );
    ctx.explore(
        SubCfg::new(
            "c10-embedded-and-mutex",
            "Aggregate<T> embedded (flatten) in a parent #[metrics] entry and MutexSink<Aggregate<T>> merged from 1-4 threads: sum / keep-last / distribution of 0-40 inputs, parent field untouched. Non-trivial = >=2 inputs and >=2 threads",
            if q { 4_000 } else { 100_000 },
        )
        .threads(ctx.tier.pick(4, 8)),
        || {
            (any::<u64>(), prop::collection::vec((any::<u32>(), any::<u32>(), 0u16..100), 0..40), any::<u8>())
                .prop_map(|(id, inputs, threads)| EmbeddedCase { id, inputs, threads })
        },
        check_embedded,
    );
    ctx.explore(
        SubCfg::new(
            "c10-other-entry-points",
            "0-24 inputs through the entry points the other sub-checks do not use: a keyless entry-mode struct with Sum / MergeOptions<Sum> over Option / MergeOptions<Histogram<Duration>> with a unit attribute / exponential Histogram<u64> / Flatten of a nested aggregated struct / KeepLast fields, fed to Aggregate::insert, to a KeyedAggregator (NoKey: one aggregate per flush) and to a MutexSink both directly and through close_and_merge guards; a by-reference struct through insert / insert_and_send_to (raw entry forwarded) / AggregateSinkRef::merge_ref on a fresh or pre-populated Aggregate; #[aggregate(direct)] structs through merge, MergeOnDrop guards changed through DerefMut before the drop, and insert_direct. Oracle: reference sums, observation multisets, keep-last, aggregate and raw-entry counts. Non-trivial = >= 3 inputs with a guard that was changed before its drop",
            if q { 3_000 } else { 80_000 },
        )
        .threads(ctx.tier.pick(4, 8))
        .mandatory(&["keyless-behind-keyed-aggregator", "merge-options-some-and-none", "insert-and-send-to", "direct-mode"]),
        other::arb_case,
        other::check,
    );
}
