//! C12 — sampling is consistent and unbiased: emit iff draw <= rate, mean weight 1/rate;
//! congressional rates in (0,1], budgeted and monotone.

use crate::emfh::*;
use crate::engine::*;
use crate::model::*;
use crate::{vensure, vfail};
use metrique_writer::sample::{CongressSampleBuilder, FixedFractionSample};
use metrique_writer_core::format::Format;
use metrique_writer_core::sample::SampledFormat;
use metrique_writer_core::{Entry, IoStreamError};
use proptest::prelude::*;
use rand::Rng;
use serde::{Deserialize, Serialize};
use std::io;
use std::sync::atomic::{AtomicU64, AtomicUsize, Ordering};
use std::sync::{Arc, Mutex};

// ---------------------------------------------------------------------------------------------
// devices

/// rng whose next word is set by the harness; counts draws
#[derive(Clone)]
pub struct WordRng {
    pub word: Arc<AtomicU64>,
    pub draws: Arc<AtomicUsize>,
}
impl WordRng {
    pub fn new() -> Self {
        WordRng {
            word: Arc::new(AtomicU64::new(0)),
            draws: Arc::new(AtomicUsize::new(0)),
        }
    }
}
impl rand::RngCore for WordRng {
    fn next_u32(&mut self) -> u32 {
        self.draws.fetch_add(1, Ordering::Relaxed);
        self.word.load(Ordering::Relaxed) as u32
    }
    fn next_u64(&mut self) -> u64 {
        self.draws.fetch_add(1, Ordering::Relaxed);
        self.word.load(Ordering::Relaxed)
    }
    fn fill_bytes(&mut self, dst: &mut [u8]) {
        let w = self.next_u64().to_le_bytes();
        for (i, b) in dst.iter_mut().enumerate() {
            *b = w[i % 8];
        }
    }
}

/// the draw the library will derive from `word`, computed with the same rand conversion
fn f32_draw(word: u64) -> f32 {
    let mut r = ScriptRng::new(vec![word]);
    r.random::<f32>()
}

/// recording `SampledFormat`
#[derive(Default)]
pub struct RecFormat {
    /// per call: None = plain format(), Some(rate bits) = format_with_sample_rate
    pub calls: Arc<Mutex<Vec<Option<u32>>>>,
}
impl Format for RecFormat {
    fn format(&mut self, _e: &impl Entry, _o: &mut impl io::Write) -> Result<(), IoStreamError> {
        self.calls.lock().unwrap().push(None);
        Ok(())
    }
}
impl SampledFormat for RecFormat {
    fn format_with_sample_rate(
        &mut self,
        _e: &impl Entry,
        _o: &mut impl io::Write,
        rate: f32,
    ) -> Result<(), IoStreamError> {
        self.calls.lock().unwrap().push(Some(rate.to_bits()));
        Ok(())
    }
}

// ---------------------------------------------------------------------------------------------
// A: decision of the fixed-fraction sampler

#[derive(Clone, Debug, Serialize, Deserialize)]
pub struct FixedCase {
    /// rate = k * 2^-24 (every f32 draw is such a value, so equality is reachable) or raw bits
    pub rate_bits: u32,
    pub words: Vec<u64>,
}

fn arb_fixed_case() -> impl Strategy<Value = FixedCase> {
    let rate = prop_oneof![
        4 => (1u32..=(1 << 24)).prop_map(|k| (k as f32 * (2f32).powi(-24)).to_bits()),
        2 => (0.0f32..=1.0).prop_filter("positive", |f| *f > 0.0).prop_map(|f| f.to_bits()),
        1 => Just(1.0f32.to_bits()),
        1 => (1u32..0x3f80_0000).prop_map(|b| b),
    ];
    rate.prop_flat_map(|rate_bits| {
        let r = f32::from_bits(rate_bits);
        // the word whose draw equals the rate (when representable), and its neighbours
        let k = (r * (1u32 << 24) as f32) as u64;
        let near = prop_oneof![
            3 => Just(k << 8),
            2 => Just(k.saturating_sub(1) << 8),
            2 => Just((k + 1).min((1 << 24) - 1) << 8),
            3 => any::<u32>().prop_map(|w| w as u64),
            1 => Just(0u64),
            1 => Just(u32::MAX as u64),
        ];
        prop::collection::vec(near, 1..12).prop_map(move |words| FixedCase { rate_bits, words })
    })
}

fn check_fixed(case: &FixedCase) -> CaseResult {
    let rate = f32::from_bits(case.rate_bits);
    let rec = RecFormat::default();
    let calls = rec.calls.clone();
    let rng = WordRng::new();
    let mut s = no_panic("fixed-fraction-new", || {
        FixedFractionSample::with_rng(rec, rate, rng.clone())
    })?;
    let entry = GenEntry::default();
    let p = entry.prepare();
    let mut classes: Classes = vec![];
    for w in &case.words {
        rng.word.store(*w, Ordering::Relaxed);
        let before = calls.lock().unwrap().len();
        let r = no_panic("fixed-fraction-format", || s.format(&p, &mut io::sink()))?;
        vensure!(r.is_ok(), "sample:format-error", "format returned {r:?}");
        let after = calls.lock().unwrap().len();
        let draw = f32_draw(*w);
        let expect_emit = draw <= rate || rate == 1.0;
        vensure!(
            (after - before == 1) == expect_emit && after - before <= 1,
            "sample:decision-not-draw-le-rate",
            "rate={rate:e} draw={draw:e}: emitted {} time(s), expected {}",
            after - before,
            expect_emit as u8
        );
        if expect_emit {
            let passed = calls.lock().unwrap()[before];
            vensure!(
                passed == Some(case.rate_bits),
                "sample:rate-not-passed-on",
                "rate {rate:e} ({:#x}) but the inner format received {passed:?}",
                case.rate_bits
            );
            classes.push("emitted");
        } else {
            classes.push("dropped");
        }
        if draw == rate {
            classes.push("draw-equals-rate");
        }
    }
    if classes.contains(&"emitted") && classes.contains(&"dropped") {
        classes.push("nt");
    }
    classes.sort();
    classes.dedup();
    Ok(classes)
}

// ---------------------------------------------------------------------------------------------
// B: EMF weight

struct WeightProbe {
    emf: metrique_writer_format_emf::SampledEmf<WordRng>,
    rng: WordRng,
    out: Vec<u8>,
    entry: GenEntry,
}

impl WeightProbe {
    fn new() -> Self {
        let rng = WordRng::new();
        let emf = EmfCfg::simple(Ctor::NoValidations)
            .build()
            .with_sampling_and_rng(rng.clone());
        let entry = GenEntry {
            ops: vec![
                Op::Timestamp {
                    secs: 1,
                    nanos: 0,
                    before_epoch: false,
                },
                Op::Value {
                    name: "m".into(),
                    val: Val::Metric {
                        obs: vec![Obs::U(5)],
                        unit: UnitG(0),
                        dims: vec![],
                        flags: FlagG::None,
                    },
                },
            ],
            sample_group: vec![],
        };
        WeightProbe {
            emf,
            rng,
            out: Vec::with_capacity(256),
            entry,
        }
    }
    /// weight applied for (rate, 53-bit draw index): draw = idx * 2^-53
    fn weight(&mut self, rate: f32, draw_idx: u64) -> Result<u64, String> {
        self.rng.word.store(draw_idx << 11, Ordering::Relaxed);
        self.out.clear();
        let p = self.entry.prepare();
        self.emf
            .format_with_sample_rate(&p, &mut self.out, rate)
            .map_err(|e| format!("format_with_sample_rate({rate:e}) failed: {e}"))?;
        let s = std::str::from_utf8(&self.out).map_err(|e| e.to_string())?;
        let i = s.find("\"Counts\":[").ok_or("no Counts")? + 10;
        let j = s[i..].find(']').ok_or("no ]")? + i;
        s[i..j].parse::<u64>().map_err(|e| format!("bad count {:?}: {e}", &s[i..j]))
    }
}


// ---------------------------------------------------------------------------------------------
// B2: the stateless default adapter (DefaultRng<R>, what with_sampling() / sample_by_* use with
// ThreadRng) must hand through exactly the words of R

thread_local! {
    static TL_WORD: std::cell::Cell<u64> = const { std::cell::Cell::new(0) };
}
/// stateless rng (`Default`, like ThreadRng) whose word is set per thread by the harness
#[derive(Default)]
pub struct TlRng;
impl rand::RngCore for TlRng {
    fn next_u32(&mut self) -> u32 {
        TL_WORD.with(|w| w.get()) as u32
    }
    fn next_u64(&mut self) -> u64 {
        TL_WORD.with(|w| w.get())
    }
    fn fill_bytes(&mut self, dst: &mut [u8]) {
        let w = self.next_u64().to_le_bytes();
        for (i, b) in dst.iter_mut().enumerate() {
            *b = w[i % 8];
        }
    }
}

#[derive(Clone, Debug, Serialize, Deserialize)]
pub struct AdapterCase {
    pub rate_bits: u32,
    pub words: Vec<u64>,
}

fn check_default_adapter(case: &AdapterCase) -> CaseResult {
    use metrique_writer::sample::DefaultRng;
    let rate = f32::from_bits(case.rate_bits);
    let mut classes: Classes = vec![];
    // reference: the explicit-rng path (decided by c12-weight / c12-fixed-fraction-decision)
    let mut reference = WeightProbe::new();
    let mut adapted = EmfCfg::simple(Ctor::NoValidations)
        .build()
        .with_sampling_and_rng(DefaultRng::<TlRng>::default());
    let rec = RecFormat::default();
    let calls = rec.calls.clone();
    let mut fixed = no_panic("fixed-fraction-new", || {
        FixedFractionSample::with_rng(rec, rate, DefaultRng::<TlRng>::default())
    })?;
    let entry = reference.entry.clone();
    let (fl, is_int) = exact_inv(rate.max(2f32.powi(-100)));
    let mut out = Vec::with_capacity(256);
    // the constructors a user normally calls (ThreadRng behind them: only what does not depend on
    // the draw is decided - the rate handed on, always-emit at rate 1, and the weight when 1/rate
    // is an integer)
    {
        use metrique_writer::sample::SampledFormatExt;
        let rec_a = RecFormat::default();
        let calls_a = rec_a.calls.clone();
        let mut by_ext = no_panic("fixed-fraction-new", || rec_a.sample_by_fixed_fraction(rate))?;
        let rec_b = RecFormat::default();
        let calls_b = rec_b.calls.clone();
        let mut by_new = no_panic("fixed-fraction-new", || FixedFractionSample::new(rec_b, rate))?;
        let q = GenEntry::default();
        let pq = q.prepare();
        for _ in 0..case.words.len() {
            let _ = no_panic("fixed-fraction-format", || by_ext.format(&pq, &mut io::sink()))?;
            let _ = no_panic("fixed-fraction-format", || by_new.format(&pq, &mut io::sink()))?;
        }
        for (what, calls) in [("sample_by_fixed_fraction", calls_a), ("FixedFractionSample::new", calls_b)] {
            let l = calls.lock().unwrap();
            vensure!(
                l.iter().all(|c| *c == Some(case.rate_bits)),
                "sample:rate-not-passed-on",
                "{what}({rate:e}): the inner format received {:?}",
                l.iter().find(|c| **c != Some(case.rate_bits))
            );
            vensure!(
                rate != 1.0 || l.len() == case.words.len(),
                "sample:decision-not-draw-le-rate",
                "{what}(1.0) emitted {} of {} entries",
                l.len(),
                case.words.len()
            );
        }
        if is_int && fl >= 1 && fl < (1u128 << 53) {
            let mut default_sampled = EmfCfg::simple(Ctor::NoValidations).build().with_sampling();
            let p = entry.prepare();
            reference.out.clear();
            let r1 = no_panic("emf-sampled-format", || reference.emf.format_with_sample_rate(&p, &mut reference.out, rate))?;
            out.clear();
            let r2 = no_panic("emf-sampled-format", || default_sampled.format_with_sample_rate(&p, &mut out, rate))?;
            vensure!(
                r1.is_ok() && r2.is_ok() && reference.out == out,
                "weight:default-rng-adapter-differs",
                "rate {rate:e} (1/rate is the integer {fl}): Emf::with_sampling() wrote {:?}, the explicit-rng path {:?}",
                String::from_utf8_lossy(&out),
                String::from_utf8_lossy(&reference.out)
            );
            classes.push("with-sampling-default-constructor");
        }
    }
    for w in &case.words {
        TL_WORD.with(|c| c.set(*w));
        reference.rng.word.store(*w, Ordering::Relaxed);
        reference.out.clear();
        let p = entry.prepare();
        let r1 = no_panic("emf-sampled-format", || reference.emf.format_with_sample_rate(&p, &mut reference.out, rate))?;
        out.clear();
        let r2 = no_panic("emf-sampled-format", || adapted.format_with_sample_rate(&p, &mut out, rate))?;
        vensure!(r1.is_ok() && r2.is_ok(), "weight:format-failed", "rate {rate:e}: {r1:?} / {r2:?}");
        vensure!(
            reference.out == out,
            "weight:default-rng-adapter-differs",
            "rate {rate:e} word {w:#x}: SampledEmf over DefaultRng<R> wrote {:?} but over R itself {:?}",
            String::from_utf8_lossy(&out),
            String::from_utf8_lossy(&reference.out)
        );
        // decision through the adapter
        let before = calls.lock().unwrap().len();
        let q = GenEntry::default();
        let pq = q.prepare();
        let r = no_panic("fixed-fraction-format", || fixed.format(&pq, &mut io::sink()))?;
        vensure!(r.is_ok(), "sample:format-error", "format returned {r:?}");
        let n = calls.lock().unwrap().len() - before;
        let draw = f32_draw(*w);
        let expect_emit = draw <= rate || rate == 1.0;
        vensure!(
            n == expect_emit as usize,
            "sample:decision-not-draw-le-rate",
            "through DefaultRng<R>: rate={rate:e} draw={draw:e}: emitted {n} time(s), expected {}",
            expect_emit as u8
        );
        if (*w >> 32) != 0 && (*w as u32) != (*w >> 32) as u32 {
            classes.push("word-with-distinct-halves");
        }
    }
    if !is_int && fl >= 1 && fl < (1u128 << 53) && classes.contains(&"word-with-distinct-halves") {
        classes.push("nt");
    }
    classes.sort();
    classes.dedup();
    Ok(classes)
}

/// exact floor(1/r) and whether 1/r is an integer, for a positive finite f32 >= 2^-100
fn exact_inv(r: f32) -> (u128, bool) {
    let bits = r.to_bits();
    let exp = ((bits >> 23) & 0xff) as i32;
    let frac = (bits & 0x7f_ffff) as u128;
    let (m, e) = if exp == 0 {
        (frac, -149)
    } else {
        (frac | (1 << 23), exp - 150)
    };
    // r = m * 2^e, e <= 0 here because r <= 1 (or m has trailing zeros)
    if e >= 0 {
        let v = m << e;
        return (if v == 0 { 0 } else { 1 / v }, v == 1);
    }
    let num: u128 = 1u128 << (-e) as u32;
    (num / m, num % m == 0)
}

fn two_pow_neg63() -> f32 {
    (2f32).powi(-63)
}

/// check one rate with the two extreme draws; returns (lo_weight, hi_weight)
fn check_weight_extremes(p: &mut WeightProbe, rate: f32) -> Result<(u64, u64, Classes), Fail> {
    let max_idx = (1u64 << 53) - 1;
    let n0 = p.weight(rate, 0).map_err(|e| Fail::new("weight:format-failed", e))?;
    let n1 = p
        .weight(rate, max_idx)
        .map_err(|e| Fail::new("weight:format-failed", e))?;
    let mut classes: Classes = vec![];
    if rate < two_pow_neg63() {
        vensure!(
            n0 == u64::MAX && n1 == u64::MAX,
            "weight:not-saturating-below-2^-63",
            "rate {rate:e} < 2^-63 must saturate to u64::MAX, got {n0} / {n1}"
        );
        classes.push("saturating");
        return Ok((n0, n1, classes));
    }
    let (fl, exact) = exact_inv(rate);
    let ce = if exact { fl } else { fl + 1 };
    for n in [n0, n1] {
        let n = n as u128;
        if fl < (1u128 << 53) {
            vensure!(
                n == fl || n == ce,
                "weight:not-floor-or-ceil",
                "rate {rate:e}: 1/rate in [{fl},{ce}] but weight {n}"
            );
        }
        // |n - 1/r| <= 1. From 2^53 on, 1/r +- 1 is not representable in the double arithmetic
        // the weight is specified in, so "1/rate" is accepted either as the exact rational
        // (in [fl, ce]) or as its correctly rounded double.
        let inv64 = (1.0f64 / rate as f64) as u128;
        let lo = fl.min(inv64);
        let hi = ce.max(inv64);
        vensure!(
            n + 1 >= lo && n <= hi + 1,
            "weight:further-than-1-from-inverse-rate",
            "rate {rate:e}: 1/rate in [{fl},{ce}] (as double: {inv64}) but weight {n}"
        );
    }
    vensure!(n0 <= n1, "weight:not-monotone-in-draw", "rate {rate:e}: {n0} > {n1}");
    if exact && fl < (1u128 << 53) {
        vensure!(
            n0 as u128 == fl && n1 as u128 == fl,
            "weight:integer-inverse-not-exact",
            "rate {rate:e}: 1/rate = {fl} exactly but weights {n0}/{n1}"
        );
        classes.push("integer-inverse");
    } else {
        classes.push("nt");
    }
    Ok((n0, n1, classes))
}

/// bisection for alpha (probability of the lower weight) and the unbiasedness check
fn check_weight_expectation(p: &mut WeightProbe, rate: f32) -> CaseResult {
    let (n0, n1, mut classes) = check_weight_extremes(p, rate)?;
    if rate < two_pow_neg63() {
        return Ok(classes);
    }
    let inv = 1.0f64 / rate as f64;
    let alpha = if n0 == n1 {
        // constant weight: all mass on n0
        1.0f64
    } else {
        // smallest idx with weight == n1
        let (mut lo, mut hi) = (0u64, (1u64 << 53) - 1); // weight(lo)=n0, weight(hi)=n1
        while hi - lo > 1 {
            let mid = lo + (hi - lo) / 2;
            let w = p.weight(rate, mid).map_err(|e| Fail::new("weight:format-failed", e))?;
            vensure!(
                w == n0 || w == n1,
                "weight:third-value",
                "rate {rate:e}: weight {w} for an intermediate draw, extremes {n0}/{n1}"
            );
            if w == n0 { lo = mid } else { hi = mid }
        }
        hi as f64 / (1u64 << 53) as f64
    };
    let expectation = n0 as f64 * alpha + n1 as f64 * (1.0 - alpha);
    let tol = inv * 1e-12 + 1e-9;
    vensure!(
        (expectation - inv).abs() <= tol,
        "weight:biased",
        "rate {rate:e}: weights {n0} (p={alpha}) / {n1}: expectation {expectation} but 1/rate = {inv}"
    );
    classes.push("expectation-checked");
    Ok(classes)
}

fn arb_rate_bits_valid() -> impl Strategy<Value = u32> {
    prop_oneof![
        3 => (0i32..=70, -2i32..=2).prop_map(|(k, d)| ((2f32).powi(-k).to_bits() as i64 + d as i64) as u32),
        3 => (1u32..100_000, -1i32..=1).prop_map(|(k, d)| ((1.0f32 / k as f32).to_bits() as i64 + d as i64) as u32),
        2 => (0.0f32..=1.0).prop_map(|f| f.to_bits()),
        2 => 1u32..=0x3f80_0000,
        1 => (two_pow_neg63().to_bits() - 40)..(two_pow_neg63().to_bits() + 40),
        1 => 1u32..0x0080_0000, // subnormals
    ]
    .prop_map(|b| b.clamp(1, 0x3f80_0000))
}

#[derive(Clone, Debug, Serialize, Deserialize)]
pub struct RateCase {
    pub rate_bits: u32,
}

#[derive(Clone, Debug, Serialize, Deserialize)]
pub struct CommonWeightCase {
    pub entry: GenEntry,
    pub cfg: EmfCfg,
    pub rate_bits: u32,
    pub word: u64,
}

/// every count of every record of one call is occurrences.saturating_mul(n) with one common n
fn check_common_weight(case: &CommonWeightCase) -> CaseResult {
    let rate = f32::from_bits(case.rate_bits);
    let mut probe = WeightProbe::new();
    let n = probe
        .weight(rate, case.word >> 11)
        .map_err(|e| Fail::new("weight:format-failed", e))?;
    let mut out = vec![];
    let mut emf = case.cfg.build();
    let dec = format_once(
        &mut emf,
        &case.entry,
        &Sampling::Rate {
            rate_bits: case.rate_bits,
            // the first draw is the one the probe saw; every later draw would be a different one:
            // an implementation that drew once per metric / observation / record instead of once
            // per call would give some counts another of the two possible weights
            words: vec![case.word, !case.word, case.word.rotate_left(17) ^ 0x5555_5555_5555_5555, 0, u64::MAX],
        },
        &mut out,
    );
    if dec != Decision::Ok {
        // arb_valid entries are inside the documented domain: sampling must not change that
        vfail!("valid-entry-rejected", "a valid entry was not accepted on the sampled path: {dec:?}");
    }
    let log = crate::reclog::record(&case.entry.prepare());
    let expected = ref_emf(&log, &case.cfg, Some(n));
    let recs = decode_output(&out).map_err(|e| Fail::new("invalid-json:other", e))?;
    if let Err(e) = compare_records(&recs, &expected, true) {
        vfail!(
            "weight:not-common-to-all-counts",
            "with the weight {n} observed for this (rate, draw) on a probe entry, the entry's records differ from the reference: {e}"
        );
    }
    let mut classes: Classes = vec![];
    let metrics: usize = recs.iter().map(|r| r.metrics.len()).sum();
    if metrics >= 2 && n >= 2 {
        classes.push("nt");
    }
    if recs.len() >= 2 {
        classes.push("multi-record");
    }
    Ok(classes)
}

fn exhaustive_rates(ctx: &mut Ctx) {
    // thorough: every f32 in (0,1]; quick: a strided sample of the same loop
    let stride: u32 = ctx.tier.pick(509, 1);
    let threads = 16u32;
    let t0 = std::time::Instant::now();
    let total_bits = 0x3f80_0000u32;
    let results: Vec<(u64, u64, Vec<serde_json::Value>, Option<(u32, Fail)>)> = std::thread::scope(|s| {
        let hs: Vec<_> = (0..threads)
            .map(|w| {
                s.spawn(move || {
                    let mut p = WeightProbe::new();
                    let mut evals = 0u64;
                    let mut nt = 0u64;
                    let mut samples = vec![];
                    let chunk = total_bits / threads + 1;
                    let lo = 1 + w * chunk;
                    let hi = (lo + chunk).min(total_bits + 1);
                    let mut b = lo + (w * 7) % stride.max(1);
                    while b < hi {
                        let rate = f32::from_bits(b);
                        match check_weight_extremes(&mut p, rate) {
                            Ok((n0, n1, classes)) => {
                                evals += 1;
                                if classes.contains(&"nt") {
                                    nt += 1;
                                    if samples.len() < 2 && nt % 1000 == 1 {
                                        samples.push(serde_json::json!({"rate_bits": b, "rate": rate, "weight_draw0": n0, "weight_draw_max": n1}));
                                    }
                                }
                            }
                            Err(f) => return (evals, nt, samples, Some((b, f))),
                        }
                        b += stride;
                    }
                    (evals, nt, samples, None)
                })
            })
            .collect();
        hs.into_iter().map(|h| h.join().unwrap()).collect()
    });
    let mut t = Tally::new(
        "c12-weight-all-f32",
        "every representable f32 rate in (0,1] (thorough: all 1 065 353 216 of them; quick: every 509th) x the two extreme draws (0 and 1-2^-53) through SampledEmf + a scripted rng, weight read from the EMF Counts. Oracle: exact u128 arithmetic on mantissa/exponent: weight in {floor,ceil}(1/r) when 1/r < 2^53, |weight - 1/r| <= 1 always, u64::MAX below 2^-63, exact when 1/r is an integer, monotone in the draw. Non-trivial = 1/r not an integer",
    );
    let mut failure = None;
    for (e, n, s, f) in results {
        t.evaluations += e;
        // distinct by construction: each rate is visited once
        t.nt_extra += n;
        for x in s {
            if t.samples.len() < 6 {
                t.samples.push(x);
            }
        }
        if failure.is_none() {
            failure = f;
        }
    }
    t.exhaustive = stride == 1;
    t.t0 = t0;
    ctx.push_custom(t.finish(&[]));
    if let Some((b, f)) = failure {
        ctx.report_violation(
            "c12-weight",
            f,
            serde_json::json!({"rate_bits": b}),
            format!("RateCase {{ rate_bits: {b} }}"),
        );
    }
}

// ---------------------------------------------------------------------------------------------
// C: congressional sampler

#[derive(Clone, Debug, Serialize, Deserialize)]
pub struct CongressCase {
    /// how the sampler is built: 0 = builder (interval, target) + build_with_rng (scripted draws);
    /// 1 = builder (target, interval) + build() (default rng); 2 =
    /// sample_by_congress_at_fixed_entries_per_second(target / 15); 3 = builder with the interval
    /// only + build() (default target 1500); 4 = builder with the target only + build_with_rng
    #[serde(default)]
    pub ctor: u8,
    pub target: u32,
    /// per interval: volume per group index
    pub intervals: Vec<Vec<u32>>,
    pub words: Vec<u32>,
}

fn arb_volume() -> impl Strategy<Value = u32> {
    prop_oneof![
        4 => Just(0u32),
        3 => Just(1u32),
        4 => 2u32..40,
        2 => 40u32..2000,
        1 => 2000u32..30_000,
    ]
}

fn arb_congress_case(max_intervals: usize, max_groups: usize) -> impl Strategy<Value = CongressCase> {
    (
        prop_oneof![3 => 1u32..50, 3 => 50u32..2000, 1 => 2000u32..10_000],
        (1usize..=max_groups).prop_flat_map(move |g| {
            prop::collection::vec(prop::collection::vec(arb_volume(), g), 1..max_intervals)
        }),
        prop::collection::vec(any::<u32>(), 1..16),
        prop_oneof![3 => Just(0u8), 2 => 1u8..5],
    )
        .prop_map(|(target, mut intervals, words, ctor)| {
            // in a third of the cases the first group falls silent for 10+ intervals in the middle
            // (longer than the sampler keeps an unobserved group) and then comes back
            if words[0] % 3 == 0 && intervals.len() >= 14 {
                let n = intervals.len();
                for iv in intervals.iter_mut().take(n - 2).skip(2) {
                    iv[0] = 0;
                }
            }
            CongressCase {
                ctor,
                target,
                intervals,
                words,
            }
        })
}

/// group g; every third group is identified by TWO pairs, given in alternating order (the
/// grouping must not depend on the order in which an entry lists its pairs)
#[allow(dead_code)]
fn is_group(k: &[(String, String)], g: usize) -> bool {
    if g == 5 { k.is_empty() } else { k.iter().any(|p| p.0 == "op" && p.1 == format!("g{g}")) }
}
struct GroupEntry(usize, bool);
impl Entry for GroupEntry {
    fn write<'a>(&'a self, _w: &mut impl metrique_writer_core::EntryWriter<'a>) {}
    fn sample_group(&self) -> impl Iterator<Item = (std::borrow::Cow<'static, str>, std::borrow::Cow<'static, str>)> {
        let op: (std::borrow::Cow<'static, str>, std::borrow::Cow<'static, str>) = ("op".into(), format!("g{}", self.0).into());
        let az: (std::borrow::Cow<'static, str>, std::borrow::Cow<'static, str>) = ("az".into(), format!("z{}", self.0 % 2).into());
        let tier: (std::borrow::Cow<'static, str>, std::borrow::Cow<'static, str>) = ("tier".into(), "t".into());
        let v = if self.0 == 5 {
            // an entry without any sample-group field: the (common) empty group
            vec![]
        } else if self.0 == 7 {
            // three pairs: beyond the inline capacity of the group key
            if self.1 { vec![tier, az, op] } else { vec![op, tier, az] }
        } else if self.0 % 3 != 2 {
            vec![op]
        } else if self.1 {
            vec![az, op]
        } else {
            vec![op, az]
        };
        v.into_iter()
    }
}

#[cfg(metrique_verif)]
enum Cong {
    Scripted(metrique_writer::sample::CongressSample<RecFormat, WordRng>),
    Default(metrique_writer::sample::CongressSample<RecFormat>),
}
#[cfg(metrique_verif)]
impl Cong {
    fn format(&mut self, e: &GroupEntry, o: &mut impl io::Write) -> Result<(), IoStreamError> {
        match self {
            Cong::Scripted(c) => c.format(e, o),
            Cong::Default(c) => c.format(e, o),
        }
    }
    fn verif_groups(&self) -> Vec<(Vec<(String, String)>, f32, f32, u32)> {
        match self {
            Cong::Scripted(c) => c.verif_groups(),
            Cong::Default(c) => c.verif_groups(),
        }
    }
    fn verif_end_interval(&mut self) {
        match self {
            Cong::Scripted(c) => c.verif_end_interval(),
            Cong::Default(c) => c.verif_end_interval(),
        }
    }
}

#[cfg(metrique_verif)]
fn check_congress(case: &CongressCase) -> CaseResult {
    let rec = RecFormat::default();
    let calls = rec.calls.clone();
    let rng = WordRng::new();
    use metrique_writer::sample::SampledFormatExt;
    let day = std::time::Duration::from_secs(86_400);
    let (mut c, target_eff, scripted) = match case.ctor % 5 {
        1 => (
            Cong::Default(CongressSampleBuilder::default().target_entries_per_interval(case.target).interval(day).build(rec)),
            case.target,
            false,
        ),
        2 => {
            let per_second = (case.target / 15).max(1);
            (Cong::Default(rec.sample_by_congress_at_fixed_entries_per_second(per_second)), per_second * 15, false)
        }
        3 => (Cong::Default(CongressSampleBuilder::default().interval(day).build(rec)), 1500, false),
        4 => (
            Cong::Scripted(CongressSampleBuilder::default().target_entries_per_interval(case.target).build_with_rng(rec, rng.clone())),
            case.target,
            true,
        ),
        _ => (
            Cong::Scripted(
                CongressSampleBuilder::default()
                    .interval(day)
                    .target_entries_per_interval(case.target)
                    .build_with_rng(rec, rng.clone()),
            ),
            case.target,
            true,
        ),
    };
    // the first format() call ends the (empty) start-up interval when the clock has advanced
    // past build time: make sure it has
    let t = std::time::Instant::now();
    while std::time::Instant::now() <= t {}
    let mut classes: Classes = vec![];
    let mut wi = 0usize;
    let mut prev_total: Option<u64> = None;
    let mut first_call = true;
    let mut ever_seen: std::collections::BTreeSet<usize> = Default::default();
    let mut evicted: std::collections::BTreeSet<usize> = Default::default();
    let mut flip = false;
    for (ii, vols) in case.intervals.iter().enumerate() {
        // state at the start of the interval
        let groups = c.verif_groups();
        let rate_of = |g: usize| -> Option<f32> {
            groups
                .iter()
                .find(|(k, ..)| is_group(k, g))
                .map(|x| x.2)
        };
        // one group per distinct identity: a group listed twice (e.g. once per pair order) would
        // have its volume split over two rate computations
        for g in 0..vols.len() {
            let n = groups.iter().filter(|(k, ..)| is_group(k, g)).count();
            vensure!(
                n <= 1,
                "congress:one-group-tracked-as-several",
                "interval {ii}: group g{g} is tracked {n} times: {groups:?}"
            );
            if n == 0 && ever_seen.contains(&g) {
                classes.push("group-evicted-after-silence");
                evicted.insert(g);
            }
        }
        // invariants of the rates computed at the last interval end
        if let Some(pt) = prev_total {
            let mut budget = 0f64;
            let mut pairs: Vec<(f32, f32)> = vec![];
            for (k, avg, rate, _) in &groups {
                vensure!(
                    rate.is_finite() && *rate > 0.0 && *rate <= 1.0,
                    "congress:rate-out-of-range",
                    "interval {ii}: group {k:?} has rate {rate}"
                );
                budget += *avg as f64 * *rate as f64;
                pairs.push((*avg, *rate));
            }
            if pt <= target_eff as u64 {
                for (k, _avg, rate, _) in &groups {
                    vensure!(
                        *rate == 1.0,
                        "congress:rate-not-1-under-target",
                        "interval {ii}: previous interval saw {pt} <= target {} but group {k:?} has rate {rate}",
                        target_eff
                    );
                }
                classes.push("under-target-interval");
            } else {
                vensure!(
                    budget <= target_eff as f64 * (1.0 + 1e-3),
                    "congress:budget-exceeded",
                    "interval {ii}: previous interval saw {pt} > target {}; sum(average x rate) = {budget}; groups={groups:?}",
                    target_eff
                );
                for (a1, r1) in &pairs {
                    for (a2, r2) in &pairs {
                        if a1 < a2 {
                            vensure!(
                                *r1 as f64 >= *r2 as f64 * (1.0 - 1e-5),
                                "congress:rarer-group-sampled-less",
                                "interval {ii}: average {a1} has rate {r1} but the more frequent average {a2} has rate {r2}"
                            );
                        }
                    }
                }
                classes.push("over-target-interval");
                let senate = target_eff as f32 / groups.len().max(1) as f32;
                let mut distinct: Vec<u32> = pairs.iter().map(|p| p.0.to_bits()).collect();
                distinct.sort();
                distinct.dedup();
                if distinct.len() >= 3 && pairs.iter().any(|p| p.0 < senate) {
                    classes.push("nt");
                }
            }
        }
        // feed the interval, interleaving groups round-robin
        let mut left = vols.clone();
        let mut total = 0u64;
        let mut known_rate: Vec<Option<f32>> = (0..vols.len()).map(rate_of).collect();
        loop {
            let mut any = false;
            for g in 0..left.len() {
                if left[g] == 0 {
                    continue;
                }
                any = true;
                // only the first few entries of a burst are checked individually
                let individually = vols[g] - left[g] < 3 || left[g] < 2;
                left[g] -= 1;
                total += 1;
                let w = case.words[wi % case.words.len()];
                wi += 1;
                rng.word.store(w as u64, Ordering::Relaxed);
                let d0 = rng.draws.load(Ordering::Relaxed);
                let n0 = if individually { calls.lock().unwrap().len() } else { 0 };
                flip = !flip;
                if evicted.remove(&g) {
                    classes.push("group-came-back-after-eviction");
                }
                ever_seen.insert(g);
                if g % 3 == 2 {
                    classes.push("two-pair-group-in-both-orders");
                }
                let r = no_panic("congress-format", || c.format(&GroupEntry(g, flip), &mut io::sink()))?;
                vensure!(r.is_ok(), "sample:format-error", "{r:?}");
                if first_call {
                    first_call = false;
                }
                if individually && !scripted {
                    // default rng: the draw is not ours; what remains decidable is that rate 1
                    // always emits and that an emitted entry carries the group's rate
                    let rate = known_rate[g].unwrap_or(1.0);
                    known_rate[g] = Some(rate);
                    let emitted = calls.lock().unwrap().len() - n0;
                    vensure!(
                        emitted <= 1 && (rate != 1.0 || emitted == 1),
                        "sample:decision-not-draw-le-rate",
                        "interval {ii} group g{g}: rate {rate}: emitted {emitted} time(s)"
                    );
                    if emitted == 1 {
                        let passed = *calls.lock().unwrap().last().unwrap();
                        vensure!(
                            passed == Some(rate.to_bits()),
                            "sample:rate-not-passed-on",
                            "group rate {rate} but the inner format received {passed:?}"
                        );
                    }
                    classes.push("default-rng-constructor");
                } else if individually {
                    let rate = known_rate[g].unwrap_or(1.0);
                    known_rate[g] = Some(rate);
                    let drew = rng.draws.load(Ordering::Relaxed) - d0;
                    let emitted = calls.lock().unwrap().len() - n0;
                    let draw = f32_draw(w as u64);
                    let expect = rate == 1.0 || draw <= rate;
                    vensure!(
                        emitted == expect as usize,
                        "sample:decision-not-draw-le-rate",
                        "interval {ii} group g{g}: rate {rate} draw {draw}: emitted {emitted}, expected {}",
                        expect as u8
                    );
                    vensure!(
                        drew <= 1,
                        "sample:more-than-one-draw",
                        "{drew} draws for one entry"
                    );
                    if expect {
                        let passed = *calls.lock().unwrap().last().unwrap();
                        vensure!(
                            passed == Some(rate.to_bits()),
                            "sample:rate-not-passed-on",
                            "group rate {rate} but the inner format received {passed:?}"
                        );
                    }
                    classes.push(if expect { "emitted" } else { "dropped" });
                }
            }
            if !any {
                break;
            }
        }
        calls.lock().unwrap().clear();
        c.verif_end_interval();
        prev_total = Some(total);
    }
    classes.sort();
    classes.dedup();
    Ok(classes)
}

#[cfg(not(metrique_verif))]
fn check_congress(_case: &CongressCase) -> CaseResult {
    Err(Fail::new("harness:hooks-off", "built without --cfg metrique_verif"))
}

/// black-box confirmation with the real clock (no hook): 1 ms intervals
fn congress_real_clock(ctx: &mut Ctx) {
    let mut t = Tally::new(
        "c12-congress-real-clock",
        "no hook: interval 2 ms ended by the real clock; 3 groups with volumes (heavy, medium, rare) well over target for 12 intervals; rates observed through the inner format (draw word 0 => always emitted). Oracle: every observed rate in (0,1], rare group's rate >= heavy group's rate in every interval, and after the first over-target interval the heavy group's rate < 1. A wall-clock hiccup can only merge intervals (still over target). Non-trivial = every history",
    );
    let histories = ctx.tier.pick(6, 60);
    let mut failure: Option<Fail> = None;
    for h in 0..histories {
        let rec = RecFormat::default();
        let calls = rec.calls.clone();
        let rng = WordRng::new();
        let target = 20 + (h as u32 % 5) * 10;
        let mut c = CongressSampleBuilder::default()
            .interval(std::time::Duration::from_millis(2))
            .target_entries_per_interval(target)
            .build_with_rng(rec, rng.clone());
        let mut heavy_below_one = false;
        for _iv in 0..12 {
            calls.lock().unwrap().clear();
            let mut rates: [Option<f32>; 3] = [None; 3];
            let t_pass = std::time::Instant::now();
            for (g, vol) in [(0usize, 400u32), (1, 60), (2, 2)] {
                for _ in 0..vol {
                    let n0 = calls.lock().unwrap().len();
                    let _ = c.format(&GroupEntry(g, false), &mut io::sink());
                    let l = calls.lock().unwrap();
                    if l.len() > n0 {
                        if let Some(b) = l[l.len() - 1] {
                            rates[g] = Some(f32::from_bits(b));
                        }
                    }
                }
            }
            for r in rates.iter().flatten() {
                if !(r.is_finite() && *r > 0.0 && *r <= 1.0) {
                    failure = Some(Fail::new("congress:rate-out-of-range", format!("rate {r}")));
                }
            }
            // the two rates belong to one rate computation only if no second rollover fell into
            // this pass: a pass that took longer than the interval is not compared (never failed)
            let one_computation = t_pass.elapsed() < std::time::Duration::from_micros(1500);
            if let (Some(h), Some(r)) = (rates[0], rates[2]) {
                if one_computation && (r as f64) < h as f64 * (1.0 - 1e-5) {
                    failure = Some(Fail::new(
                        "congress:rarer-group-sampled-less",
                        format!("rare group rate {r} < heavy group rate {h}"),
                    ));
                }
                if h < 1.0 {
                    heavy_below_one = true;
                }
            }
            std::thread::sleep(std::time::Duration::from_millis(3));
        }
        if !heavy_below_one && failure.is_none() {
            failure = Some(Fail::new(
                "congress:never-sampled-down",
                "12 intervals at 23x the target and the heavy group was never sampled below 1",
            ));
        }
        t.record(h as u64, &["nt"], || serde_json::json!({"target": target, "volumes": [400, 60, 2], "intervals": 12}));
        if failure.is_some() {
            break;
        }
    }
    ctx.push_custom(t.finish(&[]));
    if let Some(f) = failure {
        ctx.report_violation("c12-congress-real-clock", f, serde_json::json!({}), "real-clock history".into());
    }
}

pub fn run(ctx: &mut Ctx) {
    ctx.assume("the random draw is derived from the scripted rng words with the same rand 0.9 conversion the library uses (random::<f32>() / random::<f64>())");
    ctx.assume("congress intervals are ended through hook H4 (verif_end_interval); the real-clock path is only confirmed black-box on a handful of histories");
    ctx.assume("'up to floating-point rounding' for the congressional budget is taken as 1e-3 relative (f32 accumulation over <= 12 groups) and 1e-5 relative for monotonicity");
    let q = ctx.tier == Tier::Quick;
    let threads = ctx.tier.pick(8, 16);

    ctx.explore(
        SubCfg::new(
            "c12-fixed-fraction-decision",
            "FixedFractionSample over a recording SampledFormat with a scripted rng: rates k*2^-24 (so that draw == rate is reachable) and arbitrary rates in (0,1]; words chosen at the rate, one step below/above, and at random. Oracle: emitted exactly when draw <= rate (always at rate 1), exactly once, and the inner format receives the configured rate bit-for-bit. Non-trivial = a case with both an emitted and a dropped entry",
            if q { 300_000 } else { 4_000_000 },
        )
        .threads(threads)
        .mandatory(&["draw-equals-rate", "emitted", "dropped"]),
        arb_fixed_case,
        check_fixed,
    );

    ctx.explore(
        SubCfg::new(
            "c12-weight",
            "rates biased to 2^-k +-ulp, 1/k +-ulp, subnormals, the 2^-63 neighbourhood, uniform bits; through SampledEmf with a scripted rng; the weight is read from EMF Counts. Oracle (exact u128): floor/ceil of 1/r, saturation, and UNBIASEDNESS: alpha found by bisection over the 53-bit draw (53 format calls), weight_lo*alpha + weight_hi*(1-alpha) == 1/r within 1e-12 relative. Non-trivial = 1/r not an integer",
            if q { 200_000 } else { 3_000_000 },
        )
        .threads(threads)
        .mandatory(&["saturating", "integer-inverse", "expectation-checked"]),
        || arb_rate_bits_valid().prop_map(|rate_bits| RateCase { rate_bits }),
        |c: &RateCase| {
            let mut p = WeightProbe::new();
            check_weight_expectation(&mut p, f32::from_bits(c.rate_bits))
        },
    );

    ctx.explore(
        SubCfg::new(
            "c12-default-rng-adapter",
            "the stateless adapter DefaultRng<R> (what with_sampling() and the sample_by_* constructors use over ThreadRng), instantiated over a scripted stateless R: arbitrary rates x 1-8 draw words (full 64-bit words, words at the floor/ceiling switch of the rate). Oracle (differential against the explicit-rng path, which c12-weight decides exactly): SampledEmf over DefaultRng<R> writes byte-identical output to SampledEmf over R for the same word; FixedFractionSample over DefaultRng<R> emits iff draw <= rate; sample_by_fixed_fraction / FixedFractionSample::new (ThreadRng) hand on exactly the configured rate and always emit at rate 1; Emf::with_sampling() writes the same bytes as the explicit-rng path whenever 1/rate is an integer. Non-trivial = 1/rate not an integer and a word whose two 32-bit halves differ",
            if q { 30_000 } else { 600_000 },
        )
        .threads(threads)
        .mandatory(&["word-with-distinct-halves", "with-sampling-default-constructor"]),
        || {
            (arb_rate_bits_valid(), prop::collection::vec(prop_oneof![3 => any::<u64>(), 1 => any::<u32>().prop_map(|w| w as u64), 2 => (0u64..(1 << 53)).prop_map(|i| i << 11)], 1..8))
                .prop_map(|(rate_bits, words)| AdapterCase { rate_bits, words })
        },
        check_default_adapter,
    );

    if ctx.replay.is_none() {
        exhaustive_rates(ctx);
    }

    ctx.explore(
        SubCfg::new(
            "c12-common-weight",
            "valid multi-metric / multi-record entries x arbitrary rate x draw word: the weight n is measured on a probe entry with the same (rate, draw); the entry's records must equal RefEmf with every count = occurrences.saturating_mul(n). Non-trivial = >=2 metrics and n >= 2",
            if q { 20_000 } else { 500_000 },
        )
        .threads(threads),
        || {
            (crate::emfgen::arb_valid(true), arb_rate_bits_valid(), any::<u64>()).prop_map(
                |((cfg, entry), rate_bits, word)| CommonWeightCase {
                    entry,
                    cfg,
                    rate_bits,
                    word,
                },
            )
        },
        check_common_weight,
    );

    ctx.explore(
        SubCfg::new(
            "c12-congress",
            "histories of 1-40 intervals x 1-12 groups (keys of one or two pairs in both orders, group 5 = the empty key of an entry without sample-group fields, group 7 = three pairs), volumes from {0,1,small,bursts to 30 000} (groups appear, disappear past the TTL, burst), target 1-10 000, scripted draws; the sampler is built through build_with_rng, or through build() / sample_by_congress_at_fixed_entries_per_second(n) / a builder with only one of its two settings (default rng: per-entry decisions are then only checked at rate 1, the rates and the budget as always against the effective target). After every interval (hook H4): every rate finite and in (0,1]; all rates == 1 when the interval just ended saw <= target; otherwise sum(average x rate) <= target(1+1e-3) and average_a < average_b => rate_a >= rate_b(1-1e-5). Per entry: emitted iff rate == 1 or draw <= rate, at most one draw, the group's rate passed on. Non-trivial = over-target interval with >=3 distinct averages of which one is below the senate share",
            if q { 3_000 } else { 60_000 },
        )
        .threads(threads)
        .mandatory(&["under-target-interval", "over-target-interval", "emitted", "dropped", "group-evicted-after-silence", "group-came-back-after-eviction", "two-pair-group-in-both-orders", "default-rng-constructor"])
        .shrink_iters(300),
        || arb_congress_case(40, 12),
        check_congress,
    );

    if ctx.replay.is_none() {
        congress_real_clock(ctx);
    }
}
