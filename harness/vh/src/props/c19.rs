//! C19 — declaring or converting a unit never changes the physical quantity reported.

use crate::engine::*;
use crate::model::*;
use crate::reclog::*;
use metrique::unit_of_work::metrics;
use metrique_writer::value::{Distribution, Mean};
use metrique_writer_core::unit::{self, Convert, UnitTag, WithUnit};
use metrique_writer_core::{MetricFlags, MetricValue, Unit, Value, ValueWriter};
use proptest::prelude::*;
use serde::{Deserialize, Serialize};
use std::marker::PhantomData;
use std::time::Duration;

/// a metric value that declares unit `U` and writes exactly the given observations with it
struct Src<U>(Vec<Obs>, PhantomData<U>);
impl<U: UnitTag> Value for Src<U> {
    fn write(&self, w: impl ValueWriter) {
        w.metric(
            self.0.iter().map(|o| o.to_observation()),
            U::UNIT,
            [("k", "v")],
            MetricFlags::empty(),
        )
    }
}
impl<U: UnitTag> MetricValue for Src<U> {
    type Unit = U;
}
struct Src1<U>(Obs, PhantomData<U>);
impl<U: UnitTag> Value for Src1<U> {
    fn write(&self, w: impl ValueWriter) {
        w.metric([self.0.to_observation()], U::UNIT, [], MetricFlags::empty())
    }
}
impl<U: UnitTag> MetricValue for Src1<U> {
    type Unit = U;
}
/// promises `U` but writes another unit: mode 0 = another kind (`Count`/`Percent`), mode 1 = the
/// same kind at another scale (Seconds vs Milliseconds, Bytes vs Megabytes), mode 2 = the sibling
/// kind at the same scale (Bit vs Byte, Bit/s vs Bit), mode 3 = the unitless tag (or, under a
/// promise of None, milliseconds)
struct Liar<U>(u8, PhantomData<U>);
fn lie_about(u: Unit, mode: u8) -> Unit {
    use metrique_writer_core::unit::{NegativeScale as N, PositiveScale as P};
    let other_kind = if u == Unit::Count { Unit::Percent } else { Unit::Count };
    let nn = |s: N| if s == N::Milli { N::One } else { N::Milli };
    let pp = |s: P| if s == P::Kilo { P::Mega } else { P::Kilo };
    match (mode, u) {
        (1, Unit::Second(s)) => Unit::Second(nn(s)),
        (1, Unit::Bit(s)) => Unit::Bit(pp(s)),
        (1, Unit::Byte(s)) => Unit::Byte(pp(s)),
        (1, Unit::BitPerSecond(s)) => Unit::BitPerSecond(pp(s)),
        (1, Unit::BytePerSecond(s)) => Unit::BytePerSecond(pp(s)),
        (2, Unit::Bit(s)) => Unit::Byte(s),
        (2, Unit::Byte(s)) => Unit::Bit(s),
        (2, Unit::BitPerSecond(s)) => Unit::Bit(s),
        (2, Unit::BytePerSecond(s)) => Unit::Byte(s),
        // mode 3: the unitless tag is written although something else was promised; under a
        // promise of None a time unit is written (a conversion from None has ratio 1)
        (3, Unit::None) => Unit::Second(N::Milli),
        (3, _) => Unit::None,
        _ => other_kind,
    }
}
impl<U: UnitTag> Value for Liar<U> {
    fn write(&self, w: impl ValueWriter) {
        let other = lie_about(U::UNIT, self.0);
        assert!(other != U::UNIT);
        w.metric([metrique_writer_core::Observation::Unsigned(1)], other, [], MetricFlags::empty())
    }
}
impl<U: UnitTag> MetricValue for Liar<U> {
    type Unit = U;
}
struct Stringy<U>(PhantomData<U>, String);
impl<U: UnitTag> Value for Stringy<U> {
    fn write(&self, w: impl ValueWriter) {
        w.string(&self.1)
    }
}
/// the text a string value writes in this case: a word, the empty string, or text that LOOKS like a
/// number (the case's first observation printed in decimal / padded / scientific notation, or a
/// fixed numeric literal) - a string stays a string whatever it spells
fn text_for(obs: &[Obs]) -> String {
    let first = match obs.first() {
        Some(Obs::U(u)) => *u as f64,
        Some(Obs::Fl(f)) => f.0,
        Some(Obs::Rep { total, .. }) => total.0,
        None => 2.0,
    };
    let k = obs.len() + (first.to_bits() % 7) as usize;
    match k % 10 {
        0 => "text".to_string(),
        1 => String::new(),
        2 => format!("{first}"),
        3 => format!(" {first} "),
        4 => format!("{first:e}"),
        5 => "2".to_string(),
        6 => "1e3".to_string(),
        7 => "NaN".to_string(),
        8 => "-0.5".to_string(),
        _ => "4096".to_string(),
    }
}
impl<U: UnitTag> MetricValue for Stringy<U> {
    type Unit = U;
}

/// exact scale of a unit as (numerator, denominator) in its family's base (seconds / bits)
fn scale(u: Unit) -> Option<(u8, u128, u128)> {
    use metrique_writer_core::unit::{NegativeScale as N, PositiveScale as P};
    let p = |s: P| -> u128 {
        match s {
            P::One => 1,
            P::Kilo => 1_000,
            P::Mega => 1_000_000,
            P::Giga => 1_000_000_000,
            P::Tera => 1_000_000_000_000,
            _ => 0,
        }
    };
    Some(match u {
        Unit::Second(N::One) => (1, 1, 1),
        Unit::Second(N::Milli) => (1, 1, 1_000),
        Unit::Second(N::Micro) => (1, 1, 1_000_000),
        Unit::Bit(s) | Unit::BitPerSecond(s) => (2, p(s), 1),
        Unit::Byte(s) | Unit::BytePerSecond(s) => (2, 8 * p(s), 1),
        _ => return None,
    })
}

fn ulp_dist(a: f64, b: f64) -> u64 {
    if a.is_nan() && b.is_nan() {
        return 0;
    }
    if a == b {
        return 0;
    }
    if a.is_nan() || b.is_nan() || a.is_infinite() || b.is_infinite() {
        return u64::MAX;
    }
    let to_ord = |x: f64| -> i128 {
        let b = x.to_bits() as i64;
        (if b < 0 { i64::MIN - b } else { b }) as i128
    };
    (to_ord(a) - to_ord(b)).unsigned_abs() as u64
}

/// expected converted value from exact integer scales
fn expected_value(orig: f64, from: Unit, to: Unit) -> Option<f64> {
    let (ff, fnum, fden) = scale(from)?;
    let (tf, tnum, tden) = scale(to)?;
    if ff != tf {
        return None;
    }
    // orig * (fnum/fden) / (tnum/tden) = orig * (fnum*tden) / (fden*tnum)
    let num = fnum * tden;
    let den = fden * tnum;
    let g = gcd(num, den);
    Some(orig * ((num / g) as f64) / ((den / g) as f64))
}
fn gcd(a: u128, b: u128) -> u128 {
    if b == 0 { a } else { gcd(b, a % b) }
}

#[derive(Debug)]
struct Probe {
    kind: &'static str,
    from: Unit,
    to: Unit,
    input: Vec<Obs>,
    output: Vec<Rec>,
}

fn rec_of(v: &impl Value) -> Vec<Rec> {
    struct E<'a, V>(&'a V);
    impl<V: Value> metrique_writer_core::Entry for E<'_, V> {
        fn write<'a>(&'a self, w: &mut impl metrique_writer_core::EntryWriter<'a>) {
            w.value("x", self.0)
        }
    }
    record(&E(v)).recs
}

fn probe<F: UnitTag + Convert<T> + 'static, T: UnitTag + 'static>(obs: &[Obs], out: &mut Vec<Probe>) {
    let mk = |kind, input: Vec<Obs>, output| Probe {
        kind,
        from: F::UNIT,
        to: T::UNIT,
        input,
        output,
    };
    // 1. direct
    let w: WithUnit<Src<F>, T> = Src::<F>(obs.to_vec(), PhantomData).with_unit::<T>();
    out.push(mk("direct", obs.to_vec(), rec_of(&w)));
    // 2. distribution of single-observation values
    let d: Distribution<Src1<F>> = obs.iter().map(|o| Src1::<F>(o.clone(), PhantomData)).collect();
    out.push(mk("distribution", obs.to_vec(), rec_of(&d.with_unit::<T>())));
    // 3. mean
    let mut m = Mean::<F>::default();
    let mut total = 0.0f64;
    let mut n = 0u64;
    for o in obs.iter().take(4) {
        if let Obs::Fl(f) = o {
            m.record(f.0);
            total += f.0;
            n += 1;
        }
    }
    if n > 0 {
        out.push(mk(
            "mean",
            vec![Obs::Rep { total: F(total), occ: n }],
            rec_of(&m.with_unit::<T>()),
        ));
    }
    // 3b. a validating way into a Mean (own collector with its own unit check), an inline
    // distribution and a boxed value, converted; the remaining constructors, which do not depend
    // on the target unit, are probed once per source unit in `probe_from`
    {
        if let Some((total, n)) = mean_of(obs) {
            let srcs: Vec<Src1<F>> = obs.iter().map(|o| Src1::<F>(o.clone(), PhantomData)).collect();
            let recs = match Mean::<F>::try_new(srcs.iter()) {
                Ok(m) => rec_of(&m.with_unit::<T>()),
                Err(e) => vec![Rec::Value { name: "x".into(), val: RecVal::Error(e.to_string()) }],
            };
            out.push(mk("mean", vec![Obs::Rep { total: F(total), occ: n }], recs));
        }
        let d2: Distribution<Src1<F>, 2> = obs.iter().map(|o| Src1::<F>(o.clone(), PhantomData)).collect();
        out.push(mk("distribution", obs.to_vec(), rec_of(&d2.with_unit::<T>())));
        let boxed = Box::new(Src::<F>(obs.to_vec(), PhantomData));
        out.push(mk("direct", obs.to_vec(), rec_of(&boxed.with_unit::<T>())));
    }
    // 4. option
    let some: Option<Src<F>> = Some(Src::<F>(obs.to_vec(), PhantomData));
    out.push(mk("option-some", obs.to_vec(), rec_of(&some.with_unit::<T>())));
    let none: Option<Src<F>> = None;
    out.push(mk("option-none", vec![], rec_of(&none.with_unit::<T>())));
    // 5. error cases
    for mode in 0..4u8 {
        out.push(mk("liar", vec![], rec_of(&Liar::<F>(mode, PhantomData).with_unit::<T>())));
    }
    out.push(mk("string", vec![], rec_of(&Stringy::<F>(PhantomData, text_for(obs)).with_unit::<T>())));
    // the same through a distribution under a declared unit: the distribution itself has to notice
    for mode in 0..4u8 {
        let n = 1 + (mode as usize + obs.len()) % 3;
        let d0: metrique_writer::value::VecDistribution<Liar<F>> =
            (0..(1 + (n % 2))).map(|_| Liar::<F>(mode, PhantomData)).collect();
        out.push(mk("liar", vec![], rec_of(&d0.with_unit::<T>())));
    }
}

/// sum and occurrence count a Mean over these observations must hold (None: nothing recorded, or
/// the occurrence sum exceeds u64 - the library adds occurrences unchecked, outside the property)
fn mean_of(obs: &[Obs]) -> Option<(f64, u64)> {
    let mut total = 0.0f64;
    let mut occ: Option<u64> = Some(0);
    for o in obs {
        let (t, n) = match o {
            Obs::U(u) => (*u as f64, 1u64),
            Obs::Fl(f) => (f.0, 1),
            Obs::Rep { total, occ } => (total.0, *occ),
        };
        total += t;
        occ = occ.and_then(|x| x.checked_add(n));
    }
    occ.filter(|n| *n > 0).map(|n| (total, n))
}

/// constructors and containers that do not depend on a target unit: once per source unit
fn probe_from<F: UnitTag + 'static>(obs: &[Obs], out: &mut Vec<Probe>) {
    let mk = |kind, input: Vec<Obs>, output| Probe {
        kind,
        from: F::UNIT,
        to: F::UNIT,
        input,
        output,
    };
    let err_or = |r: Result<Mean<F>, metrique_writer_core::ValidationError>| match r {
        Ok(m) => rec_of(&m),
        Err(e) => vec![Rec::Value { name: "x".into(), val: RecVal::Error(e.to_string()) }],
    };
    if let Some((total, n)) = mean_of(obs) {
        let srcs: Vec<Src1<F>> = obs.iter().map(|o| Src1::<F>(o.clone(), PhantomData)).collect();
        let expect = vec![Obs::Rep { total: F(total), occ: n }];
        let mut m2 = Mean::<F>::default();
        let r2 = m2.try_extend(srcs.iter()).map(|()| m2);
        out.push(mk("mean", expect.clone(), err_or(r2)));
        let d: Distribution<Src1<F>> = obs.iter().map(|o| Src1::<F>(o.clone(), PhantomData)).collect();
        out.push(mk("mean", expect, err_or(d.try_to_mean())));
    }
    let mut d8: Distribution<Src1<F>, 8> = std::iter::empty().collect();
    for o in obs {
        d8.add(Src1::<F>(o.clone(), PhantomData));
    }
    out.push(mk("distribution", obs.to_vec(), rec_of(&d8)));
    let arc = std::sync::Arc::new(Src::<F>(obs.to_vec(), PhantomData));
    out.push(mk("arc", obs.to_vec(), rec_of(&arc)));
    // lying / string elements: bare distributions (inline and heap) and the Mean constructors
    for mode in 0..4u8 {
        let n = 1 + (mode as usize + obs.len()) % 3;
        let d: Distribution<Liar<F>> = (0..n).map(|_| Liar::<F>(mode, PhantomData)).collect();
        out.push(mk("liar", vec![], rec_of(&d)));
    }
    let ds: Distribution<Stringy<F>> = (0..(1 + obs.len() % 2)).map(|_| Stringy::<F>(PhantomData, text_for(obs))).collect();
    out.push(mk("string", vec![], rec_of(&ds)));
    let mode = (obs.len() % 4) as u8;
    let liars: Vec<Liar<F>> = (0..(1 + obs.len() % 3)).map(|_| Liar::<F>(mode, PhantomData)).collect();
    out.push(mk("liar", vec![], err_or(Mean::<F>::try_new(liars.iter()))));
    let mut m = Mean::<F>::default();
    let r = m.record_value(&liars[0]).map(|()| m);
    out.push(mk("liar", vec![], err_or(r)));
    let dl: Distribution<Liar<F>, 4> = (0..(1 + obs.len() % 3)).map(|_| Liar::<F>(mode, PhantomData)).collect();
    out.push(mk("liar", vec![], err_or(dl.try_to_mean())));
    out.push(mk("liar", vec![], rec_of(&dl)));
    let strs = [Stringy::<F>(PhantomData, text_for(obs))];
    out.push(mk("string", vec![], err_or(Mean::<F>::try_new(strs.iter()))));
}

fn probe_roundtrip<F: UnitTag + Convert<T> + 'static, T: UnitTag + Convert<F> + 'static>(
    obs: &[Obs],
    out: &mut Vec<Probe>,
) {
    let w: WithUnit<WithUnit<Src<F>, T>, F> = Src::<F>(obs.to_vec(), PhantomData).with_unit::<T>().with_unit::<F>();
    out.push(Probe {
        kind: "roundtrip",
        from: F::UNIT,
        to: T::UNIT,
        input: obs.to_vec(),
        output: rec_of(&w),
    });
}

macro_rules! cross {
    ($f:ident, $obs:expr, $out:expr; [$($a:ident),*]; $bs:tt) => { $( cross!(@row $f, $obs, $out; $a; $bs); )* };
    (@row $f:ident, $obs:expr, $out:expr; $a:ident; [$($b:ident),*]) => { $( $f::<unit::$a, unit::$b>($obs, $out); )* };
}

/// what a tag must mean, derived from its IDENTIFIER alone (CloudWatch's unit names and SI
/// prefixes, written out here - nothing of this comes from the library): (name, family, num, den)
fn tag_literal(ident: &str) -> Option<(String, u8, u128, u128)> {
    match ident {
        "None" => return Some(("None".into(), 0, 1, 1)),
        "Count" => return Some(("Count".into(), 0, 1, 1)),
        "Percent" => return Some(("Percent".into(), 0, 1, 1)),
        "Second" => return Some(("Seconds".into(), 1, 1, 1)),
        "Millisecond" => return Some(("Milliseconds".into(), 1, 1, 1_000)),
        "Microsecond" => return Some(("Microseconds".into(), 1, 1, 1_000_000)),
        _ => {}
    }
    let (base, per_second) = match ident.strip_suffix("PerSecond") {
        Some(b) => (b, true),
        None => (ident, false),
    };
    let (prefix, mult): (&str, u128) = if let Some(r) = base.strip_prefix("Kilo") {
        (r, 1_000)
    } else if let Some(r) = base.strip_prefix("Mega") {
        (r, 1_000_000)
    } else if let Some(r) = base.strip_prefix("Giga") {
        (r, 1_000_000_000)
    } else if let Some(r) = base.strip_prefix("Tera") {
        (r, 1_000_000_000_000)
    } else {
        (base, 1)
    };
    let (word, bits) = match prefix {
        "Byte" | "byte" => ("byte", 8u128),
        "Bit" | "bit" => ("bit", 1u128),
        _ => return None,
    };
    // "Kilobytes", "Bits/Second", "Terabits/Second" ...
    let scaled = &base[..base.len() - prefix.len()];
    let name = if scaled.is_empty() {
        format!("{}{}s", word[..1].to_uppercase(), &word[1..])
    } else {
        format!("{scaled}{word}s")
    };
    let name = if per_second { format!("{name}/Second") } else { name };
    Some((name, 2, bits * mult, 1))
}

macro_rules! tag_table {
    ($($a:ident),*) => { vec![ $( (stringify!($a), <unit::$a as UnitTag>::UNIT) ),* ] };
}

/// every tag's unit constant must carry the name and the scale its identifier promises
fn check_tag_table() -> Result<(), Fail> {
    let table = tag_table!(
        None, Count, Percent, Second, Millisecond, Microsecond, Byte, Kilobyte, Megabyte, Gigabyte, Terabyte, Bit, Kilobit,
        Megabit, Gigabit, Terabit, BytePerSecond, KilobytePerSecond, MegabytePerSecond, GigabytePerSecond,
        TerabytePerSecond, BitPerSecond, KilobitPerSecond, MegabitPerSecond, GigabitPerSecond, TerabitPerSecond
    );
    for (ident, u) in table {
        let Some((name, fam, num, den)) = tag_literal(ident) else {
            return Err(Fail::new("harness:tag-literal", format!("no literal for tag {ident}")));
        };
        if u.name() != name {
            return Err(Fail::new(
                "unit:wrong-unit-name",
                format!("tag unit::{ident} carries the unit name {:?}, its identifier promises {name:?}", u.name()),
            ));
        }
        if fam != 0 {
            match scale(u) {
                Some((f, n, d)) if f == fam && n * den == num * d => {}
                other => {
                    return Err(Fail::new(
                        "unit:quantity-changed",
                        format!("tag unit::{ident} has unit {u:?} with scale {other:?}, its identifier promises {num}/{den} in family {fam}"),
                    ));
                }
            }
        }
    }
    // the documented As<Unit> aliases must declare the unit their name says (tag idents above)
    macro_rules! alias_rows {
        ($($alias:ident => $tag:ident),* $(,)?) => {
            vec![$((stringify!($alias), stringify!($tag), {
                let v: unit::$alias<Src1<unit::None>> = Src1::<unit::None>(Obs::U(1), PhantomData).into();
                rec_of(&v)
            })),*]
        };
    }
    let rows = alias_rows!(
        AsNone => None, AsCount => Count, AsPercent => Percent, AsSeconds => Second, AsMilliseconds => Millisecond,
        AsMicroseconds => Microsecond, AsBytes => Byte, AsKilobytes => Kilobyte, AsMegabytes => Megabyte,
        AsGigabytes => Gigabyte, AsTerabytes => Terabyte, AsBits => Bit, AsKilobits => Kilobit, AsMegabits => Megabit,
        AsGigabits => Gigabit, AsTerabits => Terabit, AsBytesPerSecond => BytePerSecond,
        AsKilobytesPerSecond => KilobytePerSecond, AsMegabytesPerSecond => MegabytePerSecond,
        AsGigabytesPerSecond => GigabytePerSecond, AsTerabytesPerSecond => TerabytePerSecond,
        AsBitsPerSecond => BitPerSecond, AsKilobitsPerSecond => KilobitPerSecond, AsMegabitsPerSecond => MegabitPerSecond,
        AsGigabitsPerSecond => GigabitPerSecond, AsTerabitsPerSecond => TerabitPerSecond,
    );
    for (alias, tag, out) in rows {
        let want: String = tag_literal(tag).map(|t| t.0.to_string()).unwrap_or_default();
        match out.as_slice() {
            [Rec::Value { val: RecVal::Metric { unit, obs, .. }, .. }] if *unit == want && obs.len() == 1 => {}
            other => {
                return Err(Fail::new(
                    "unit:wrong-unit-name",
                    format!("unit::{alias}<V> over a unitless 1 wrote {other:?}, its name promises unit {want:?}"),
                ));
            }
        }
    }
    Ok(())
}

fn all_pairs(obs: &[Obs], out: &mut Vec<Probe>) {
    macro_rules! from_each {
        ($($t:ident),*) => { $( probe_from::<unit::$t>(obs, out); )* };
    }
    from_each!(
        None, Count, Percent, Second, Millisecond, Microsecond, Byte, Kilobyte, Megabyte, Gigabyte, Terabyte, Bit, Kilobit,
        Megabit, Gigabit, Terabit, BytePerSecond, KilobytePerSecond, MegabytePerSecond, GigabytePerSecond,
        TerabytePerSecond, BitPerSecond, KilobitPerSecond, MegabitPerSecond, GigabitPerSecond, TerabitPerSecond
    );
    cross!(probe, obs, out; [Second, Millisecond, Microsecond]; [Second, Millisecond, Microsecond]);
    cross!(probe_roundtrip, obs, out; [Second, Millisecond, Microsecond]; [Second, Millisecond, Microsecond]);
    cross!(probe, obs, out;
        [Byte, Kilobyte, Megabyte, Gigabyte, Terabyte, Bit, Kilobit, Megabit, Gigabit, Terabit,
         BytePerSecond, KilobytePerSecond, MegabytePerSecond, GigabytePerSecond, TerabytePerSecond,
         BitPerSecond, KilobitPerSecond, MegabitPerSecond, GigabitPerSecond, TerabitPerSecond];
        [Byte, Kilobyte, Megabyte, Gigabyte, Terabyte, Bit, Kilobit, Megabit, Gigabit, Terabit,
         BytePerSecond, KilobytePerSecond, MegabytePerSecond, GigabytePerSecond, TerabytePerSecond,
         BitPerSecond, KilobitPerSecond, MegabitPerSecond, GigabitPerSecond, TerabitPerSecond]);
    cross!(probe_roundtrip, obs, out;
        [Byte, Kilobyte, Megabyte, Gigabyte, Terabyte, Bit, Kilobit, Megabit, Gigabit, Terabit,
         BytePerSecond, KilobytePerSecond, MegabytePerSecond, GigabytePerSecond, TerabytePerSecond,
         BitPerSecond, KilobitPerSecond, MegabitPerSecond, GigabitPerSecond, TerabitPerSecond];
        [Byte, Kilobyte, Megabyte, Gigabyte, Terabyte, Bit, Kilobit, Megabit, Gigabit, Terabit,
         BytePerSecond, KilobytePerSecond, MegabytePerSecond, GigabytePerSecond, TerabytePerSecond,
         BitPerSecond, KilobitPerSecond, MegabitPerSecond, GigabitPerSecond, TerabitPerSecond]);
    cross!(probe, obs, out; [None];
        [None, Count, Percent, Second, Millisecond, Microsecond,
         Byte, Kilobyte, Megabyte, Gigabyte, Terabyte, Bit, Kilobit, Megabit, Gigabit, Terabit,
         BytePerSecond, KilobytePerSecond, MegabytePerSecond, GigabytePerSecond, TerabytePerSecond,
         BitPerSecond, KilobitPerSecond, MegabitPerSecond, GigabitPerSecond, TerabitPerSecond]);
}

fn obs_value(o: &Obs) -> (f64, u64, bool) {
    match o {
        Obs::U(u) => (*u as f64, 1, true),
        Obs::Fl(f) => (f.0, 1, false),
        Obs::Rep { total, occ } => (total.0, *occ, false),
    }
}

fn judge(p: &Probe) -> Result<Classes, Fail> {
    let sig = |what: &str| format!("unit:{what}");
    let ctx = || format!("{} {:?} -> {:?}: input {:?} output {:?}", p.kind, p.from, p.to, p.input, p.output);
    let val = match p.output.as_slice() {
        [Rec::Value { val, .. }] => val,
        other => return Err(Fail::new(sig("not-one-value"), format!("{} ({other:?})", ctx()))),
    };
    match p.kind {
        "liar" | "string" => {
            return match val {
                RecVal::Error(_) => Ok(vec!["error-case"]),
                other => Err(Fail::new(
                    sig("no-validation-error"),
                    format!("{}: expected a validation error, got {other:?}", ctx()),
                )),
            };
        }
        "option-none" => {
            return match val {
                RecVal::Nothing => Ok(vec![]),
                other => Err(Fail::new(sig("none-wrote-something"), format!("{}: {other:?}", ctx()))),
            };
        }
        _ => {}
    }
    if p.kind == "distribution" && p.input.is_empty() {
        return match val {
            RecVal::Nothing => Ok(vec![]),
            other => Err(Fail::new(sig("empty-distribution-wrote"), format!("{}: {other:?}", ctx()))),
        };
    }
    let (obs, unit, dims) = match val {
        RecVal::Metric { obs, unit, dims, .. } => (obs, unit, dims),
        other => return Err(Fail::new(sig("not-a-metric"), format!("{}: {other:?}", ctx()))),
    };
    let declared = if p.kind == "roundtrip" { p.from } else { p.to };
    if unit != declared.name() {
        return Err(Fail::new(
            sig("wrong-unit-name"),
            format!("{}: emitted unit {unit:?}, declared {:?}", ctx(), declared.name()),
        ));
    }
    if p.kind == "direct" && dims != &vec![("k".to_string(), "v".to_string())] {
        return Err(Fail::new(sig("dimensions-changed"), ctx()));
    }
    if obs.len() != p.input.len() {
        return Err(Fail::new(sig("observation-count"), ctx()));
    }
    let same_scale = p.kind == "roundtrip" || scale(p.from).is_none() || {
        let (_, a, b) = scale(p.from).unwrap();
        let (_, c, d) = scale(p.to).unwrap();
        a * d == b * c
    };
    let mut classes: Classes = vec![];
    for (i, (o, e)) in obs.iter().zip(p.input.iter()).enumerate() {
        let (ov, oocc, ounsigned) = obs_value(o);
        let (iv, iocc, iunsigned) = obs_value(e);
        if oocc != iocc {
            return Err(Fail::new(sig("occurrences-changed"), format!("{} (observation {i})", ctx())));
        }
        if matches!(o, Obs::Rep { .. }) != matches!(e, Obs::Rep { .. }) {
            return Err(Fail::new(sig("observation-kind-changed"), ctx()));
        }
        if same_scale && p.kind != "roundtrip" {
            // ratio 1: the number may not change (the property allows floating-point rounding only
            // where there is something to round; an Unsigned that comes back as the equal
            // Floating is the same quantity)
            let _ = (ounsigned, iunsigned);
            if !(ov == iv || (ov.is_nan() && iv.is_nan())) {
                return Err(Fail::new(
                    sig("changed-at-ratio-1"),
                    format!("{} (observation {i}): {o:?} vs {e:?}", ctx()),
                ));
            }
            continue;
        }
        if p.kind == "roundtrip" {
            // overflow / underflow of the intermediate value is not "rounding": out of scope
            let mid = expected_value(iv, p.from, p.to).unwrap();
            if iv.is_finite() && iv != 0.0 && (!mid.is_finite() || mid.abs() < 1e-290 || iv.abs() < 1e-290) {
                classes.push("roundtrip-out-of-range-skipped");
                continue;
            }
        }
        let expected = if p.kind == "roundtrip" {
            iv
        } else {
            expected_value(iv, p.from, p.to).unwrap()
        };
        let tol = if p.kind == "roundtrip" { 4 } else { 4 };
        // subnormal results lose relative precision: allow absolute slack of a few least
        // subnormal steps
        let ok = ulp_dist(ov, expected) <= tol
            || (expected.abs() < f64::MIN_POSITIVE * 4.0 && (ov - expected).abs() <= 5e-324 * 8.0)
            || (expected.is_infinite() && ov.is_infinite() && expected.signum() == ov.signum());
        if !ok {
            return Err(Fail::new(
                sig("quantity-changed"),
                format!(
                    "{} (observation {i}): emitted {ov:e}, expected {expected:e} ({} ulp apart)",
                    ctx(),
                    ulp_dist(ov, expected)
                ),
            ));
        }
        if matches!(e, Obs::Rep { .. }) || p.input.len() >= 2 {
            classes.push("nt");
        }
    }
    classes.push(match p.kind {
        "direct" => "kind-direct",
        "distribution" => "kind-distribution",
        "mean" => "kind-mean",
        "option-some" => "kind-option",
        "roundtrip" => "kind-roundtrip",
        _ => "kind-other",
    });
    Ok(classes)
}

#[derive(Clone, Debug, Serialize, Deserialize)]
pub struct Case {
    pub obs: Vec<Obs>,
}

fn arb_mag() -> impl Strategy<Value = Obs> {
    let f = prop_oneof![
        3 => prop::sample::select(vec![0.0f64, -0.0, 1.0, 0.5, 3.0, 1e-300, 5e-324, 1e300, f64::MAX, 9007199254740993.0, 0.1, 1e15, 123456.789]),
        3 => (-300i32..300, 1.0f64..10.0).prop_map(|(e, m)| m * 10f64.powi(e)),
        1 => any::<f64>(),
        1 => prop::sample::select(vec![f64::NAN, f64::INFINITY, f64::NEG_INFINITY]),
    ];
    prop_oneof![
        3 => arb_u64().prop_map(Obs::U),
        4 => f.clone().prop_map(|x| Obs::Fl(F(x))),
        3 => (f, arb_occ()).prop_map(|(t, occ)| Obs::Rep { total: F(t), occ }),
    ]
}

pub fn check(case: &Case) -> CaseResult {
    check_tag_table()?;
    let mut probes = vec![];
    no_panic("unit-conversion", || all_pairs(&case.obs, &mut probes))?;
    let mut classes: Classes = vec![];
    let mut pairs = std::collections::BTreeSet::new();
    for p in &probes {
        classes.extend(judge(p)?);
        if p.kind == "direct" {
            pairs.insert((p.from.name(), p.to.name()));
        }
    }
    if pairs.len() != 435 {
        return Err(Fail::new(
            "harness:pair-table",
            format!("expected 435 ordered pairs, instantiated {}", pairs.len()),
        ));
    }
    classes.push("all-435-pairs");
    classes.sort();
    classes.dedup();
    Ok(classes)
}

// ---------------------------------------------------------------------------------------------
// the #[metrics(unit = ..)] attribute and Duration defaults

#[metrics]
struct UnitAttrs {
    plain_duration: Duration,
    #[metrics(unit = unit::Second)]
    as_seconds: Duration,
    #[metrics(unit = unit::Microsecond)]
    as_micros: Duration,
    #[metrics(unit = unit::Megabyte)]
    megabytes: u64,
    #[metrics(unit = unit::Percent)]
    percent: f64,
    #[metrics(unit = unit::Kilobit)]
    opt_kilobits: Option<u32>,
}

#[derive(Clone, Debug, Serialize, Deserialize)]
pub struct AttrCase {
    pub secs: u64,
    pub nanos: u32,
    pub mb: u64,
    pub pct: F,
    pub kb: Option<u32>,
}

pub fn check_attr(c: &AttrCase) -> CaseResult {
    let d = Duration::new(c.secs, c.nanos);
    let m = UnitAttrs {
        plain_duration: d,
        as_seconds: d,
        as_micros: d,
        megabytes: c.mb,
        percent: c.pct.0,
        opt_kilobits: c.kb,
    };
    let closed = metrique::CloseValue::close(m);
    let log = record(&metrique::RootEntry::new(closed)).recs;
    let get = |n: &str| -> Option<&RecVal> {
        log.iter().find_map(|r| match r {
            Rec::Value { name, val } if name == n => Some(val),
            _ => None,
        })
    };
    let exact_secs = c.secs as f64 + c.nanos as f64 * 1e-9;
    let one = |n: &str, unit: &str, expected: f64, tol: u64| -> Result<(), Fail> {
        match get(n) {
            Some(RecVal::Metric { obs, unit: u, .. }) if obs.len() == 1 => {
                if u != unit {
                    return Err(Fail::new("unit:wrong-unit-name", format!("{n}: unit {u}, expected {unit}")));
                }
                let (v, occ, _) = obs_value(&obs[0]);
                if occ != 1 || ulp_dist(v, expected) > tol {
                    return Err(Fail::new(
                        "unit:quantity-changed",
                        format!("{n}: emitted {v:e} {u}, expected {expected:e} ({} ulp)", ulp_dist(v, expected)),
                    ));
                }
                Ok(())
            }
            other => Err(Fail::new("unit:not-one-value", format!("{n}: {other:?}"))),
        }
    };
    // Duration::as_secs_f64 is itself rounded: 2 roundings + the conversion => 6 ulp
    one("plain_duration", "Milliseconds", exact_secs * 1000.0, 6)?;
    one("as_seconds", "Seconds", exact_secs, 6)?;
    one("as_micros", "Microseconds", exact_secs * 1e6, 6)?;
    match get("megabytes") {
        Some(RecVal::Metric { obs, unit, .. }) if unit == "Megabytes" && obs == &vec![Obs::U(c.mb)] => {}
        other => return Err(Fail::new("unit:changed-at-ratio-1", format!("megabytes: {other:?}"))),
    }
    match get("percent") {
        Some(RecVal::Metric { obs, unit, .. })
            if unit == "Percent"
                && obs.len() == 1
                && (obs_value(&obs[0]).0.to_bits() == c.pct.0.to_bits() || (c.pct.0.is_nan() && obs_value(&obs[0]).0.is_nan())) => {}
        other => return Err(Fail::new("unit:changed-at-ratio-1", format!("percent: {other:?}"))),
    }
    match (c.kb, get("opt_kilobits")) {
        (None, None) | (None, Some(RecVal::Nothing)) => {}
        (Some(k), Some(RecVal::Metric { obs, unit, .. })) if unit == "Kilobits" && obs == &vec![Obs::U(k as u64)] => {}
        (k, other) => return Err(Fail::new("unit:option", format!("opt_kilobits {k:?}: {other:?}"))),
    }
    Ok(vec!["nt"])
}

pub fn run(ctx: &mut Ctx) {
    ctx.assume("the physical scale of a unit is taken from an own exact table (seconds per time unit; bits per bit/byte unit, the per-second variants having the same scale); conversions among the 20 bit/byte(/second) tags are all permitted by the type system and compared by scale only");
    ctx.assume("tolerance: 4 ulp for one conversion or a round trip (the library multiplies by one rounded f64 constant), exact (bit-identical, Unsigned stays Unsigned) when the ratio is 1; Duration fields allow 6 ulp because Duration::as_secs_f64 is itself rounded");
    let q = ctx.tier == Tier::Quick;
    ctx.explore(
        SubCfg::new(
            "c19-all-pairs",
            "each case = one observation list (0-4 observations: unsigned incl. 2^53+-1 and u64::MAX, floats log-uniform over 1e-300..1e300, subnormal, +-0, non-finite, repeated with occurrences 0..u64::MAX) pushed through ALL 435 ordered convertible pairs (3x3 time, 20x20 bit/byte(/s), None->26) x {WithUnit direct, Distribution, Mean, Option Some/None, A->B->A round trip (409 pairs), liar value (writes another kind / the same kind at another scale / the sibling kind at the same scale), string value (a word, the empty string, or numeric-looking text such as the first observation printed in decimal or scientific notation), each also as the elements of a Distribution of 1-3 values, bare and under a declared unit}. Oracle: exact integer scale table; emitted*scale(to) == original*scale(from) within 4 ulp, identical at ratio 1, occurrences and dimensions untouched, unit name = declared and every tag's unit constant carries the name and scale its identifier promises (own literal table), liar/string => validation error. Non-trivial = ratio != 1 with a repeated or multi-observation value",
            if q { 3_000 } else { 200_000 },
        )
        .threads(ctx.tier.pick(8, 16))
        .mandatory(&["all-435-pairs", "kind-mean", "kind-roundtrip", "error-case"]),
        || prop::collection::vec(arb_mag(), 0..5).prop_map(|obs| Case { obs }),
        check,
    );
    ctx.explore(
        SubCfg::new(
            "c19-metrics-attribute",
            "#[metrics(unit = ..)] on Duration (Second, Microsecond), u64 (Megabyte), f64 (Percent), Option<u32> (Kilobit) and an undeclared Duration: value/unit through close() + RootEntry; durations compared with secs+nanos*1e-9 scaled exactly. Non-trivial = every case",
            if q { 20_000 } else { 500_000 },
        )
        .threads(ctx.tier.pick(8, 16)),
        || {
            (
                prop_oneof![0u64..10, 0u64..100_000, any::<u32>().prop_map(|x| x as u64), 0u64..(1 << 53)],
                0u32..1_000_000_000,
                arb_u64(),
                arb_f64(),
                prop::option::of(any::<u32>()),
            )
                .prop_map(|(secs, nanos, mb, pct, kb)| AttrCase { secs, nanos, mb, pct, kb })
        },
        check_attr,
    );
}
