//! C15 — entry and value wrappers are transparent apart from their documented additions.

use crate::engine::*;
use crate::model::*;
use crate::reclog::*;
use crate::{vensure, vfail};
use metrique::RootEntry;
use metrique_core::InflectableEntry;
use metrique_writer::entry::WithGlobalDimensions;
use metrique_writer::format::FormatExt;
use metrique_writer::stream::EntryIoStreamExt;
use metrique_writer::test_util::TestFlagCtor;
use metrique_writer_core::format::Format;
use metrique_writer_core::value::{ForceFlag, FormattedValue, ValueFormatter, WithDimensions};
use metrique_writer_core::{BoxEntry, Entry, EntryIoStream, EntryWriter, IoStreamError, Value, ValueWriter};
use metrique_writer_format_emf::{HighStorageResolutionCtor, NoMetricCtor};
use proptest::prelude::*;
use serde::{Deserialize, Serialize};
use std::borrow::Cow;
use std::collections::HashSet;
use std::sync::{Arc, Mutex};

type Sg = Vec<(String, String)>;

#[derive(Clone, Copy, Debug, PartialEq, Eq, Serialize, Deserialize)]
pub enum ForceKind {
    HighRes,
    NoMetric,
    Test,
}

#[derive(Clone, Debug, PartialEq, Serialize, Deserialize)]
pub enum ELayer {
    Boxed,
    OptionSome,
    BoxPtr,
    ArcPtr,
    Ref,
    CowOwned,
    /// globals.merge(entry): the globals' items come first
    MergeGlobalsFirst(GenEntry),
    /// entry.merge(other): the other entry's items come last
    MergeOtherLast(GenEntry),
    MergeByRefGlobalsFirst(GenEntry),
    WithDims(Vec<(String, String)>),
    WithGlobalDims(Vec<(String, String)>, Vec<String>),
    Force(ForceKind),
    /// root an InflectableEntry adapter
    Rooted,
    /// ForceFlag / WithDimensions implemented as InflectableEntry, then rooted
    RootedForce(ForceKind),
    RootedWithDims(Vec<(String, String)>),
    /// the container impls of InflectableEntry (Option / Box / Arc / Cow / &T), then rooted
    RootedOption,
    RootedBox,
    RootedArc,
    RootedCow,
    RootedRef,
    /// an absent entry: nothing written, empty sample group, whatever was wrapped so far
    OptionNone,
    RootedOptionNone,
    /// a container / wrapper impl of InflectableEntry reached with a NON-identity name style
    /// (a `rename_all` parent): wrap 0 Option, 1 Box, 2 Arc, 3 Cow, 4 &T, 5 WithDimensions (no
    /// dimensions added); style 0 Pascal, 1 Snake, 2 Kebab, 3 a flatten prefix. The inner adapter
    /// marks every name and sample-group key with the style it was reached with.
    RootedStyled { wrap: u8, style: u8 },
}

/// `InflectableEntry` adapter over any `Entry` (for every name style)
#[derive(Clone)]
pub struct Infl<E>(pub E);
impl<NS: metrique_core::NameStyle, E: Entry> InflectableEntry<NS> for Infl<E> {
    fn write<'a>(&'a self, w: &mut impl EntryWriter<'a>) {
        self.0.write(w)
    }
    fn sample_group(&self) -> impl Iterator<Item = (Cow<'static, str>, Cow<'static, str>)> {
        self.0.sample_group()
    }
}

/// the four spellings handed to `NameStyle::Inflect`: the style in force picks one of them (and
/// puts its prefix chain in front), which is how the adapter below learns, at run time, with
/// which name style it was reached (the style types themselves are private to metrique-core)
pub struct TagId;
impl metrique_core::concat::ConstStr for TagId {
    const VAL: &'static str = "";
}
pub struct TagP;
impl metrique_core::concat::ConstStr for TagP {
    const VAL: &'static str = "P~";
}
pub struct TagS;
impl metrique_core::concat::ConstStr for TagS {
    const VAL: &'static str = "s~";
}
pub struct TagK;
impl metrique_core::concat::ConstStr for TagK {
    const VAL: &'static str = "k~";
}
pub struct TagPrefix;
impl metrique_core::concat::ConstStr for TagPrefix {
    const VAL: &'static str = "pre_";
}
fn style_tag(style: u8) -> &'static str {
    ["P~", "s~", "k~", "pre_"][style as usize % 4]
}

/// writer that marks names
struct TagNames<'w, W> {
    inner: &'w mut W,
    tag: Cow<'static, str>,
}
impl<'a, 'w, W: EntryWriter<'a>> EntryWriter<'a> for TagNames<'w, W> {
    fn timestamp(&mut self, t: std::time::SystemTime) {
        self.inner.timestamp(t)
    }
    fn value(&mut self, name: impl Into<Cow<'a, str>>, value: &(impl metrique_writer_core::Value + ?Sized)) {
        let n: Cow<'a, str> = name.into();
        self.inner.value(format!("{}{}", self.tag, n), value)
    }
    fn config(&mut self, config: &'a dyn metrique_writer_core::EntryConfig) {
        self.inner.config(config)
    }
}

/// `InflectableEntry` adapter that shows the name style it is reached with: every name and every
/// sample-group key gets the style's tag (and prefix chain) in front
#[derive(Clone)]
pub struct InflNs<E>(pub E);
impl<NS: metrique_core::NameStyle, E: Entry> InflectableEntry<NS> for InflNs<E> {
    fn write<'a>(&'a self, w: &mut impl EntryWriter<'a>) {
        let tag = metrique_core::concat::const_str_value::<NS::Inflect<TagId, TagP, TagS, TagK>>();
        self.0.write(&mut TagNames { inner: w, tag })
    }
    fn sample_group(&self) -> impl Iterator<Item = (Cow<'static, str>, Cow<'static, str>)> {
        let tag = metrique_core::concat::const_str_value::<NS::Inflect<TagId, TagP, TagS, TagK>>();
        self.0.sample_group().map(move |(k, v)| (Cow::Owned(format!("{tag}{k}")), v))
    }
}

/// what a `rename_all` / `prefix` parent does: reach the child with another name style
macro_rules! to_style {
    ($name:ident, $proj:ty) => {
        struct $name<T>(T);
        impl<NS: metrique_core::NameStyle, T: InflectableEntry<$proj>> InflectableEntry<NS> for $name<T> {
            fn write<'a>(&'a self, w: &mut impl EntryWriter<'a>) {
                <T as InflectableEntry<$proj>>::write(&self.0, w)
            }
            fn sample_group(&self) -> impl Iterator<Item = (Cow<'static, str>, Cow<'static, str>)> {
                <T as InflectableEntry<$proj>>::sample_group(&self.0)
            }
        }
    };
}
to_style!(ToPascal, NS::PascalCase);
to_style!(ToSnake, NS::SnakeCase);
to_style!(ToKebab, NS::KebabCase);
to_style!(ToPrefixed, NS::AppendPrefix<TagPrefix>);

/// BoxEntry is Send but not Sync; the harness only ever uses one thread per case
struct SyncBox(BoxEntry);
unsafe impl Sync for SyncBox {}
impl Entry for SyncBox {
    fn write<'a>(&'a self, w: &mut impl EntryWriter<'a>) {
        self.0.write(w)
    }
    fn sample_group(&self) -> impl Iterator<Item = (Cow<'static, str>, Cow<'static, str>)> {
        self.0.sample_group()
    }
}

#[derive(Clone)]
struct CowEntry(Arc<SyncBox>);
impl Entry for CowEntry {
    fn write<'a>(&'a self, w: &mut impl EntryWriter<'a>) {
        self.0.write(w)
    }
    fn sample_group(&self) -> impl Iterator<Item = (Cow<'static, str>, Cow<'static, str>)> {
        self.0.sample_group()
    }
}

fn dims_cow(d: &[(String, String)]) -> Vec<(Cow<'static, str>, Cow<'static, str>)> {
    d.iter()
        .map(|(k, v)| (Cow::Owned(k.clone()), Cow::Owned(v.clone())))
        .collect()
}

fn deny(d: &[String]) -> HashSet<Cow<'static, str>> {
    d.iter().map(|s| Cow::Owned(s.clone())).collect()
}

/// which public route builds a wrapper in this case: a pure function of the wrapper's own data
fn route_of(d: &[(String, String)]) -> usize {
    d.len() + d.iter().map(|(k, v)| k.len() + 2 * v.len()).sum::<usize>()
}

/// `WithDimensions` through every public way of building one - they must all be the same wrapper:
/// new_with_dimensions; From + add_dimension; new_const + add_dimension; decoy dimensions +
/// clear_dimensions + add_dimension; built around `()` and moved onto the value with map_value
fn with_dims<V, const N: usize>(v: V, d: &[(String, String)]) -> WithDimensions<V, N> {
    match route_of(d) % 5 {
        0 => WithDimensions::<V, N>::new_with_dimensions(v, dims_cow(d)),
        1 => {
            let mut w = WithDimensions::<V, N>::from(v);
            for (k, i) in dims_cow(d) {
                w.add_dimension(k, i);
            }
            w
        }
        2 => {
            let mut w = WithDimensions::<V, N>::new_const(v);
            for (k, i) in dims_cow(d) {
                w.add_dimension(k, i);
            }
            w
        }
        3 => {
            let mut w = WithDimensions::<V, N>::new_with_dimensions(v, [("Decoy", "x"), ("Decoy2", "y")]);
            w.clear_dimensions();
            for (k, i) in dims_cow(d) {
                w.add_dimension(k, i);
            }
            w
        }
        _ => {
            let cell = std::cell::RefCell::new(Some(v));
            WithDimensions::<(), N>::new_with_dimensions((), dims_cow(d)).map_value(|()| cell.borrow_mut().take().unwrap())
        }
    }
}

/// the same for `WithGlobalDimensions`
fn with_global_dims<E, const N: usize>(e: E, d: &[(String, String)], dl: &[String]) -> WithGlobalDimensions<E, N> {
    match route_of(d) % 4 {
        0 => WithGlobalDimensions::<E, N>::new_with_global_dimensions(e, dims_cow(d), deny(dl)),
        1 => {
            let mut w = WithGlobalDimensions::<E, N>::new_with_global_dimensions(e, [("Decoy", "x")], deny(dl));
            w.clear_global_dimensions();
            for (k, i) in dims_cow(d) {
                w.add_global_dimension(k, i);
            }
            w
        }
        2 if dl.is_empty() => {
            let mut w = WithGlobalDimensions::<E, N>::from(e);
            for (k, i) in dims_cow(d) {
                w.add_global_dimension(k, i);
            }
            w
        }
        3 if dl.is_empty() => {
            // a deny list that is cleared again denies nothing - not even the names it listed
            let names: Vec<String> = d.iter().map(|(k, _)| k.clone()).collect();
            let mut w = WithGlobalDimensions::<E, N>::new_with_global_dimensions(e, dims_cow(d), deny(&names));
            w.clear_global_dimensions_denylist();
            w
        }
        _ => WithGlobalDimensions::<E, N>::new_with_global_dimensions(e, dims_cow(d), deny(dl)),
    }
}

/// `ForceFlag` built directly or around `()` and moved onto the value (map_value / map_value_ref)
fn forced<V, F: metrique_writer_core::value::FlagConstructor>(v: V, route: usize) -> ForceFlag<V, F> {
    match route % 3 {
        0 => ForceFlag::<V, F>::from(v),
        1 => {
            let cell = std::cell::RefCell::new(Some(v));
            ForceFlag::<(), F>::from(()).map_value(|()| cell.borrow_mut().take().unwrap())
        }
        _ => {
            let cell = std::cell::RefCell::new(Some(v));
            ForceFlag::<(), F>::from(()).map_value_ref(|()| cell.borrow_mut().take().unwrap())
        }
    }
}

/// apply one wrapper layer; `BoxEntry` is only the type eraser between layers (boxing itself is
/// one of the wrappers under test and documented as transparent)
fn apply(layer: &ELayer, e: BoxEntry) -> BoxEntry {
    match layer {
        ELayer::Boxed => BoxEntry::new(e),
        ELayer::OptionSome => BoxEntry::new(Some(e)),
        ELayer::BoxPtr => BoxEntry::new(Box::new(e)),
        ELayer::ArcPtr => BoxEntry::new(Arc::new(SyncBox(e))),
        ELayer::Ref => {
            // `&T: Entry` needs a reference that lives as long as the write: keep referent and
            // reference together
            struct Holder {
                r: &'static BoxEntry,
                _e: Box<BoxEntry>,
            }
            unsafe impl Send for Holder {}
            impl Entry for Holder {
                fn write<'a>(&'a self, w: &mut impl EntryWriter<'a>) {
                    <&BoxEntry as Entry>::write(&self.r, w);
                }
                fn sample_group(&self) -> impl Iterator<Item = (Cow<'static, str>, Cow<'static, str>)> {
                    <&BoxEntry as Entry>::sample_group(&self.r)
                }
            }
            let b = Box::new(e);
            // SAFETY: the box is never moved out of or dropped before the holder
            let r: &'static BoxEntry = unsafe { &*(&*b as *const BoxEntry) };
            BoxEntry::new(Holder { r, _e: b })
        }
        ELayer::CowOwned => {
            let c: Cow<'static, CowEntry> = Cow::Owned(CowEntry(Arc::new(SyncBox(e))));
            BoxEntry::new(c)
        }
        ELayer::MergeGlobalsFirst(g) => BoxEntry::new(OwnedPrepared::new(g.clone()).merge(e)),
        ELayer::MergeOtherLast(g) => BoxEntry::new(e.merge(OwnedPrepared::new(g.clone()))),
        ELayer::MergeByRefGlobalsFirst(g) => {
            struct Holder(OwnedPrepared, BoxEntry);
            impl Entry for Holder {
                fn write<'a>(&'a self, w: &mut impl EntryWriter<'a>) {
                    // MergedRef is created inside so that the references stay valid
                    let m = self.0.merge_by_ref(&self.1);
                    // SAFETY-free trick is impossible (m is a local): write the two halves the
                    // way MergedRef::write documents, but through the real type for 'a == local
                    write_merged_ref(&m, w, &self.0, &self.1);
                }
                fn sample_group(&self) -> impl Iterator<Item = (Cow<'static, str>, Cow<'static, str>)> {
                    self.0
                        .merge_by_ref(&self.1)
                        .sample_group()
                        .collect::<Vec<_>>()
                        .into_iter()
                }
            }
            BoxEntry::new(Holder(OwnedPrepared::new(g.clone()), e))
        }
        ELayer::WithDims(d) => BoxEntry::new(with_dims::<_, 2>(e, d)),
        ELayer::WithGlobalDims(d, dl) => BoxEntry::new(with_global_dims::<_, 1>(e, d, dl)),
        ELayer::Force(ForceKind::HighRes) => BoxEntry::new(ForceFlag::<_, HighStorageResolutionCtor>::from(e)),
        ELayer::Force(ForceKind::NoMetric) => BoxEntry::new(ForceFlag::<_, NoMetricCtor>::from(e)),
        ELayer::Force(ForceKind::Test) => BoxEntry::new(ForceFlag::<_, TestFlagCtor>::from(e)),
        ELayer::Rooted => BoxEntry::new(RootEntry::new(Infl(e))),
        ELayer::RootedForce(ForceKind::HighRes) => {
            BoxEntry::new(RootEntry::new(ForceFlag::<_, HighStorageResolutionCtor>::from(Infl(e))))
        }
        ELayer::RootedForce(ForceKind::NoMetric) => {
            BoxEntry::new(RootEntry::new(ForceFlag::<_, NoMetricCtor>::from(Infl(e))))
        }
        ELayer::RootedForce(ForceKind::Test) => {
            BoxEntry::new(RootEntry::new(ForceFlag::<_, TestFlagCtor>::from(Infl(e))))
        }
        ELayer::RootedWithDims(d) => BoxEntry::new(RootEntry::new(
            WithDimensions::<_, 1>::new_with_dimensions(Infl(e), dims_cow(d)),
        )),
        ELayer::RootedOption => BoxEntry::new(RootEntry::new(Some(Infl(e)))),
        ELayer::RootedBox => BoxEntry::new(RootEntry::new(Box::new(Infl(e)))),
        ELayer::RootedArc => BoxEntry::new(RootEntry::new(Arc::new(Infl(SyncBox(e))))),
        ELayer::RootedCow => {
            let c: Cow<'static, Infl<CowEntry>> = Cow::Owned(Infl(CowEntry(Arc::new(SyncBox(e)))));
            BoxEntry::new(RootEntry::new(c))
        }
        ELayer::RootedRef => {
            struct Holder {
                rooted: RootEntry<&'static Infl<SyncBox>>,
                _e: Box<Infl<SyncBox>>,
            }
            impl Entry for Holder {
                fn write<'a>(&'a self, w: &mut impl EntryWriter<'a>) {
                    self.rooted.write(w)
                }
                fn sample_group(&self) -> impl Iterator<Item = (Cow<'static, str>, Cow<'static, str>)> {
                    self.rooted.sample_group()
                }
            }
            let b = Box::new(Infl(SyncBox(e)));
            // SAFETY: the box is never moved out of or dropped before the holder
            let r: &'static Infl<SyncBox> = unsafe { &*(&*b as *const Infl<SyncBox>) };
            BoxEntry::new(Holder { rooted: RootEntry::new(r), _e: b })
        }
        ELayer::RootedStyled { wrap, style } => {
            macro_rules! styled {
                ($to:ident) => {{
                    match wrap % 6 {
                        0 => BoxEntry::new(RootEntry::new($to(Some(InflNs(e))))),
                        1 => BoxEntry::new(RootEntry::new($to(Box::new(InflNs(e))))),
                        2 => BoxEntry::new(RootEntry::new($to(Arc::new(InflNs(SyncBox(e)))))),
                        3 => {
                            let c: Cow<'static, InflNs<CowEntry>> = Cow::Owned(InflNs(CowEntry(Arc::new(SyncBox(e)))));
                            BoxEntry::new(RootEntry::new($to(c)))
                        }
                        4 => {
                            let b: &'static InflNs<SyncBox> = Box::leak(Box::new(InflNs(SyncBox(e))));
                            BoxEntry::new(RootEntry::new($to(b)))
                        }
                        _ => BoxEntry::new(RootEntry::new($to(WithDimensions::<_, 1>::new_with_dimensions(InflNs(e), Vec::<(Cow<'static, str>, Cow<'static, str>)>::new())))),
                    }
                }};
            }
            match style % 4 {
                0 => styled!(ToPascal),
                1 => styled!(ToSnake),
                2 => styled!(ToKebab),
                _ => styled!(ToPrefixed),
            }
        }
        ELayer::OptionNone => {
            drop(e);
            BoxEntry::new(None::<BoxEntry>)
        }
        ELayer::RootedOptionNone => {
            drop(e);
            BoxEntry::new(RootEntry::new(None::<Infl<BoxEntry>>))
        }
    }
}

/// `MergedRef<'x, A, B>: Entry` requires `&'a self` to write for `'a`; with a local `MergedRef`
/// that lifetime cannot be named, so the merged view is materialised into a RecLog and replayed.
fn write_merged_ref<'a, A: Entry, B: Entry>(
    m: &metrique_writer_core::entry::MergedRef<'_, A, B>,
    w: &mut impl EntryWriter<'a>,
    a: &'a A,
    b: &'a B,
) {
    // The real MergedRef is exercised here: record what it writes ...
    let via_merged = record(m);
    // ... and compare with writing the halves; a difference is surfaced by writing a marker
    // value that the oracle will not expect.
    let mut direct = RecLog::default();
    a.write(&mut direct);
    b.write(&mut direct);
    if via_merged != direct {
        w.value("__MERGED_REF_DIFFERS__", "1");
    }
    a.write(w);
    b.write(w);
}

fn merge_flags(a: FlagG, f: ForceKind) -> FlagG {
    let b = match f {
        ForceKind::HighRes => FlagG::HighRes,
        ForceKind::NoMetric => FlagG::NoMetric,
        ForceKind::Test => FlagG::Foreign,
    };
    match (a, b) {
        (FlagG::None, x) => x,
        (FlagG::NoMetric, _) | (_, FlagG::NoMetric) => FlagG::NoMetric,
        (FlagG::HighRes, FlagG::HighRes) => FlagG::HighRes,
        (x, _) => x,
    }
}

/// can this force kind be merged with the flags the entry already carries? (merging flags of
/// different families is a documented panic)
fn force_compatible(log: &[Rec], f: ForceKind) -> bool {
    log.iter().all(|r| match r {
        Rec::Value {
            val: RecVal::Metric { flags, .. },
            ..
        } => {
            let k = flag_kind_dbg(flags);
            match (k, f) {
                (FlagG::None, _) => true,
                (FlagG::Foreign, _) => false,
                (_, ForceKind::Test) => false,
                _ => true,
            }
        }
        _ => true,
    })
}

/// the documented effect of a layer on (call log, sample group)
fn model(layer: &ELayer, log: Vec<Rec>, sg: Sg) -> (Vec<Rec>, Sg) {
    let add_dims = |log: Vec<Rec>, d: &[(String, String)], denied: &[String]| -> Vec<Rec> {
        log.into_iter()
            .map(|r| match r {
                Rec::Value {
                    name,
                    val:
                        RecVal::Metric {
                            obs,
                            unit,
                            mut dims,
                            flags,
                        },
                } => {
                    if !denied.contains(&name) {
                        dims.extend(d.iter().cloned());
                    }
                    Rec::Value {
                        name,
                        val: RecVal::Metric {
                            obs,
                            unit,
                            dims,
                            flags,
                        },
                    }
                }
                other => other,
            })
            .collect()
    };
    let force = |log: Vec<Rec>, f: ForceKind| -> Vec<Rec> {
        log.into_iter()
            .map(|r| match r {
                Rec::Value {
                    name,
                    val:
                        RecVal::Metric {
                            obs,
                            unit,
                            dims,
                            flags,
                        },
                } => Rec::Value {
                    name,
                    val: RecVal::Metric {
                        obs,
                        unit,
                        dims,
                        flags: format!("{:?}", merge_flags(flag_kind_dbg(&flags), f)),
                    },
                },
                other => other,
            })
            .collect()
    };
    match layer {
        ELayer::Boxed
        | ELayer::OptionSome
        | ELayer::BoxPtr
        | ELayer::ArcPtr
        | ELayer::Ref
        | ELayer::CowOwned
        | ELayer::Rooted
        | ELayer::RootedOption
        | ELayer::RootedBox
        | ELayer::RootedArc
        | ELayer::RootedCow
        | ELayer::RootedRef => (log, sg),
        ELayer::OptionNone | ELayer::RootedOptionNone => (vec![], vec![]),
        ELayer::RootedStyled { style, .. } => {
            let tag = style_tag(*style);
            let log: Vec<Rec> = log
                .into_iter()
                .map(|r| match r {
                    Rec::Value { name, val } => Rec::Value { name: format!("{tag}{name}"), val },
                    other => other,
                })
                .collect();
            let sg = sg.into_iter().map(|(k, v)| (format!("{tag}{k}"), v)).collect();
            (log, sg)
        }
        ELayer::MergeGlobalsFirst(g) | ELayer::MergeByRefGlobalsFirst(g) => {
            let p = g.prepare();
            let mut l = record(&p).recs;
            l.extend(log);
            let mut s = sample_group_of(&p);
            s.extend(sg);
            (l, s)
        }
        ELayer::MergeOtherLast(g) => {
            let p = g.prepare();
            let mut l = log;
            l.extend(record(&p).recs);
            let mut s = sg;
            s.extend(sample_group_of(&p));
            (l, s)
        }
        ELayer::WithDims(d) | ELayer::RootedWithDims(d) => (add_dims(log, d, &[]), sg),
        ELayer::WithGlobalDims(d, dl) => (add_dims(log, d, dl), sg),
        ELayer::Force(f) | ELayer::RootedForce(f) => (force(log, *f), sg),
    }
}

/// compare logs with flags normalised to their kind
fn normalise(log: &[Rec]) -> Vec<Rec> {
    log.iter()
        .map(|r| match r {
            Rec::Value {
                name,
                val:
                    RecVal::Metric {
                        obs,
                        unit,
                        dims,
                        flags,
                    },
            } => Rec::Value {
                name: name.clone(),
                val: RecVal::Metric {
                    obs: obs.clone(),
                    unit: unit.clone(),
                    dims: dims.clone(),
                    flags: format!("{:?}", flag_kind_dbg(flags)),
                },
            },
            other => other.clone(),
        })
        .collect()
}

fn flag_kind_dbg(s: &str) -> FlagG {
    // model-produced strings are the Debug of FlagG itself
    match s {
        "None" => FlagG::None,
        "HighRes" => FlagG::HighRes,
        "NoMetric" => FlagG::NoMetric,
        "Foreign" => FlagG::Foreign,
        other => flag_kind(other),
    }
}

#[derive(Clone, Debug, Serialize, Deserialize)]
pub struct EntryCase {
    pub entry: GenEntry,
    pub layers: Vec<ELayer>,
}

fn layer_class(l: &ELayer) -> &'static str {
    match l {
        ELayer::Boxed => "layer-boxed",
        ELayer::OptionSome => "layer-option",
        ELayer::BoxPtr => "layer-box",
        ELayer::ArcPtr => "layer-arc",
        ELayer::Ref => "layer-ref",
        ELayer::CowOwned => "layer-cow",
        ELayer::MergeGlobalsFirst(_) => "layer-merge",
        ELayer::MergeOtherLast(_) => "layer-merge-other-last",
        ELayer::MergeByRefGlobalsFirst(_) => "layer-merge-by-ref",
        ELayer::WithDims(_) => "layer-with-dimensions",
        ELayer::WithGlobalDims(..) => "layer-with-global-dimensions",
        ELayer::Force(_) => "layer-force-flag",
        ELayer::Rooted => "layer-root-entry",
        ELayer::RootedForce(_) => "layer-inflectable-force-flag",
        ELayer::RootedWithDims(_) => "layer-inflectable-with-dimensions",
        ELayer::RootedOption => "layer-inflectable-option",
        ELayer::RootedBox => "layer-inflectable-box",
        ELayer::RootedArc => "layer-inflectable-arc",
        ELayer::RootedCow => "layer-inflectable-cow",
        ELayer::RootedRef => "layer-inflectable-ref",
        ELayer::OptionNone => "layer-option-none",
        ELayer::RootedOptionNone => "layer-inflectable-option-none",
        ELayer::RootedStyled { .. } => "layer-inflectable-container-under-a-name-style",
    }
}

/// which wrapper lost the sample group (root-cause signature)
fn sg_sig(layers: &[ELayer]) -> String {
    for l in layers {
        match l {
            ELayer::Force(_) => return "sample-group-lost:ForceFlag-entry".into(),
            ELayer::WithDims(_) => return "sample-group-lost:WithDimensions-entry".into(),
            ELayer::WithGlobalDims(..) => return "sample-group-lost:WithGlobalDimensions".into(),
            ELayer::RootedForce(_) => return "sample-group-lost:ForceFlag-inflectable".into(),
            ELayer::RootedWithDims(_) => return "sample-group-lost:WithDimensions-inflectable".into(),
            ELayer::RootedOption | ELayer::RootedBox | ELayer::RootedArc | ELayer::RootedCow | ELayer::RootedRef | ELayer::RootedStyled { .. } => {
                return "sample-group-lost:inflectable-container".into();
            }
            _ => {}
        }
    }
    "sample-group-lost:other".into()
}

pub fn check_entry(case: &EntryCase) -> CaseResult {
    let base = OwnedPrepared::new(case.entry.clone());
    let base_log = record(&base);
    let base_sg = sample_group_of(&base);
    let mut exp_log = base_log.recs.clone();
    let mut exp_sg = base_sg.clone();
    let mut wrapped: BoxEntry = BoxEntry::new(base);
    for l in &case.layers {
        if let ELayer::Force(f) | ELayer::RootedForce(f) = l {
            if !force_compatible(&exp_log, *f) {
                continue; // merging flags of different families is a documented panic
            }
        }
        if let ELayer::MergeGlobalsFirst(g) | ELayer::MergeOtherLast(g) | ELayer::MergeByRefGlobalsFirst(g) = l {
            // later Force layers must stay compatible with the merged-in entry too
            let _ = g;
        }
        let (l2, s2) = model(l, exp_log, exp_sg);
        exp_log = l2;
        exp_sg = s2;
        let l = l.clone();
        wrapped = no_panic("wrapper-construct", move || apply(&l, wrapped))?;
    }
    let got = no_panic("wrapper-write", || record(&wrapped))?;
    let got_sg = no_panic("wrapper-sample-group", || sample_group_of(&wrapped))?;
    let gn = normalise(&got.recs);
    let en = normalise(&exp_log);
    if gn != en {
        let first = gn
            .iter()
            .zip(en.iter())
            .position(|(a, b)| a != b)
            .unwrap_or(gn.len().min(en.len()));
        vfail!(
            "wrapper-not-transparent",
            "layers {:?}: call sequence differs at item {first}\n got={:?}\n exp={:?}",
            case.layers.iter().map(layer_class).collect::<Vec<_>>(),
            gn.get(first),
            en.get(first)
        );
    }
    let sorted = |v: &Sg| {
        let mut v = v.clone();
        v.sort();
        v
    };
    if sorted(&got_sg) != sorted(&exp_sg) {
        vfail!(
            sg_sig(&case.layers),
            "layers {:?}: sample group {:?}, expected {:?}",
            case.layers.iter().map(layer_class).collect::<Vec<_>>(),
            got_sg,
            exp_sg
        );
    }
    let mut classes: Classes = case.layers.iter().map(layer_class).collect();
    let mut interesting = !base_sg.is_empty();
    for r in &base_log.recs {
        match r {
            Rec::Value { val: RecVal::Error(_), .. } => {
                interesting = true;
                classes.push("has-error-value");
            }
            Rec::Value { val: RecVal::Metric { obs, dims, .. }, .. } => {
                if obs.len() >= 2 {
                    interesting = true;
                    classes.push("multi-observation");
                }
                if obs.len() > 2 {
                    classes.push("more-than-inline-observations");
                }
                if !dims.is_empty() {
                    interesting = true;
                    classes.push("existing-dimensions");
                }
            }
            Rec::Config(_) => {
                interesting = true;
                classes.push("has-config");
            }
            _ => {}
        }
    }
    if !base_sg.is_empty() {
        classes.push("non-empty-sample-group");
    }
    if interesting && case.layers.len() >= 2 {
        classes.push("nt");
    }
    classes.sort();
    classes.dedup();
    Ok(classes)
}

fn arb_small_dims() -> impl Strategy<Value = Vec<(String, String)>> {
    prop::collection::vec((arb_name(), arb_string()), 0..3)
}

fn arb_force() -> impl Strategy<Value = ForceKind> {
    prop::sample::select(vec![ForceKind::HighRes, ForceKind::NoMetric, ForceKind::Test])
}

fn arb_layer() -> impl Strategy<Value = ELayer> {
    prop_oneof![
        Just(ELayer::Boxed),
        Just(ELayer::OptionSome),
        Just(ELayer::BoxPtr),
        Just(ELayer::ArcPtr),
        Just(ELayer::Ref),
        Just(ELayer::CowOwned),
        arb_entry_c15().prop_map(ELayer::MergeGlobalsFirst),
        arb_entry_c15().prop_map(ELayer::MergeOtherLast),
        arb_entry_c15().prop_map(ELayer::MergeByRefGlobalsFirst),
        arb_small_dims().prop_map(ELayer::WithDims),
        (arb_small_dims(), prop::collection::vec(arb_name(), 0..3)).prop_map(|(d, l)| ELayer::WithGlobalDims(d, l)),
        arb_force().prop_map(ELayer::Force),
        Just(ELayer::Rooted),
        arb_force().prop_map(ELayer::RootedForce),
        arb_small_dims().prop_map(ELayer::RootedWithDims),
        Just(ELayer::RootedOption),
        Just(ELayer::RootedBox),
        Just(ELayer::RootedArc),
        Just(ELayer::RootedCow),
        Just(ELayer::RootedRef),
        (0u8..6, 0u8..4).prop_map(|(wrap, style)| ELayer::RootedStyled { wrap, style }),
        (0u8..5, 0u8..4).prop_map(|(wrap, style)| ELayer::RootedStyled { wrap, style }),
        prop_oneof![1 => Just(ELayer::OptionNone), 1 => Just(ELayer::RootedOptionNone), 6 => Just(ELayer::OptionSome)],
    ]
}

/// arbitrary entries with sample groups more often than in the EMF checks
fn arb_entry_c15() -> impl Strategy<Value = GenEntry> {
    (
        prop::collection::vec(arb_op(), 0..7),
        prop_oneof![
            1 => Just(vec![]),
            2 => prop::collection::vec(("[a-z]{1,4}", "[a-z]{0,4}"), 1..3),
        ],
    )
        .prop_map(|(ops, sample_group)| GenEntry { ops, sample_group })
}

// ---------------------------------------------------------------------------------------------
// value-level wrappers, statically nested to depth 3

#[derive(Clone, Debug, PartialEq, Serialize, Deserialize)]
pub enum VLayer {
    Dims(Vec<(String, String)>),
    Force(ForceKind),
    OptionSome,
    BoxPtr,
    ArcPtr,
    Ref,
    CowOwned,
    Formatted,
}

/// value that owns a clone (Cow needs ToOwned)
#[derive(Clone)]
struct CV(Val);
impl Value for CV {
    fn write(&self, w: impl ValueWriter) {
        self.0.write(w)
    }
}

struct PassThrough;
/// newtype so that the impl does not overlap the library's lifting impls for &/Option/Box/Arc/Cow
struct Wv<'x, V>(&'x V);
impl<V: Value> ValueFormatter<Wv<'_, V>> for PassThrough {
    fn format_value(writer: impl ValueWriter, value: &Wv<'_, V>) {
        value.0.write(writer)
    }
}

trait Depth {
    fn go<'a, V: Value, W: EntryWriter<'a>>(w: &mut W, name: &'a str, v: &V, layers: &[VLayer]);
}
struct Z;
struct S<N>(std::marker::PhantomData<N>);
impl Depth for Z {
    fn go<'a, V: Value, W: EntryWriter<'a>>(w: &mut W, name: &'a str, v: &V, _layers: &[VLayer]) {
        w.value(name, v)
    }
}
impl<N: Depth> Depth for S<N> {
    fn go<'a, V: Value, W: EntryWriter<'a>>(w: &mut W, name: &'a str, v: &V, layers: &[VLayer]) {
        let Some((l, rest)) = layers.split_first() else {
            return w.value(name, v);
        };
        match l {
            VLayer::Dims(d) => N::go(w, name, &with_dims::<_, 1>(v, d), rest),
            VLayer::Force(ForceKind::HighRes) => {
                N::go(w, name, &ForceFlag::<_, HighStorageResolutionCtor>::from(v), rest)
            }
            VLayer::Force(ForceKind::NoMetric) => N::go(w, name, &forced::<_, NoMetricCtor>(v, name.len() + rest.len()), rest),
            VLayer::Force(ForceKind::Test) => N::go(w, name, &forced::<_, TestFlagCtor>(v, name.len() + rest.len()), rest),
            VLayer::OptionSome => N::go(w, name, &Some(v), rest),
            VLayer::BoxPtr => N::go(w, name, &Box::new(v), rest),
            VLayer::ArcPtr => N::go(w, name, &Arc::new(v), rest),
            VLayer::Ref => N::go(w, name, &&v, rest),
            VLayer::CowOwned => {
                struct R<'x, V>(&'x V);
                impl<V> Clone for R<'_, V> {
                    fn clone(&self) -> Self {
                        R(self.0)
                    }
                }
                impl<V: Value> Value for R<'_, V> {
                    fn write(&self, w: impl ValueWriter) {
                        self.0.write(w)
                    }
                }
                let c: Cow<'_, R<'_, V>> = Cow::Owned(R(v));
                N::go(w, name, &c, rest)
            }
            VLayer::Formatted => {
                let nested = Some(Box::new(Arc::new(Wv(v))));
                N::go(
                    w,
                    name,
                    &FormattedValue::<_, PassThrough>::new(&nested),
                    rest,
                )
            }
        }
    }
}

struct ValueLayered<'g> {
    g: &'g GenEntry,
    layers: &'g [Vec<VLayer>],
}
impl Entry for ValueLayered<'_> {
    fn write<'a>(&'a self, w: &mut impl EntryWriter<'a>) {
        let mut vi = 0;
        for op in &self.g.ops {
            if let Op::Value { name, val } = op {
                let l = &self.layers[vi % self.layers.len()];
                vi += 1;
                <S<S<Z>> as Depth>::go(w, name.as_str(), val, l);
            }
        }
    }
}

#[derive(Clone, Debug, Serialize, Deserialize)]
pub struct ValueCase {
    pub entry: GenEntry,
    pub layers: Vec<Vec<VLayer>>,
}

pub fn check_value(case: &ValueCase) -> CaseResult {
    // only Value ops matter here
    let entry = GenEntry {
        ops: case
            .entry
            .ops
            .iter()
            .filter(|o| matches!(o, Op::Value { .. }))
            .cloned()
            .collect(),
        sample_group: vec![],
    };
    let plain = record(&entry.prepare()).recs;
    // expected: apply layers in order (innermost first)
    let mut expected = vec![];
    let mut eff_layers: Vec<Vec<VLayer>> = vec![];
    for (i, r) in plain.iter().enumerate() {
        let layers: Vec<VLayer> = case.layers[i % case.layers.len()].iter().take(2).cloned().collect();
        let mut one = vec![r.clone()];
        let mut eff = vec![];
        for l in &layers {
            match l {
                VLayer::Dims(d) => {
                    one = model(&ELayer::WithDims(d.clone()), one, vec![]).0;
                    eff.push(l.clone());
                }
                VLayer::Force(f) => {
                    if force_compatible(&one, *f) {
                        one = model(&ELayer::Force(*f), one, vec![]).0;
                        eff.push(l.clone());
                    } else {
                        // skip the incompatible layer (documented panic)
                        eff.push(VLayer::Ref);
                    }
                }
                other => eff.push(other.clone()),
            }
        }
        expected.extend(one);
        eff_layers.push(eff);
    }
    if eff_layers.is_empty() {
        return Ok(vec!["no-values"]);
    }
    let wrapped = ValueLayered {
        g: &entry,
        layers: &eff_layers,
    };
    let got = no_panic("value-wrapper-write", || record(&wrapped))?;
    let gn = normalise(&got.recs);
    let en = normalise(&expected);
    if gn != en {
        let first = gn.iter().zip(en.iter()).position(|(a, b)| a != b).unwrap_or(0);
        vfail!(
            "value-wrapper-not-transparent",
            "value {first} with layers {:?}: got {:?}, expected {:?}",
            eff_layers.get(first),
            gn.get(first),
            en.get(first)
        );
    }
    let mut classes: Classes = vec![];
    for ls in &eff_layers {
        if ls.len() >= 2 {
            classes.push("nt");
        }
        for l in ls {
            classes.push(match l {
                VLayer::Dims(_) => "v-with-dimensions",
                VLayer::Force(_) => "v-force-flag",
                VLayer::OptionSome => "v-option",
                VLayer::BoxPtr => "v-box",
                VLayer::ArcPtr => "v-arc",
                VLayer::Ref => "v-ref",
                VLayer::CowOwned => "v-cow",
                VLayer::Formatted => "v-formatted-lifted",
            });
        }
    }
    classes.sort();
    classes.dedup();
    Ok(classes)
}

fn arb_vlayer() -> impl Strategy<Value = VLayer> {
    prop_oneof![
        arb_small_dims().prop_map(VLayer::Dims),
        arb_force().prop_map(VLayer::Force),
        Just(VLayer::OptionSome),
        Just(VLayer::BoxPtr),
        Just(VLayer::ArcPtr),
        Just(VLayer::Ref),
        Just(VLayer::CowOwned),
        Just(VLayer::Formatted),
    ]
}

// ---------------------------------------------------------------------------------------------
// stream- and format-level wrappers

/// scripted answer of the innermost stream / format for the i-th entry: 0 Ok, 1 Validation, 2 Io
fn scripted(results: &[u8], i: usize) -> Result<(), IoStreamError> {
    match results.get(i).copied().unwrap_or(0) % 3 {
        0 => Ok(()),
        1 => Err(IoStreamError::Validation(metrique_writer_core::ValidationError::invalid("scripted"))),
        _ => Err(IoStreamError::Io(std::io::Error::other("scripted"))),
    }
}

#[derive(Default)]
struct RecStream {
    log: Arc<Mutex<Vec<(Vec<Rec>, Sg)>>>,
    results: Vec<u8>,
    n: usize,
}
impl EntryIoStream for RecStream {
    fn next(&mut self, entry: &impl Entry) -> Result<(), IoStreamError> {
        self.log
            .lock()
            .unwrap()
            .push((record(entry).recs, sample_group_of(entry)));
        self.n += 1;
        scripted(&self.results, self.n - 1)
    }
    fn flush(&mut self) -> std::io::Result<()> {
        Ok(())
    }
}
#[derive(Default)]
struct RecFmt {
    log: Arc<Mutex<Vec<(Vec<Rec>, Sg)>>>,
    results: Vec<u8>,
    n: usize,
}
impl Format for RecFmt {
    fn format(&mut self, entry: &impl Entry, _o: &mut impl std::io::Write) -> Result<(), IoStreamError> {
        self.log
            .lock()
            .unwrap()
            .push((record(entry).recs, sample_group_of(entry)));
        self.n += 1;
        scripted(&self.results, self.n - 1)
    }
}

#[derive(Clone, Debug, PartialEq, Serialize, Deserialize)]
pub enum SLayer {
    MergeGlobals(GenEntry),
    MergeGlobalDims(Vec<(String, String)>, Option<Vec<String>>),
    Force(ForceKind),
}

#[derive(Clone, Debug, Serialize, Deserialize)]
pub struct StreamCase {
    pub entries: Vec<GenEntry>,
    /// applied innermost first (the first layer wraps the recording stream directly)
    pub layers: Vec<SLayer>,
    pub format_level: bool,
    /// what the innermost stream / format answers per entry (0 Ok, 1 Validation, 2 Io): an error
    /// for one entry must be passed through and must not change what later entries look like
    #[serde(default)]
    pub results: Vec<u8>,
}

fn smallvec_dims(d: &[(String, String)]) -> smallvec::SmallVec<[(Cow<'static, str>, Cow<'static, str>); 2]> {
    dims_cow(d).into_iter().collect()
}

pub fn check_stream(case: &StreamCase) -> CaseResult {
    // the entry passes the OUTERMOST layer first; expected effect = layers applied outermost first
    let layers: Vec<SLayer> = case.layers.iter().take(2).cloned().collect();
    let log: Arc<Mutex<Vec<(Vec<Rec>, Sg)>>> = Default::default();
    macro_rules! run {
        ($s:expr) => {{
            let mut s = $s;
            for (i, e) in case.entries.iter().enumerate() {
                let p = e.prepare();
                let r = no_panic("stream-wrapper-next", || s.next(&p))?;
                let want = scripted(&case.results, i);
                vensure!(
                    matches!((&r, &want), (Ok(()), Ok(())) | (Err(IoStreamError::Validation(_)), Err(IoStreamError::Validation(_))) | (Err(IoStreamError::Io(_)), Err(IoStreamError::Io(_)))),
                    "stream-wrapper:result-not-passed-through",
                    "entry {i}: the inner stream answered {want:?}, the wrapper returned {r:?}"
                );
            }
        }};
    }
    macro_rules! run_fmt {
        ($f:expr) => {{
            let mut f = $f;
            for (i, e) in case.entries.iter().enumerate() {
                let p = e.prepare();
                let r = no_panic("format-wrapper-format", || f.format(&p, &mut std::io::sink()))?;
                let want = scripted(&case.results, i);
                vensure!(
                    matches!((&r, &want), (Ok(()), Ok(())) | (Err(IoStreamError::Validation(_)), Err(IoStreamError::Validation(_))) | (Err(IoStreamError::Io(_)), Err(IoStreamError::Io(_)))),
                    "stream-wrapper:result-not-passed-through",
                    "entry {i}: the inner format answered {want:?}, the wrapper returned {r:?}"
                );
            }
        }};
    }
    // skip incompatible force layers per entry by pre-filtering entries
    let compatible = |e: &GenEntry| -> bool {
        let l = record(&e.prepare()).recs;
        layers.iter().all(|x| match x {
            SLayer::Force(f) => {
                force_compatible(&l, *f)
                    && layers.iter().all(|y| match y {
                        SLayer::MergeGlobals(g) => force_compatible(&record(&g.prepare()).recs, *f),
                        _ => true,
                    })
            }
            _ => true,
        })
    };
    // two different force kinds of different families cannot be stacked
    let forces: Vec<ForceKind> = layers
        .iter()
        .filter_map(|l| if let SLayer::Force(f) = l { Some(*f) } else { None })
        .collect();
    if forces.len() == 2 && (forces[0] == ForceKind::Test) != (forces[1] == ForceKind::Test) {
        return Ok(vec!["incompatible-force-stack"]);
    }
    if !case.entries.iter().all(compatible) {
        return Ok(vec!["incompatible-force"]);
    }
    macro_rules! wrap1 {
        ($base:expr, $l:expr, $k:ident) => {
            match $l {
                SLayer::MergeGlobals(g) => $k!($base.merge_globals(OwnedPrepared::new(g.clone()))),
                SLayer::MergeGlobalDims(d, dl) => {
                    $k!($base.merge_global_dimensions(smallvec_dims(d), dl.as_ref().map(|x| deny(x))))
                }
                SLayer::Force(_) => unreachable!(),
            }
        };
    }
    let rec_stream = || RecStream { log: log.clone(), results: case.results.clone(), n: 0 };
    let rec_fmt = || RecFmt { log: log.clone(), results: case.results.clone(), n: 0 };
    match (case.format_level, layers.as_slice()) {
        (_, []) => run!(rec_stream()),
        (false, [SLayer::Force(ForceKind::HighRes)]) => {
            run!(ForceFlag::<_, HighStorageResolutionCtor>::from(rec_stream()))
        }
        (false, [SLayer::Force(ForceKind::NoMetric)]) => run!(ForceFlag::<_, NoMetricCtor>::from(rec_stream())),
        (false, [SLayer::Force(ForceKind::Test)]) => run!(ForceFlag::<_, TestFlagCtor>::from(rec_stream())),
        (false, [a]) => wrap1!(rec_stream(), a, run),
        (true, [SLayer::Force(_)]) => return Ok(vec!["no-format-level-force"]),
        (true, [a]) => wrap1!(rec_fmt(), a, run_fmt),
        (false, [a, SLayer::Force(f)]) if !matches!(a, SLayer::Force(_)) => {
            // Force outermost
            macro_rules! forced {
                ($s:expr) => {
                    match f {
                        ForceKind::HighRes => run!(ForceFlag::<_, HighStorageResolutionCtor>::from($s)),
                        ForceKind::NoMetric => run!(ForceFlag::<_, NoMetricCtor>::from($s)),
                        ForceKind::Test => run!(ForceFlag::<_, TestFlagCtor>::from($s)),
                    }
                };
            }
            wrap1!(rec_stream(), a, forced)
        }
        (false, [SLayer::Force(f), b]) if !matches!(b, SLayer::Force(_)) => match f {
            ForceKind::HighRes => wrap1!(ForceFlag::<_, HighStorageResolutionCtor>::from(rec_stream()), b, run),
            ForceKind::NoMetric => wrap1!(ForceFlag::<_, NoMetricCtor>::from(rec_stream()), b, run),
            ForceKind::Test => wrap1!(ForceFlag::<_, TestFlagCtor>::from(rec_stream()), b, run),
        },
        (false, [a, b]) if !matches!(a, SLayer::Force(_)) && !matches!(b, SLayer::Force(_)) => {
            macro_rules! second {
                ($s:expr) => {
                    wrap1!($s, b, run)
                };
            }
            wrap1!(rec_stream(), a, second)
        }
        (true, [a, b]) if !matches!(a, SLayer::Force(_)) && !matches!(b, SLayer::Force(_)) => {
            macro_rules! second {
                ($s:expr) => {
                    wrap1!($s, b, run_fmt)
                };
            }
            wrap1!(rec_fmt(), a, second)
        }
        _ => return Ok(vec!["unsupported-stack"]),
    }
    let got = log.lock().unwrap().clone();
    vensure!(
        got.len() == case.entries.len(),
        "stream-wrapper:entry-count",
        "{} entries in, {} out",
        case.entries.len(),
        got.len()
    );
    let mut classes: Classes = vec![];
    for (i, e) in case.entries.iter().enumerate() {
        let p = e.prepare();
        let mut exp = record(&p).recs;
        let mut sg = sample_group_of(&p);
        for l in layers.iter().rev() {
            let el = match l {
                SLayer::MergeGlobals(g) => ELayer::MergeGlobalsFirst(g.clone()),
                SLayer::MergeGlobalDims(d, dl) => {
                    if d.is_empty() {
                        ELayer::Boxed
                    } else {
                        ELayer::WithGlobalDims(d.clone(), dl.clone().unwrap_or_default())
                    }
                }
                SLayer::Force(f) => ELayer::Force(*f),
            };
            let (a, b) = model(&el, exp, sg);
            exp = a;
            sg = b;
        }
        if normalise(&got[i].0) != normalise(&exp) {
            vfail!(
                "stream-wrapper-not-transparent",
                "entry {i}, layers {:?} (format_level={}): got {:?}\nexpected {:?}",
                layers,
                case.format_level,
                normalise(&got[i].0),
                normalise(&exp)
            );
        }
        if {
            let (mut a, mut b) = (got[i].1.clone(), sg.clone());
            a.sort();
            b.sort();
            a != b
        } {
            let sig = match layers.iter().rev().find(|l| !matches!(l, SLayer::MergeGlobals(_))) {
                Some(SLayer::Force(_)) => "sample-group-lost:ForceFlag-entry",
                Some(SLayer::MergeGlobalDims(..)) => "sample-group-lost:WithGlobalDimensions",
                _ => "sample-group-lost:other",
            };
            vfail!(
                sig,
                "entry {i}, layers {:?} (format_level={}): the inner stream sees sample group {:?}, expected {:?}",
                layers,
                case.format_level,
                got[i].1,
                sg
            );
        }
        if !sg.is_empty() && !layers.is_empty() {
            classes.push("nt");
        }
    }
    for l in &layers {
        classes.push(match l {
            SLayer::MergeGlobals(_) => "s-merge-globals",
            SLayer::MergeGlobalDims(..) => "s-merge-global-dimensions",
            SLayer::Force(_) => "s-force-flag",
        });
    }
    if case.format_level {
        classes.push("format-level");
    }
    if case.entries.len() >= 2 && case.results.iter().take(case.entries.len() - 1).any(|r| r % 3 != 0) {
        classes.push("entry-after-one-the-inner-stream-refused");
    }
    classes.sort();
    classes.dedup();
    Ok(classes)
}

fn arb_slayer() -> impl Strategy<Value = SLayer> {
    prop_oneof![
        arb_entry_c15().prop_map(SLayer::MergeGlobals),
        (arb_small_dims(), prop::option::of(prop::collection::vec(arb_name(), 0..3)))
            .prop_map(|(d, l)| SLayer::MergeGlobalDims(d, l)),
        arb_force().prop_map(SLayer::Force),
    ]
}

pub fn run(ctx: &mut Ctx) {
    ctx.assume("merging metric flags of different families (EMF flags with a foreign MetricOptions type) is a documented panic of MetricFlags::try_merge; such stacks are not generated (skipped and counted)");
    ctx.assume("BoxEntry is used as type eraser between dynamically chosen layers; boxing is itself a wrapper under test (layer-boxed) and statically nested value wrappers (depth 3) never go through it");
    let q = ctx.tier == Tier::Quick;
    let threads = ctx.tier.pick(8, 16);
    ctx.explore(
        SubCfg::new(
            "c15-entry-wrappers",
            "arbitrary entry (strings, multi-observation metrics, units, dimensions, flags, error values, empty values, configs, timestamps, non-empty sample group) under 1-4 wrapper layers drawn from 22 kinds (BoxEntry, Option Some/None, Box/Arc/&/Cow, the same five containers as InflectableEntry under RootEntry, merge / merge_by_ref globals-first and other-last, WithDimensions, WithGlobalDimensions + deny list, ForceFlag<HighRes|NoMetric|Test> as Entry, RootEntry over an InflectableEntry adapter, ForceFlag / WithDimensions as InflectableEntry). Oracle: RecLog(wrapped) == documented transform of RecLog(plain) (identity; globals first; dimensions appended after existing ones except deny-listed names; flags merged) and sample_group() preserved / chained (compared as a multiset: the library documents that pair order does not matter). Non-trivial = entry with an error value, >=2 observations, existing dimensions, a config or a sample group, under >=2 layers",
            if q { 40_000 } else { 1_500_000 },
        )
        .threads(threads)
        .mandatory(&[
            "layer-inflectable-container-under-a-name-style",
            "layer-boxed", "layer-option", "layer-box", "layer-arc", "layer-ref", "layer-cow", "layer-merge",
            "layer-merge-other-last", "layer-merge-by-ref", "layer-with-dimensions", "layer-with-global-dimensions",
            "layer-force-flag", "layer-root-entry", "layer-inflectable-force-flag",
            "layer-inflectable-with-dimensions", "layer-inflectable-option", "layer-inflectable-box", "layer-inflectable-arc",
            "layer-inflectable-cow", "layer-inflectable-ref", "layer-option-none", "layer-inflectable-option-none", "has-error-value", "more-than-inline-observations",
            "existing-dimensions", "has-config", "non-empty-sample-group",
        ]),
        || {
            (arb_entry_c15(), prop::collection::vec(arb_layer(), 1..5))
                .prop_map(|(entry, layers)| EntryCase { entry, layers })
        },
        check_entry,
    );
    ctx.explore(
        SubCfg::new(
            "c15-value-wrappers",
            "every value of an arbitrary entry under 0-2 statically nested value wrappers (WithDimensions, ForceFlag x3, Option, Box, Arc, &, Cow, FormattedValue with a pass-through formatter lifted through Option<Box<Arc<_>>>). Oracle as above at value level. Non-trivial = >=2 layers on a value",
            if q { 40_000 } else { 1_000_000 },
        )
        .threads(threads)
        .mandatory(&["v-with-dimensions", "v-force-flag", "v-option", "v-box", "v-arc", "v-ref", "v-cow", "v-formatted-lifted"]),
        || {
            (arb_entry_c15(), prop::collection::vec(prop::collection::vec(arb_vlayer(), 0..3), 1..5))
                .prop_map(|(entry, layers)| ValueCase { entry, layers })
        },
        check_value,
    );
    ctx.explore(
        SubCfg::new(
            "c15-stream-wrappers",
            "1-4 arbitrary entries through 0-2 stream-level (EntryIoStreamExt::merge_globals / merge_global_dimensions, ForceFlag<stream>) or format-level (FormatExt::merge_globals / merge_global_dimensions) wrappers around a recording stream/format that also records sample_group() and answers each entry Ok / Validation / Io by script. Oracle: the inner stream sees the documented transform of EVERY entry - also of those that follow an entry the inner stream refused - and the same sample group; the wrapper returns the inner answer (what a congressional sampler behind the wrapper would group by). Non-trivial = entry with a non-empty sample group under >=1 layer",
            if q { 30_000 } else { 800_000 },
        )
        .threads(threads)
        .mandatory(&["s-merge-globals", "s-merge-global-dimensions", "s-force-flag", "format-level", "entry-after-one-the-inner-stream-refused"]),
        || {
            (
                prop::collection::vec(arb_entry_c15(), 1..5),
                prop::collection::vec(arb_slayer(), 0..3),
                any::<bool>(),
                prop::collection::vec(prop_oneof![3 => Just(0u8), 1 => Just(1u8), 1 => Just(2u8)], 0..5),
            )
                .prop_map(|(entries, layers, format_level, results)| StreamCase {
                    entries,
                    layers,
                    format_level,
                    results,
                })
        },
        check_stream,
    );
}
