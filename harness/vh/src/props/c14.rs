//! C14 — formatting one entry never depends on entries formatted before it.

use crate::emfgen::*;
use crate::emfh::*;
use crate::engine::*;
use crate::iofault::*;
use crate::model::*;
use crate::{vensure, vfail};
use metrique_writer_core::format::Format;
use metrique_writer_core::sample::SampledFormat;
use proptest::prelude::*;
use serde::{Deserialize, Serialize};

#[derive(Clone, Debug, Serialize, Deserialize)]
pub struct Item {
    pub entry: GenEntry,
    pub rate_exp: Option<u8>,
    pub script: Option<WScript>,
    pub kind: String,
}

#[derive(Clone, Copy, Debug, PartialEq, Serialize, Deserialize)]
pub enum Mode {
    Plain,
    CloneAt(u8),
    Sampled,
}

#[derive(Clone, Debug, Serialize, Deserialize)]
pub struct Case {
    pub cfg: EmfCfg,
    pub items: Vec<Item>,
    pub mode: Mode,
}

enum Fmt {
    Plain(metrique_writer_format_emf::Emf),
    Sampled(metrique_writer_format_emf::SampledEmf<ScriptRng>),
}

impl Fmt {
    fn new(cfg: &EmfCfg, mode: Mode) -> Fmt {
        match mode {
            Mode::Sampled => Fmt::Sampled(cfg.build().with_sampling_and_rng(ScriptRng::new(vec![7, 11]))),
            _ => Fmt::Plain(cfg.build()),
        }
    }
    fn run(&mut self, item: &Item, out: &mut impl std::io::Write) -> Decision {
        let p = item.entry.prepare();
        match self {
            // a plain formatter formats every item ITSELF (a sampling wrapper would be a clone,
            // and the item would never touch the long-lived formatter's state)
            Fmt::Plain(emf) => decision_of(emf.format(&p, out)),
            Fmt::Sampled(s) => match item.rate_exp {
                None => decision_of(s.format(&p, out)),
                Some(k) => {
                    let rate = match k {
                        0..=52 => (2f32).powi(-(k as i32)),
                        // non-integer inverse
                        101..=125 => 1.0 / ((k - 100) as f32 + 0.37),
                        // rates the formatter refuses (the one rejection that happens before any
                        // per-entry reset) and rates above one
                        126..=150 => [0.0f32, -1.0, f32::NAN, f32::INFINITY, 2.0][(k % 5) as usize],
                        _ => (2f32).powi(-70),
                    };
                    decision_of(s.format_with_sample_rate(&p, out, rate))
                }
            },
        }
    }
}

/// entries that grow one of the formatter's reusable buffers beyond the 1 MiB it shrinks back to:
/// tag % 4 = 0 a multi-megabyte string property (string_fields_buf), 1 thousands of metrics with
/// long names (metrics_buf / decl_buf / fields_buf), 2 one metric with >100 000 repeated
/// observations (fields_buf and counts_buf), 3 split mode with a megabyte-sized dimension value
/// (per-dimension-set buffers)
pub fn huge_entry(mb_tenths: u8, tag: u8) -> GenEntry {
    let n = 1_100_000 + (mb_tenths as usize % 20) * 100_000;
    let ts = Op::Timestamp {
        secs: 1,
        nanos: 0,
        before_epoch: false,
    };
    let metric = |name: String, obs: Vec<Obs>, dims: Vec<(String, String)>| Op::Value {
        name,
        val: Val::Metric {
            obs,
            unit: UnitG(1),
            dims,
            flags: FlagG::None,
        },
    };
    let ops = match tag % 4 {
        0 => vec![
            ts,
            Op::Value {
                name: format!("Huge{tag}"),
                val: Val::Str("x\"y".repeat(n / 3)),
            },
            metric("HugeMetric".into(), (0..((tag as u64 / 4 % 4) * 20_000)).map(Obs::U).collect(), vec![]),
        ],
        1 => {
            let mut v = vec![ts];
            let pad = "n".repeat(300);
            for i in 0..(n / 330) {
                v.push(metric(format!("M{i}_{pad}"), vec![Obs::U(i as u64)], vec![]));
            }
            v
        }
        2 => vec![
            ts,
            metric(
                "ManyObservations".into(),
                (0..(n as u64 / 9))
                    .map(|i| Obs::Rep {
                        total: F(1e300 + i as f64 * 1e290),
                        occ: 10_000_000_000_000_000_000u64 - i,
                    })
                    .collect(),
                vec![],
            ),
        ],
        _ => vec![
            Op::Config(CfgG::AllowSplit),
            ts,
            metric("SplitA".into(), vec![Obs::U(1)], vec![("HugeDim".into(), "d".repeat(n))]),
            metric("SplitB".into(), vec![Obs::U(2), Obs::U(3)], vec![("HugeDim".into(), "d".repeat(n))]),
            metric("SplitC".into(), vec![Obs::U(4)], vec![("OtherDim".into(), "e".repeat(n / 2))]),
        ],
    };
    GenEntry {
        ops,
        sample_group: vec![],
    }
}

/// replaces the number after every `"Timestamp":` by 0 and returns the numbers
fn mask_timestamps(b: &[u8]) -> (Vec<u8>, Vec<u128>) {
    let pat = b"\"Timestamp\":";
    let mut out = Vec::with_capacity(b.len());
    let mut stamps = vec![];
    let mut i = 0;
    while i < b.len() {
        if b[i..].starts_with(pat) {
            out.extend_from_slice(pat);
            i += pat.len();
            let mut v: u128 = 0;
            while i < b.len() && b[i].is_ascii_digit() {
                v = v.saturating_mul(10).saturating_add((b[i] - b'0') as u128);
                i += 1;
            }
            stamps.push(v);
            out.push(b'0');
        } else {
            out.push(b[i]);
            i += 1;
        }
    }
    (out, stamps)
}

pub fn check(case: &Case) -> CaseResult {
    let mut long = no_panic("emf-build", || Fmt::new(&case.cfg, case.mode))?;
    let mut classes: Classes = vec![];
    let mut prev_disturbing = false;
    let mut prev_kind = String::new();
    let mut nt = false;
    for (i, item) in case.items.iter().enumerate() {
        if let Mode::CloneAt(at) = case.mode {
            // the clone point is relative to the sequence: always between two items
            if (at as usize) % (case.items.len().max(2) - 1) + 1 == i {
                if let Fmt::Plain(e) = &long {
                    long = Fmt::Plain(e.clone());
                    classes.push("cloned-mid-sequence");
                }
            }
        }
        // fresh formatter, perfect writer: the reference
        let mut fresh = no_panic("emf-build", || Fmt::new(&case.cfg, case.mode))?;
        let mut ref_out: Vec<u8> = vec![];
        let ref_dec = no_panic("emf-format-fresh", || fresh.run(item, &mut ref_out))?;
        // long-lived formatter
        let (dec, io_failed) = match &item.script {
            None => {
                let mut out: Vec<u8> = vec![];
                let clocked = !item.entry.ops.iter().any(|o| matches!(o, Op::Timestamp { .. }));
                let ms_now = || std::time::SystemTime::now().duration_since(std::time::UNIX_EPOCH).map(|d| d.as_millis()).unwrap_or(0);
                let before = ms_now();
                let dec = no_panic("emf-format", || long.run(item, &mut out))?;
                let after = ms_now();
                vensure!(
                    dec.kind() == ref_dec.kind(),
                    "history:decision-differs",
                    "position {i} ({}): long-lived formatter decided {dec:?}, a fresh one {ref_dec:?}",
                    item.kind
                );
                if clocked {
                    let (masked, stamps) = mask_timestamps(&out);
                    let (ref_masked, _) = mask_timestamps(&ref_out);
                    vensure!(
                        stamps.iter().all(|t| *t + 2000 >= before && *t <= after + 2000),
                        "history:stale-timestamp",
                        "position {i} ({}): an entry without a timestamp of its own was written with Timestamp {stamps:?}, the call ran between {before} and {after} ms",
                        item.kind
                    );
                    out = masked;
                    ref_out = ref_masked;
                    if dec == Decision::Ok {
                        classes.push("clock-stamped-item");
                    }
                }
                vensure!(
                    lines_multiset(&out) == lines_multiset(&ref_out),
                    "history:output-differs",
                    "position {i} ({}): output differs from a fresh formatter's\nlong ={:?}\nfresh={:?}",
                    item.kind,
                    String::from_utf8_lossy(&out[..out.len().min(3000)]),
                    String::from_utf8_lossy(&ref_out[..ref_out.len().min(3000)])
                );
                (dec, false)
            }
            Some(script) => {
                let w = ScriptedWriter::new(script.clone());
                let mut wr = w.clone();
                let dec = no_panic("emf-format", || long.run(item, &mut wr))?;
                let calls = w.calls();
                let fault = calls
                    .iter()
                    .any(|c| matches!(c.step, WStep::Zero | WStep::Hard(_)));
                let reference: Vec<Vec<u8>> = ref_out
                    .split_inclusive(|b| *b == b'\n')
                    .map(|l| l.to_vec())
                    .collect();
                match (&ref_dec, fault) {
                    (Decision::Ok, false) => {
                        vensure!(
                            dec == Decision::Ok,
                            "history:decision-differs",
                            "position {i}: {dec:?} vs fresh Ok (writer had no fault)"
                        );
                        vensure!(
                            lines_multiset(&w.received()) == lines_multiset(&ref_out),
                            "history:output-differs",
                            "position {i} ({}): output over a short-writing writer differs from a fresh formatter's",
                            item.kind
                        );
                    }
                    (Decision::Ok, true) => {
                        vensure!(
                            matches!(dec, Decision::Io(_)),
                            "history:decision-differs",
                            "position {i}: writer faulted, expected Io, got {dec:?}"
                        );
                        // complete fresh lines + a prefix of one more
                        let got = w.received();
                        let mut rest: &[u8] = &got;
                        let mut remaining = reference.clone();
                        while let Some(nl) = rest.iter().position(|b| *b == b'\n') {
                            let line = &rest[..=nl];
                            match remaining.iter().position(|r| r.as_slice() == line) {
                                Some(p) => {
                                    remaining.remove(p);
                                }
                                None => vfail!(
                                    "history:output-differs",
                                    "position {i}: line written before the fault is not a fresh-formatter line"
                                ),
                            }
                            rest = &rest[nl + 1..];
                        }
                        vensure!(
                            rest.is_empty() || remaining.iter().any(|r| r.starts_with(rest)),
                            "history:output-differs",
                            "position {i}: partial line before the fault is not a prefix of a fresh-formatter line"
                        );
                    }
                    (other, _) => {
                        vensure!(
                            dec.kind() == other.kind(),
                            "history:decision-differs",
                            "position {i}: {dec:?} vs fresh {other:?}"
                        );
                        vensure!(
                            w.received().is_empty(),
                            "validation-error-wrote-bytes",
                            "position {i}: rejected entry wrote bytes"
                        );
                    }
                }
                (dec.clone(), matches!(dec, Decision::Io(_)))
            }
        };
        let split = lines_multiset(&ref_out).values().sum::<usize>() >= 2;
        let disturbing = io_failed
            || matches!(dec, Decision::Validation(_))
            || split
            || item.kind == "huge";
        if prev_disturbing && dec == Decision::Ok && prev_kind != item.kind {
            nt = true;
        }
        if prev_disturbing && dec == Decision::Ok {
            classes.push("accepted-after-disturbance");
        }
        prev_disturbing = disturbing;
        prev_kind = item.kind.clone();
        if io_failed {
            classes.push("io-failed-item");
        }
        if split {
            classes.push("split-item");
        }
        if split && io_failed {
            classes.push("io-failed-split-item");
        }
        if matches!(case.mode, Mode::Sampled) && matches!(item.rate_exp, Some(126..=150)) {
            classes.push("sample-rate-refused-on-long-lived-sampler");
        }
        if matches!(dec, Decision::Validation(_)) {
            classes.push("rejected-item");
        }
        match item.kind.as_str() {
            "huge" => {
                classes.push("huge-item");
                let names: Vec<&str> = item.entry.ops.iter().filter_map(|o| if let Op::Value { name, .. } = o { Some(name.as_str()) } else { None }).collect();
                classes.push(if names.iter().any(|n| n.starts_with("M0_")) {
                    "huge-many-long-metric-names"
                } else if names.contains(&"ManyObservations") {
                    "huge-many-repeated-observations"
                } else if names.contains(&"SplitA") {
                    "huge-split-dimension-values"
                } else {
                    "huge-string-property"
                });
            }
            "error-report" => classes.push("error-report-item"),
            "arbitrary" => classes.push("arbitrary-item"),
            "defect" => classes.push("defect-item"),
            _ => {}
        }
    }
    classes.push(match case.mode {
        Mode::Plain => "mode-plain",
        Mode::CloneAt(_) => "mode-clone",
        Mode::Sampled => "mode-sampled",
    });
    if nt {
        classes.push("nt");
    }
    classes.sort();
    classes.dedup();
    Ok(classes)
}

fn arb_case(max_items: usize, huge_weight: u32) -> impl Strategy<Value = Case> {
    (
        arb_valid_seq(2..max_items, true),
        prop::collection::vec(
            (
                // kind selector
                prop_oneof![
                    10 => Just(0u8), // valid
                    5 => Just(1u8),  // valid + defect
                    3 => Just(2u8),  // arbitrary
                    1 => Just(3u8),  // error report
                    huge_weight => Just(4u8), // huge
                ],
                (arb_defect(), any::<u32>(), any::<u32>()),
                arb_entry(),
                super::c03::arb_rate_exp(),
                prop::option::weighted(0.3, arb_wscript()),
                any::<u8>(),
            ),
            max_items,
        ),
        prop_oneof![
            3 => Just(Mode::Plain),
            2 => (0u8..=255).prop_map(Mode::CloneAt),
            2 => Just(Mode::Sampled),
        ],
    )
        .prop_map(|((cfg, entries), extras, mode)| {
            let mut items = vec![];
            for (e, (sel, (d, s, p), arb, rate_exp, script, tag)) in entries.into_iter().zip(extras) {
                let (entry, kind) = match sel {
                    0 => (e, "valid"),
                    1 => match inject(&cfg, &e, d, s, p) {
                        Some(e2) => (e2, "defect"),
                        None => (e, "valid"),
                    },
                    2 => (arb, "arbitrary"),
                    3 => (
                        GenEntry {
                            ops: vec![Op::ErrorReport(format!("err{tag}"))],
                            sample_group: vec![],
                        },
                        "error-report",
                    ),
                    _ => (huge_entry(tag, tag), "huge"),
                };
                // entries without a timestamp take the wall clock: every fourth valid / error-report
                // item without a writer script is left (or made) timestamp-less and compared
                // modulo the Timestamp value, which must lie inside the call's own time window -
                // not be a left-over of an earlier entry
                let mut entry = entry;
                if tag % 4 == 0 && script.is_none() && (kind == "valid" || kind == "error-report") {
                    entry.ops.retain(|o| !matches!(o, Op::Timestamp { .. }));
                } else if !entry.ops.iter().any(|o| matches!(o, Op::Timestamp { .. })) {
                    entry.ops.push(Op::Timestamp {
                        secs: 77,
                        nanos: 5,
                        before_epoch: false,
                    });
                }
                items.push(Item {
                    entry,
                    rate_exp,
                    script,
                    kind: kind.to_string(),
                });
            }
            Case { cfg, items, mode }
        })
}

pub const RULE: &str = "sequence of 2-11 items over ONE long-lived formatter (plain / cloned mid-sequence / SampledEmf with scripted rng) vs a freshly built formatter with the same configuration at every position. Items: valid entry, valid + injected validation defect, arbitrary entry, unroutable error report, 1.1-3 MB entry (forces the shrink_to(1 MiB) path), each optionally over a short-writing / interrupting / failing writer, a plain formatter formats every item itself, a long-lived SampledEmf gets rates 2^-k, non-integer inverses, and rates it refuses (0, negative, NaN, infinite, > 1); every fourth valid / error-report item carries no timestamp of its own (compared modulo the Timestamp value, which must lie in the call's own time window). Oracle: same decision kind and same multiset of lines at every position (faulting writer: Io + complete fresh lines + prefix). Non-trivial = a (rejected | split | huge | io-failed) item immediately followed by an accepted item of a different kind";

pub fn run(ctx: &mut Ctx) {
    ctx.assume("every item carries a timestamp (entries without one read the wall clock, which differs between the two formatters by design)");
    ctx.assume("sampling weights are powers of two so that the weight does not depend on the rng state of the long-lived SampledEmf");
    let q = ctx.tier == Tier::Quick;
    let threads = ctx.tier.pick(8, 16);
    ctx.explore(
        SubCfg::new("c14-history-independence", RULE, if q { 12_000 } else { 400_000 })
            .threads(threads)
            .mandatory(&[
                "accepted-after-disturbance",
                "io-failed-item",
                "split-item",
                "rejected-item",
                "error-report-item",
                "mode-clone",
                "mode-sampled",
                "clock-stamped-item",
                "io-failed-split-item",
                "sample-rate-refused-on-long-lived-sampler",
            ]),
        || arb_case(11, 0),
        check,
    );
    ctx.explore(
        SubCfg::new(
            "c14-huge-entries",
            "same as c14-history-independence with 2-5 items of which ~1/3 are multi-megabyte in one of four ways (a 1.1-3 MB string property; thousands of metrics with 300-byte names; one metric with >120 000 repeated observations with 20-digit counts; split mode with megabyte-sized dimension values), so that every reusable buffer - also those with a non-empty prefix - shrinks after a large entry and is reused; non-trivial as above",
            if q { 150 } else { 4_000 },
        )
        .threads(threads)
        .mandatory(&["huge-item", "huge-many-long-metric-names", "huge-many-repeated-observations", "huge-split-dimension-values", "huge-string-property"])
        .shrink_iters(200),
        || arb_case(5, 9),
        check,
    );
}
