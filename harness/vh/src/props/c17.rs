//! C17 — global sinks route each entry to exactly one destination, by fixed precedence.

use crate::bq::*;
use crate::engine::*;
use crate::{vensure, vfail};
use metrique_writer::sink::{AttachGlobalEntrySink, AttachHandle};
use metrique_writer_core::global::{ThreadLocalTestSinkGuard, TokioRuntimeTestSinkGuard};
use metrique_writer_core::sink::FlushWait;
use metrique_writer_core::{AnyEntrySink, BoxEntry, BoxEntrySink, Entry, EntrySink, GlobalEntrySink};
use proptest::prelude::*;
use serde::{Deserialize, Serialize};
use std::panic::{AssertUnwindSafe, catch_unwind};
use std::sync::mpsc;
use std::collections::BTreeMap;
use std::sync::{Arc, Mutex};

metrique_writer::sink::global_entry_sink! { G0 }
metrique_writer::sink::global_entry_sink! { G1 }
static LOCK: Mutex<()> = Mutex::new(());

/// tagged collector
#[derive(Clone)]
struct Collector {
    tag: u8,
    got: Arc<Mutex<Vec<(u8, Id)>>>,
}
impl EntrySink<BoxEntry> for Collector {
    fn append(&self, entry: BoxEntry) {
        if let Seen::Entry(id) = identify(&entry) {
            self.got.lock().unwrap().push((self.tag, id));
        }
    }
    fn flush_async(&self) -> FlushWait {
        FlushWait::ready()
    }
}

#[derive(Clone, Copy, Debug, PartialEq, Serialize, Deserialize)]
pub enum Op {
    Attach(u8),
    DropAttach,
    SetTl { t: u8, sink: u8 },
    DropTl { t: u8 },
    SetRt { r: u8, sink: u8 },
    DropRt { r: u8 },
    /// thread t (optionally inside runtime r) appends: kind 0 = try_append, 1 = append, 2 = sink().append
    Append { t: u8, r: Option<u8>, kind: u8 },
    /// the same operations on another global must not interfere
    OtherGlobalAppend,
    /// attach from worker thread t (optionally inside runtime r) - a thread that may have a
    /// thread-local test sink installed / a runtime with a test sink: neither counts as "attached"
    AttachOn { t: u8, r: Option<u8>, sink: u8 },
    /// thread t: `with_test_sink(sink, || append)` - scoped thread-local install, restored on return
    WithTl { t: u8, sink: u8, kind: u8 },
    /// thread t, inside runtime r: `set_test_sink_on_current_tokio_runtime(sink)` (the runtime is
    /// taken from the caller's context); the guard travels back to the controller
    SetRtCurrent { t: u8, r: u8, sink: u8 },
    /// the runtime guard of r is dropped on worker thread t (the guard is Send)
    DropRtOn { t: u8, r: u8 },
}

#[derive(Clone, Debug, Serialize, Deserialize)]
pub struct Case {
    pub ops: Vec<Op>,
    pub service_metrics: bool,
}

const NT: usize = 3;
const NR: usize = 2;

enum Cmd {
    SetTl(BoxEntrySink, mpsc::Sender<bool>),
    DropTl(mpsc::Sender<bool>),
    Append {
        rt: Option<Arc<tokio::runtime::Runtime>>,
        kind: u8,
        id: Id,
        reply: mpsc::Sender<Result<bool, ()>>,
        /// what try_sink().is_some() / is_attached() say on this thread right before the append
        probe: mpsc::Sender<(bool, bool)>,
    },
    /// attach on this thread; the handle stays with the thread until DropAttach
    Attach {
        rt: Option<Arc<tokio::runtime::Runtime>>,
        sink: BoxEntrySink,
        reply: mpsc::Sender<bool>,
    },
    DropAttach(mpsc::Sender<bool>),
    WithTl {
        sink: BoxEntrySink,
        kind: u8,
        id: Id,
        /// Err = with_test_sink panicked; Ok(appended)
        reply: mpsc::Sender<Result<bool, ()>>,
    },
    SetRtCurrent {
        rt: Arc<tokio::runtime::Runtime>,
        sink: BoxEntrySink,
        reply: mpsc::Sender<Option<TokioRuntimeTestSinkGuard>>,
    },
    DropRtGuard(TokioRuntimeTestSinkGuard, mpsc::Sender<bool>),
    Quit,
}

trait Glob {
    fn g_attach(s: BoxEntrySink) -> AttachHandle;
    fn g_try_append(e: TestE) -> Result<(), TestE>;
    fn g_append(e: TestE);
    fn sink_append(e: TestE);
    fn has_sink() -> (bool, bool);
    fn set_tl(s: BoxEntrySink) -> ThreadLocalTestSinkGuard;
    fn set_rt(h: &tokio::runtime::Handle, s: BoxEntrySink) -> TokioRuntimeTestSinkGuard;
    fn set_rt_current(s: BoxEntrySink) -> TokioRuntimeTestSinkGuard;
    fn with_tl(s: BoxEntrySink, f: &mut dyn FnMut() -> bool) -> bool;
}
macro_rules! impl_glob {
    ($g:ty) => {
        impl Glob for $g {
            fn g_attach(s: BoxEntrySink) -> AttachHandle {
                <$g as AttachGlobalEntrySink>::attach((s, ()))
            }
            fn g_try_append(e: TestE) -> Result<(), TestE> {
                <$g as AttachGlobalEntrySink>::try_append(e)
            }
            fn g_append(e: TestE) {
                <$g as GlobalEntrySink>::append(e)
            }
            fn sink_append(e: TestE) {
                <$g as GlobalEntrySink>::sink().append_any(e)
            }
            fn has_sink() -> (bool, bool) {
                (<$g as AttachGlobalEntrySink>::try_sink().is_some(), <$g as AttachGlobalEntrySink>::is_attached())
            }
            fn set_tl(s: BoxEntrySink) -> ThreadLocalTestSinkGuard {
                <$g>::set_test_sink(s)
            }
            fn set_rt(h: &tokio::runtime::Handle, s: BoxEntrySink) -> TokioRuntimeTestSinkGuard {
                <$g>::set_test_sink_for_tokio_runtime(h, s)
            }
            fn set_rt_current(s: BoxEntrySink) -> TokioRuntimeTestSinkGuard {
                <$g>::set_test_sink_on_current_tokio_runtime(s)
            }
            fn with_tl(s: BoxEntrySink, f: &mut dyn FnMut() -> bool) -> bool {
                <$g>::with_test_sink(s, || f())
            }
        }
    };
}
impl_glob!(G0);
impl_glob!(metrique_service_metrics::ServiceMetrics);

fn worker<G: Glob>(rx: mpsc::Receiver<Cmd>) {
    let mut guard: Option<ThreadLocalTestSinkGuard> = None;
    let mut attach_handle: Option<AttachHandle> = None;
    while let Ok(cmd) = rx.recv() {
        match cmd {
            Cmd::SetTl(s, reply) => {
                let r = catch_unwind(AssertUnwindSafe(|| G::set_tl(s)));
                match r {
                    Ok(g) => {
                        // a second guard replaces nothing: keep the first one alive
                        if guard.is_none() {
                            guard = Some(g);
                        } else {
                            std::mem::forget(g);
                        }
                        let _ = reply.send(true);
                    }
                    Err(_) => {
                        let _ = reply.send(false);
                    }
                }
            }
            Cmd::DropTl(reply) => {
                let had = guard.take().is_some();
                let _ = reply.send(had);
            }
            Cmd::Append { rt, kind, id, reply, probe } => {
                let _enter = rt.as_ref().map(|r| r.enter());
                let _ = probe.send(catch_unwind(AssertUnwindSafe(|| G::has_sink())).unwrap_or((false, false)));
                let r = catch_unwind(AssertUnwindSafe(|| match kind % 3 {
                    0 => G::g_try_append(TestE(id)).is_ok(),
                    1 => {
                        G::g_append(TestE(id));
                        true
                    }
                    _ => {
                        G::sink_append(TestE(id));
                        true
                    }
                }));
                let _ = reply.send(r.map_err(|_| ()));
            }
            Cmd::Attach { rt, sink, reply } => {
                let _enter = rt.as_ref().map(|r| r.enter());
                match catch_unwind(AssertUnwindSafe(|| G::g_attach(sink))) {
                    Ok(h) => {
                        if attach_handle.is_none() {
                            attach_handle = Some(h);
                        } else {
                            std::mem::forget(h);
                        }
                        let _ = reply.send(true);
                    }
                    Err(_) => {
                        let _ = reply.send(false);
                    }
                }
            }
            Cmd::DropAttach(reply) => {
                let had = attach_handle.take().is_some();
                let _ = reply.send(had);
            }
            Cmd::WithTl { sink, kind, id, reply } => {
                let r = catch_unwind(AssertUnwindSafe(|| {
                    G::with_tl(sink, &mut || match kind % 3 {
                        0 => G::g_try_append(TestE(id)).is_ok(),
                        1 => {
                            G::g_append(TestE(id));
                            true
                        }
                        _ => {
                            G::sink_append(TestE(id));
                            true
                        }
                    })
                }));
                let _ = reply.send(r.map_err(|_| ()));
            }
            Cmd::SetRtCurrent { rt, sink, reply } => {
                let _enter = rt.enter();
                let r = catch_unwind(AssertUnwindSafe(|| G::set_rt_current(sink)));
                let _ = reply.send(r.ok());
            }
            Cmd::DropRtGuard(g, reply) => {
                drop(g);
                let _ = reply.send(true);
            }
            Cmd::Quit => break,
        }
    }
    drop(attach_handle);
    drop(guard);
}

fn run_history<G: Glob + 'static>(case: &Case) -> CaseResult {
    let _l = LOCK.lock().unwrap_or_else(|e| e.into_inner());
    let got: Arc<Mutex<Vec<(u8, Id)>>> = Default::default();
    let mk = |tag: u8| BoxEntrySink::new(Collector { tag, got: got.clone() });
    let other_got: Arc<Mutex<Vec<(u8, Id)>>> = Default::default();
    let _other = G1::attach((
        Collector {
            tag: 99,
            got: other_got.clone(),
        },
        (),
    ));
    let rts: Vec<Arc<tokio::runtime::Runtime>> = (0..NR)
        .map(|_| Arc::new(tokio::runtime::Builder::new_current_thread().build().unwrap()))
        .collect();
    let mut txs = vec![];
    let mut joins = vec![];
    for _ in 0..NT {
        let (tx, rx) = mpsc::channel();
        txs.push(tx);
        joins.push(std::thread::spawn(move || worker::<G>(rx)));
    }
    // model
    let mut attached: Option<u8> = None;
    let mut attach_handle: Option<AttachHandle> = None;
    let mut attach_owner: Option<usize> = None;
    let mut tl: [Option<u8>; NT] = [None; NT];
    let mut rt: [Option<u8>; NR] = [None; NR];
    let mut rt_guards: Vec<Option<TokioRuntimeTestSinkGuard>> = (0..NR).map(|_| None).collect();
    let mut expected: Vec<(u8, Id)> = vec![];
    let mut seq = 0u32;
    let mut classes: Classes = vec![];
    let mut panics = 0;
    let mut levels_used = [false; 3];
    let result: Result<(), Fail> = (|| {
        for (i, op) in case.ops.iter().enumerate() {
            match *op {
                Op::Attach(s) => {
                    let r = catch_unwind(AssertUnwindSafe(|| G::g_attach(mk(s))));
                    match (r, attached) {
                        (Ok(h), None) => {
                            attach_handle = Some(h);
                            attached = Some(s);
                            levels_used[2] = true;
                        }
                        (Err(_), Some(_)) => {
                            panics += 1;
                            classes.push("panic-attach-while-attached");
                        }
                        (Ok(h), Some(_)) => {
                            std::mem::forget(h);
                            vfail!("global:double-attach-accepted", "op {i}: attach succeeded while a sink was already attached");
                        }
                        (Err(_), None) => vfail!("global:attach-panicked", "op {i}: attach panicked although nothing was attached"),
                    }
                }
                Op::DropAttach => {
                    if let Some(h) = attach_handle.take() {
                        drop(h);
                        attached = None;
                    } else if let Some(t) = attach_owner.take() {
                        let (rtx, rrx) = mpsc::channel();
                        txs[t].send(Cmd::DropAttach(rtx)).unwrap();
                        let _ = rrx.recv().unwrap();
                        attached = None;
                    }
                }
                Op::AttachOn { t, r, sink } => {
                    let t = t as usize % NT;
                    let r = r.map(|x| x as usize % NR);
                    let (rtx, rrx) = mpsc::channel();
                    txs[t]
                        .send(Cmd::Attach {
                            rt: r.map(|x| rts[x].clone()),
                            sink: mk(sink),
                            reply: rtx,
                        })
                        .unwrap();
                    let ok = rrx.recv().unwrap();
                    match (ok, attached) {
                        (true, None) => {
                            attach_owner = Some(t);
                            attached = Some(sink);
                            levels_used[2] = true;
                            if tl[t].is_some() || r.map(|x| rt[x].is_some()).unwrap_or(false) {
                                classes.push("attach-from-a-thread-with-a-test-sink");
                            }
                        }
                        (false, Some(_)) => {
                            panics += 1;
                            classes.push("panic-attach-while-attached");
                        }
                        (true, Some(_)) => vfail!("global:double-attach-accepted", "op {i}: attach succeeded while a sink was already attached"),
                        (false, None) => vfail!(
                            "global:attach-panicked",
                            "op {i}: attach from thread {t} (runtime {r:?}) panicked although nothing was attached (thread-local test sink there: {:?}, runtime test sink: {:?})",
                            tl[t],
                            r.and_then(|x| rt[x])
                        ),
                    }
                }
                Op::SetTl { t, sink } => {
                    let t = t as usize % NT;
                    let (rtx, rrx) = mpsc::channel();
                    txs[t].send(Cmd::SetTl(mk(sink), rtx)).unwrap();
                    let ok = rrx.recv().unwrap();
                    match (ok, tl[t]) {
                        (true, None) => {
                            tl[t] = Some(sink);
                            levels_used[0] = true;
                        }
                        (false, Some(_)) => {
                            panics += 1;
                            classes.push("panic-second-thread-local");
                        }
                        (true, Some(_)) => vfail!("global:second-thread-local-accepted", "op {i}: a second thread-local test sink was installed"),
                        (false, None) => vfail!("global:thread-local-install-panicked", "op {i}: installing the first thread-local test sink panicked"),
                    }
                }
                Op::DropTl { t } => {
                    let t = t as usize % NT;
                    let (rtx, rrx) = mpsc::channel();
                    txs[t].send(Cmd::DropTl(rtx)).unwrap();
                    let _ = rrx.recv().unwrap();
                    tl[t] = None;
                }
                Op::SetRt { r, sink } => {
                    let r = r as usize % NR;
                    let res = catch_unwind(AssertUnwindSafe(|| G::set_rt(rts[r].handle(), mk(sink))));
                    match (res, rt[r]) {
                        (Ok(g), None) => {
                            rt_guards[r] = Some(g);
                            rt[r] = Some(sink);
                            levels_used[1] = true;
                        }
                        (Err(_), Some(_)) => {
                            panics += 1;
                            classes.push("panic-second-runtime-sink");
                        }
                        (Ok(g), Some(_)) => {
                            std::mem::forget(g);
                            vfail!("global:second-runtime-sink-accepted", "op {i}: a second runtime test sink was installed");
                        }
                        (Err(_), None) => vfail!("global:runtime-install-panicked", "op {i}: installing the first runtime test sink panicked"),
                    }
                }
                Op::DropRt { r } => {
                    let r = r as usize % NR;
                    rt_guards[r] = None;
                    rt[r] = None;
                }
                Op::Append { t, r, kind } => {
                    let t = t as usize % NT;
                    let r = r.map(|x| x as usize % NR);
                    let id = Id { p: t as u32, s: seq };
                    seq += 1;
                    let dest = tl[t].or(r.and_then(|x| rt[x])).or(attached);
                    let (rtx, rrx) = mpsc::channel();
                    let (ptx, prx) = mpsc::channel();
                    txs[t]
                        .send(Cmd::Append {
                            rt: r.map(|x| rts[x].clone()),
                            kind,
                            id,
                            reply: rtx,
                            probe: ptx,
                        })
                        .unwrap();
                    let (has_sink, is_att) = prx.recv().unwrap();
                    vensure!(
                        has_sink == dest.is_some() && is_att == dest.is_some(),
                        "global:try-sink-disagrees-with-routing",
                        "op {i}: on thread {t} (runtime {r:?}) try_sink().is_some() = {has_sink}, is_attached() = {is_att}, but the precedence gives destination {dest:?}"
                    );
                    let res = rrx.recv().unwrap();
                    match (dest, res, kind % 3) {
                        (Some(d), Ok(true), _) => expected.push((d, id)),
                        (None, Ok(false), 0) => classes.push("handed-back"),
                        (None, Err(()), 1) | (None, Err(()), 2) => {
                            panics += 1;
                            classes.push("panic-append-unattached");
                        }
                        // the docs only say append()/sink() "may panic" with nothing attached: a
                        // silent discard is as acceptable, as long as the entry goes nowhere (the
                        // collectors are compared right below)
                        (None, Ok(true), 1) | (None, Ok(true), 2) => classes.push("silent-discard-unattached"),
                        (d, res, k) => vfail!(
                            "global:wrong-append-outcome",
                            "op {i}: append kind {k} on thread {t} (runtime {r:?}) with model destination {d:?} returned {res:?}"
                        ),
                    }
                    // exactly-one-destination is checked against the collectors right away
                    let g = got.lock().unwrap().clone();
                    vensure!(
                        g == expected,
                        "global:wrong-destination",
                        "op {i} ({op:?}): collectors hold {:?}, expected {:?} (model: thread-local {tl:?}, runtime {rt:?}, attached {attached:?})",
                        g.iter().rev().take(3).collect::<Vec<_>>(),
                        expected.iter().rev().take(3).collect::<Vec<_>>()
                    );
                }
                Op::WithTl { t, sink, kind } => {
                    let t = t as usize % NT;
                    let id = Id { p: t as u32, s: seq };
                    seq += 1;
                    let (rtx, rrx) = mpsc::channel();
                    txs[t].send(Cmd::WithTl { sink: mk(sink), kind, id, reply: rtx }).unwrap();
                    let res = rrx.recv().unwrap();
                    match (res, tl[t]) {
                        (Ok(true), None) => {
                            expected.push((sink, id));
                            levels_used[0] = true;
                            classes.push("scoped-thread-local-sink");
                        }
                        (Err(()), Some(_)) => {
                            panics += 1;
                            classes.push("panic-second-thread-local");
                        }
                        (res, had) => vfail!(
                            "global:with-test-sink-outcome",
                            "op {i}: with_test_sink on thread {t} (thread-local sink already there: {had:?}) returned {res:?}"
                        ),
                    }
                    let g = got.lock().unwrap().clone();
                    vensure!(
                        g == expected,
                        "global:wrong-destination",
                        "op {i} ({op:?}): collectors hold {:?}, expected {:?}",
                        g.iter().rev().take(3).collect::<Vec<_>>(),
                        expected.iter().rev().take(3).collect::<Vec<_>>()
                    );
                }
                Op::SetRtCurrent { t, r, sink } => {
                    let t = t as usize % NT;
                    let r = r as usize % NR;
                    let (rtx, rrx) = mpsc::channel();
                    txs[t].send(Cmd::SetRtCurrent { rt: rts[r].clone(), sink: mk(sink), reply: rtx }).unwrap();
                    let res = rrx.recv().unwrap();
                    match (res, rt[r]) {
                        (Some(g), None) => {
                            rt_guards[r] = Some(g);
                            rt[r] = Some(sink);
                            levels_used[1] = true;
                            classes.push("runtime-sink-installed-from-inside-the-runtime");
                        }
                        (None, Some(_)) => {
                            panics += 1;
                            classes.push("panic-second-runtime-sink");
                        }
                        (Some(g), Some(_)) => {
                            std::mem::forget(g);
                            vfail!("global:second-runtime-sink-accepted", "op {i}: a second runtime test sink was installed");
                        }
                        (None, None) => vfail!("global:runtime-install-panicked", "op {i}: installing the first runtime test sink (current runtime) panicked"),
                    }
                }
                Op::DropRtOn { t, r } => {
                    let t = t as usize % NT;
                    let r = r as usize % NR;
                    if let Some(g) = rt_guards[r].take() {
                        let (rtx, rrx) = mpsc::channel();
                        txs[t].send(Cmd::DropRtGuard(g, rtx)).unwrap();
                        let _ = rrx.recv().unwrap();
                        classes.push("runtime-guard-dropped-on-another-thread");
                    }
                    rt[r] = None;
                }
                Op::OtherGlobalAppend => {
                    let id = Id { p: 77, s: seq };
                    seq += 1;
                    G1::append(TestE(id));
                    vensure!(
                        other_got.lock().unwrap().last() == Some(&(99, id)) && !got.lock().unwrap().iter().any(|x| x.1 == id),
                        "global:globals-interfere",
                        "an entry appended to another global sink was not routed to that sink only"
                    );
                }
            }
        }
        Ok(())
    })();
    // clean up whatever the history left behind
    for tx in &txs {
        let _ = tx.send(Cmd::Quit);
    }
    for j in joins {
        let _ = j.join();
    }
    drop(rt_guards);
    drop(attach_handle);
    result?;
    if levels_used.iter().all(|x| *x) && panics >= 1 {
        classes.push("nt");
    }
    if levels_used.iter().all(|x| *x) {
        classes.push("all-three-levels");
    }
    classes.sort();
    classes.dedup();
    Ok(classes)
}

pub fn check(case: &Case) -> CaseResult {
    if case.service_metrics {
        run_history::<metrique_service_metrics::ServiceMetrics>(case).map(|mut c| {
            c.push("service-metrics-global");
            c
        })
    } else {
        run_history::<G0>(case)
    }
}

// ---------------------------------------------------------------------------------------------
// appends racing with a detach

#[derive(Clone, Debug, Serialize, Deserialize)]
pub struct RaceCase {
    pub n: u16,
    pub detach_after: u8,
    pub jitter: Vec<u8>,
    pub queue_backed: bool,
}

pub fn check_race(case: &RaceCase) -> CaseResult {
    let _l = LOCK.lock().unwrap_or_else(|e| e.into_inner());
    let got: Arc<Mutex<Vec<(u8, Id)>>> = Default::default();
    let log = Arc::new(EventLog::default());
    let handle = if case.queue_backed {
        let gate = Gate::new(true);
        let stream = BqStream::new(vec![], gate, log.clone());
        let (q, h) = metrique_writer::sink::BackgroundQueueBuilder::new()
            .capacity(100_000)
            .flush_interval(std::time::Duration::from_millis(1))
            .build_boxed(stream);
        G0::attach((q, h))
    } else {
        G0::attach((Collector { tag: 1, got: got.clone() }, ()))
    };
    let n = case.n as u32;
    let handed_back = std::sync::atomic::AtomicU32::new(0);
    let accepted: Mutex<Vec<Id>> = Mutex::new(vec![]);
    let progress = std::sync::atomic::AtomicU32::new(0);
    std::thread::scope(|s| {
        let jit = case.jitter.clone();
        let hb = &handed_back;
        let acc = &accepted;
        let progress = &progress;
        s.spawn(move || {
            for k in 0..n {
                let id = Id { p: 0, s: k };
                match G0::try_append(TestE(id)) {
                    Ok(()) => acc.lock().unwrap().push(id),
                    Err(e) => {
                        // handed back unchanged
                        if e.0 == id {
                            hb.fetch_add(1, std::sync::atomic::Ordering::SeqCst);
                        }
                    }
                }
                progress.store(k + 1, std::sync::atomic::Ordering::SeqCst);
                if !jit.is_empty() {
                    jitter(jit[k as usize % jit.len()] / 4);
                }
            }
        });
        let target = (case.detach_after as u32).min(n);
        while progress.load(std::sync::atomic::Ordering::SeqCst) < target {
            std::thread::yield_now();
        }
        drop(handle);
    });
    let accepted = accepted.into_inner().unwrap();
    let delivered: Vec<Id> = if case.queue_backed {
        log.snapshot()
            .iter()
            .filter_map(|e| if let Ev::Next(id, _) = e { Some(*id) } else { None })
            .collect()
    } else {
        got.lock().unwrap().iter().map(|x| x.1).collect()
    };
    let hb = handed_back.load(std::sync::atomic::Ordering::SeqCst);
    vensure!(
        accepted.len() as u32 + hb == n,
        "global:entry-neither-accepted-nor-handed-back",
        "{n} attempts: {} accepted, {hb} handed back",
        accepted.len()
    );
    vensure!(
        delivered == accepted,
        "global:accepted-entry-not-written",
        "entries accepted before the detach: {}, delivered: {} (everything the detached sink had accepted must be written, nothing handed back may appear)",
        accepted.len(),
        delivered.len()
    );
    if case.queue_backed {
        let evs = log.snapshot();
        vensure!(
            evs.iter().any(|e| matches!(e, Ev::StreamDropped)),
            "shutdown:stream-not-closed",
            "attach handle dropped but the queue's stream was not closed"
        );
    }
    let mut classes: Classes = vec![];
    if hb > 0 && !accepted.is_empty() {
        classes.push("nt");
        classes.push("detach-mid-stream");
    }
    if case.queue_backed {
        classes.push("queue-backed");
    }
    Ok(classes)
}

// ---------------------------------------------------------------------------------------------
// a detach must wait for (and flush) an append that is already in flight

/// sink whose `append` can be held by the harness; its "join handle" flushes what was accepted
struct SlowSink {
    accepted: Arc<Mutex<Vec<Id>>>,
    closed: Arc<std::sync::atomic::AtomicBool>,
    entered: Arc<(Mutex<bool>, std::sync::Condvar)>,
    go: Arc<(Mutex<bool>, std::sync::Condvar)>,
    late: Arc<Mutex<Vec<Id>>>,
}
impl EntrySink<BoxEntry> for SlowSink {
    fn append(&self, entry: BoxEntry) {
        let Seen::Entry(id) = identify(&entry) else { return };
        {
            let mut e = self.entered.0.lock().unwrap();
            *e = true;
            self.entered.1.notify_all();
        }
        // held here by the harness (bounded)
        let mut g = self.go.0.lock().unwrap();
        let deadline = std::time::Instant::now() + std::time::Duration::from_secs(5);
        while !*g && std::time::Instant::now() < deadline {
            g = self.go.1.wait_timeout(g, std::time::Duration::from_millis(50)).unwrap().0;
        }
        drop(g);
        if self.closed.load(std::sync::atomic::Ordering::SeqCst) {
            // the sink has already been shut down and flushed: this entry can never be written
            self.late.lock().unwrap().push(id);
        } else {
            self.accepted.lock().unwrap().push(id);
        }
    }
    fn flush_async(&self) -> FlushWait {
        FlushWait::ready()
    }
}
struct SlowJoin {
    closed: Arc<std::sync::atomic::AtomicBool>,
    flushed: Arc<Mutex<Vec<Id>>>,
    accepted: Arc<Mutex<Vec<Id>>>,
}
impl Drop for SlowJoin {
    fn drop(&mut self) {
        // shutting down: flush everything accepted so far, accept nothing afterwards
        self.closed.store(true, std::sync::atomic::Ordering::SeqCst);
        let a = self.accepted.lock().unwrap().clone();
        self.flushed.lock().unwrap().extend(a);
    }
}

#[derive(Clone, Debug, Serialize, Deserialize)]
pub struct InflightCase {
    pub kind: u8,
    pub hold_ms: u8,
    pub before: u8,
}

pub fn check_inflight(case: &InflightCase) -> CaseResult {
    let _l = LOCK.lock().unwrap_or_else(|e| e.into_inner());
    let accepted: Arc<Mutex<Vec<Id>>> = Default::default();
    let flushed: Arc<Mutex<Vec<Id>>> = Default::default();
    let late: Arc<Mutex<Vec<Id>>> = Default::default();
    let closed = Arc::new(std::sync::atomic::AtomicBool::new(false));
    let entered = Arc::new((Mutex::new(false), std::sync::Condvar::new()));
    let go = Arc::new((Mutex::new(true), std::sync::Condvar::new()));
    let sink = SlowSink {
        accepted: accepted.clone(),
        closed: closed.clone(),
        entered: entered.clone(),
        go: go.clone(),
        late: late.clone(),
    };
    let join = SlowJoin {
        closed: closed.clone(),
        flushed: flushed.clone(),
        accepted: accepted.clone(),
    };
    let handle = G0::attach((sink, join));
    // some ordinary appends first
    for k in 0..case.before {
        G0::append(TestE(Id { p: 0, s: k as u32 }));
    }
    // now hold the next append inside the sink
    *go.0.lock().unwrap() = false;
    *entered.0.lock().unwrap() = false;
    let id = Id { p: 1, s: 0 };
    let res = std::thread::scope(|s| {
        let a = s.spawn(move || match case.kind % 2 {
            0 => G0::try_append(TestE(id)).is_ok(),
            _ => {
                G0::sink().append_any(TestE(id));
                true
            }
        });
        // wait until the append is inside the sink
        {
            let mut e = entered.0.lock().unwrap();
            let deadline = std::time::Instant::now() + std::time::Duration::from_secs(5);
            while !*e && std::time::Instant::now() < deadline {
                e = entered.1.wait_timeout(e, std::time::Duration::from_millis(50)).unwrap().0;
            }
        }
        let d = s.spawn(move || drop(handle));
        // give the detach time to run (it may legitimately block until the append returns)
        std::thread::sleep(std::time::Duration::from_millis(case.hold_ms as u64 % 20 + 1));
        let detach_done_while_append_in_flight = d.is_finished();
        {
            let mut g = go.0.lock().unwrap();
            *g = true;
            go.1.notify_all();
        }
        let ok = a.join();
        let _ = d.join();
        (ok, detach_done_while_append_in_flight)
    });
    let (ok, early) = res;
    let ok = match ok {
        Ok(v) => v,
        Err(_) => vfail!(
            "global:append-panicked-during-detach",
            "the append that was in flight while the attach handle was dropped panicked: {:?}",
            take_last_panic()
        ),
    };
    let fl = flushed.lock().unwrap().clone();
    let lt = late.lock().unwrap().clone();
    let mut classes: Classes = vec![];
    // a sink() handle obtained earlier is a plain clone: only try_append / append go through the global
    if case.kind % 2 == 0 {
        vensure!(
            !ok || fl.contains(&id),
            "global:accepted-entry-not-written",
            "try_append returned Ok for an entry that was in flight when the attach handle was dropped, but the detached sink was shut down without it (detach finished while the append was in flight: {early}; late: {lt:?})"
        );
        classes.push("try-append-in-flight");
    } else {
        classes.push("sink-clone-in-flight");
    }
    for k in 0..case.before {
        vensure!(
            fl.contains(&Id { p: 0, s: k as u32 }),
            "global:accepted-entry-not-written",
            "entry appended before the detach was not flushed by it"
        );
    }
    classes.push("nt");
    Ok(classes)
}

// ---------------------------------------------------------------------------------------------
// several threads append at the same time, each with or without its own thread-local test sink

#[derive(Clone, Debug, Serialize, Deserialize)]
pub struct ConcCase {
    /// per thread: has a thread-local test sink, number of appends, after how many appends the
    /// thread drops its test sink (255 = never), append kind
    pub threads: Vec<(bool, u8, u8, u8)>,
    pub attached: bool,
    pub jitter: Vec<u8>,
}

pub fn check_concurrent(case: &ConcCase) -> CaseResult {
    let _l = LOCK.lock().unwrap_or_else(|e| e.into_inner());
    let got: Arc<Mutex<Vec<(u8, Id)>>> = Arc::new(Mutex::new(vec![]));
    let coll = |tag: u8| BoxEntrySink::new(Collector { tag, got: got.clone() });
    let handle = if case.attached {
        Some(no_panic("attach", || <G0 as AttachGlobalEntrySink>::attach((coll(100), ())))?)
    } else {
        None
    };
    let nt = case.threads.len();
    let barrier = std::sync::Barrier::new(nt);
    // what each thread was told by try_append / observed for append
    let results: Vec<Vec<(Id, Option<u8>, bool)>> = std::thread::scope(|s| {
        let hs: Vec<_> = case
            .threads
            .iter()
            .enumerate()
            .map(|(t, (has_tl, n, drop_after, kind))| {
                let barrier = &barrier;
                let coll = &coll;
                let jit = case.jitter.clone();
                let attached = case.attached;
                s.spawn(move || {
                    let mut guard = if *has_tl { Some(G0::set_test_sink(coll(t as u8))) } else { None };
                    barrier.wait();
                    let mut out = vec![];
                    for k in 0..*n {
                        if k == *drop_after {
                            guard = None;
                        }
                        if !jit.is_empty() {
                            crate::bq::jitter(jit[(t + k as usize) % jit.len()]);
                        }
                        let id = Id { p: t as u32, s: k as u32 };
                        // model destination: own thread-local sink, else the attached sink
                        let dest = if guard.is_some() { Some(t as u8) } else if attached { Some(100u8) } else { None };
                        let accepted = match (kind % 2, dest) {
                            (0, _) => G0::try_append(TestE(id)).is_ok(),
                            // append() may panic with nothing attached: only used with a destination
                            (_, Some(_)) => {
                                <G0 as GlobalEntrySink>::append(TestE(id));
                                true
                            }
                            (_, None) => G0::try_append(TestE(id)).is_ok(),
                        };
                        out.push((id, dest, accepted));
                    }
                    drop(guard);
                    out
                })
            })
            .collect();
        hs.into_iter().map(|h| h.join().unwrap_or_default()).collect()
    });
    drop(handle);
    let got = got.lock().unwrap().clone();
    let mut classes: Classes = vec![];
    for per_thread in &results {
        let mut last_pos: BTreeMap<u8, usize> = BTreeMap::new();
        for (id, dest, accepted) in per_thread {
            let hits: Vec<(usize, u8)> = got.iter().enumerate().filter(|(_, (_, x))| x == id).map(|(i, (tag, _))| (i, *tag)).collect();
            match dest {
                Some(d) => {
                    vensure!(*accepted, "global:wrong-append-outcome", "entry {id:?} had destination {d} but the append was refused");
                    vensure!(
                        hits.len() == 1 && hits[0].1 == *d,
                        "global:wrong-destination",
                        "entry {id:?} appended concurrently with {} other threads: expected exactly once in sink {d} (100 = attached, else the thread's own test sink), found in {:?}",
                        nt - 1,
                        hits.iter().map(|h| h.1).collect::<Vec<_>>()
                    );
                    // per thread and destination the order is the append order
                    let lp = last_pos.entry(*d).or_insert(0);
                    vensure!(hits[0].0 >= *lp, "global:order-not-kept", "entry {id:?} reached sink {d} before an earlier entry of the same thread");
                    *lp = hits[0].0;
                }
                None => {
                    vensure!(!*accepted, "global:wrong-append-outcome", "entry {id:?} had no destination but try_append returned Ok");
                    vensure!(hits.is_empty(), "global:wrong-destination", "entry {id:?} had no destination but was written to {:?}", hits);
                    classes.push("handed-back");
                }
            }
        }
    }
    let total: usize = results.iter().map(|r| r.iter().filter(|x| x.1.is_some()).count()).sum();
    vensure!(got.len() == total, "global:wrong-destination", "{} entries collected, {total} had a destination", got.len());
    let with_tl = case.threads.iter().filter(|t| t.0).count();
    if nt >= 2 && with_tl >= 1 && with_tl < nt {
        classes.push("threads-with-and-without-own-test-sink");
        classes.push("nt");
    }
    if case.threads.iter().any(|t| t.0 && t.2 < t.1) {
        classes.push("test-sink-dropped-while-others-append");
    }
    Ok(classes)
}

// ---------------------------------------------------------------------------------------------
// AttachHandle::forget is irreversible for a static: one history per child process

pub fn child_forget(arg: &str) -> i32 {
    // arg = number of appends before / after
    let n: u32 = arg.parse().unwrap_or(3);
    let got: Arc<Mutex<Vec<(u8, Id)>>> = Default::default();
    let h = G0::attach((Collector { tag: 5, got: got.clone() }, ()));
    for k in 0..n {
        G0::append(TestE(Id { p: 0, s: k }));
    }
    h.forget();
    // still attached: appends keep going to the sink, attaching again panics, the global is intact
    for k in n..2 * n {
        if G0::try_append(TestE(Id { p: 0, s: k })).is_err() {
            println!("CHILD-FAIL try_append handed the entry back after forget()");
            return 1;
        }
    }
    let again = catch_unwind(AssertUnwindSafe(|| {
        G0::attach((Collector { tag: 6, got: got.clone() }, ()))
    }));
    if let Ok(h2) = again {
        std::mem::forget(h2);
        println!("CHILD-FAIL second attach after forget() did not panic");
        return 1;
    }
    G0::append(TestE(Id { p: 0, s: 2 * n }));
    let g = got.lock().unwrap();
    let ok = g.len() as u32 == 2 * n + 1 && g.iter().all(|x| x.0 == 5) && g.iter().enumerate().all(|(i, x)| x.1.s == i as u32);
    if ok {
        println!("CHILD-OK {}", g.len());
        0
    } else {
        println!("CHILD-FAIL collected {:?}", g.len());
        1
    }
}

fn forget_children(ctx: &mut Ctx) {
    let mut t = Tally::new(
        "c17-forget-child-process",
        "AttachHandle::forget() is irreversible for a static: each history runs in a child process (vcheck C17 --child n): attach, n appends, forget, n more appends (must still be delivered, in order, to the same sink), attach again (must panic without damaging the global), one more append. Non-trivial = every history",
    );
    let n_children = ctx.tier.pick(4, 40);
    let exe = crate::engine::self_exe();
    let mut failure = None;
    for i in 0..n_children {
        let n = 1 + (i * 7 + (ctx.seed % 5) as usize) % 40;
        let out = std::process::Command::new(&exe)
            .args(["C17", "--child", &n.to_string()])
            .output();
        match out {
            Ok(o) => {
                let s = String::from_utf8_lossy(&o.stdout).to_string();
                if s.contains("CHILD-OK") {
                    t.record(n as u64, &["nt"], || serde_json::json!({"appends_before_and_after_forget": n}));
                } else {
                    failure = Some(Fail::new("global:forget", format!("child history n={n}: {s}")));
                    break;
                }
            }
            Err(e) => {
                ctx.inconclusive.push(format!("cannot spawn child: {e}"));
                break;
            }
        }
    }
    ctx.push_custom(t.finish(&[]));
    if let Some(f) = failure {
        ctx.report_violation("c17-forget-child-process", f, serde_json::json!({}), "child".into());
    }
}

// ---------------------------------------------------------------------------------------------
// several threads attach at the same instant: exactly one may win

#[derive(Clone, Debug, Serialize, Deserialize)]
pub struct ConcAttachCase {
    pub threads: u8,
    pub jitter: Vec<u8>,
    pub appends: u8,
}

pub fn check_concurrent_attach(case: &ConcAttachCase) -> CaseResult {
    let _l = LOCK.lock().unwrap_or_else(|e| e.into_inner());
    let got: Arc<Mutex<Vec<(u8, Id)>>> = Arc::new(Mutex::new(vec![]));
    let nt = 2 + (case.threads % 3) as usize;
    let barrier = std::sync::Barrier::new(nt);
    // a barrier releases its waiters microseconds apart; the spin rendezvous behind it lines the
    // attach calls up far more closely
    let arrived = std::sync::atomic::AtomicUsize::new(0);
    let handles: Vec<Option<AttachHandle>> = std::thread::scope(|s| {
        let hs: Vec<_> = (0..nt)
            .map(|t| {
                let got = got.clone();
                let barrier = &barrier;
                let arrived = &arrived;
                let jit = case.jitter.get(t).copied().unwrap_or(0);
                s.spawn(move || {
                    let sink = BoxEntrySink::new(Collector { tag: t as u8, got });
                    barrier.wait();
                    arrived.fetch_add(1, std::sync::atomic::Ordering::SeqCst);
                    let t0 = std::time::Instant::now();
                    while arrived.load(std::sync::atomic::Ordering::SeqCst) < nt && t0.elapsed() < std::time::Duration::from_millis(200) {
                        std::hint::spin_loop();
                    }
                    crate::bq::jitter(jit);
                    catch_unwind(AssertUnwindSafe(|| <G0 as AttachGlobalEntrySink>::attach((sink, ())))).ok()
                })
            })
            .collect();
        hs.into_iter().map(|h| h.join().unwrap_or(None)).collect()
    });
    let winners: Vec<usize> = handles.iter().enumerate().filter(|(_, h)| h.is_some()).map(|(i, _)| i).collect();
    let verdict: Result<(), Fail> = (|| {
        vensure!(
            winners.len() == 1,
            if winners.len() > 1 { "global:double-attach-accepted" } else { "global:attach-panicked" },
            "{nt} threads called attach() on an unattached global at the same instant: {} of them succeeded ({winners:?}); exactly one may",
            winners.len()
        );
        let w = winners[0] as u8;
        for k in 0..case.appends as u32 {
            <G0 as GlobalEntrySink>::append(TestE(Id { p: 0, s: k }));
        }
        let g = got.lock().unwrap().clone();
        vensure!(
            g.len() == case.appends as usize && g.iter().all(|x| x.0 == w),
            "global:wrong-destination",
            "thread {w} won the attach race, but {} appends arrived as {:?}",
            case.appends,
            g.iter().take(5).collect::<Vec<_>>()
        );
        Ok(())
    })();
    // detach whatever was attached; the global must be free again
    drop(handles);
    verdict?;
    vensure!(
        !<G0 as AttachGlobalEntrySink>::is_attached(),
        "global:still-attached-after-drop",
        "the winning handle was dropped but the global is still attached"
    );
    Ok(vec!["nt"])
}

pub fn arb_op() -> impl Strategy<Value = Op> {
    prop_oneof![
        3 => (0u8..4).prop_map(Op::Attach),
        2 => (0u8..3, prop::option::of(0u8..2), 0u8..4).prop_map(|(t, r, sink)| Op::AttachOn { t, r, sink }),
        2 => Just(Op::DropAttach),
        3 => (0u8..3, 10u8..14).prop_map(|(t, sink)| Op::SetTl { t, sink }),
        2 => (0u8..3).prop_map(|t| Op::DropTl { t }),
        3 => (0u8..2, 20u8..24).prop_map(|(r, sink)| Op::SetRt { r, sink }),
        2 => (0u8..2).prop_map(|r| Op::DropRt { r }),
        12 => (0u8..3, prop::option::of(0u8..2), 0u8..3).prop_map(|(t, r, kind)| Op::Append { t, r, kind }),
        1 => Just(Op::OtherGlobalAppend),
        2 => (0u8..3, 14u8..18, 0u8..3).prop_map(|(t, sink, kind)| Op::WithTl { t, sink, kind }),
        2 => (0u8..3, 0u8..2, 24u8..28).prop_map(|(t, r, sink)| Op::SetRtCurrent { t, r, sink }),
        1 => (0u8..3, 0u8..2).prop_map(|(t, r)| Op::DropRtOn { t, r }),
    ]
}

pub fn run(ctx: &mut Ctx) {
    ctx.assume("one history at a time per process (the globals are statics); worker threads and current-thread tokio runtimes are addressed by index; AttachHandle::forget runs in child processes");
    let q = ctx.tier == Tier::Quick;
    ctx.explore(
        SubCfg::new(
            "c17-routing",
            "histories (0-40 ops) over attach (from the controller or from a worker thread, optionally inside a runtime - a thread's or runtime's test sink does not make the global 'attached') / drop attach handle / install+drop thread-local test sink on one of 3 worker threads / install+drop runtime test sink on one of 2 current-thread tokio runtimes (by handle from outside, or set_test_sink_on_current_tokio_runtime from a thread inside it; the guard dropped by the controller or on a worker thread) / with_test_sink(sink, || append) scoped installs / append (try_append, append, sink().append) from a chosen thread optionally inside a chosen runtime, incl. the panicking operations (attach while attached, second thread-local / runtime install, append with nothing attached) under catch_unwind; on a harness-declared global and on ServiceMetrics; a second global must not interfere. Oracle: reference state machine {attached, tl[t], rt[r]}: destination = thread-local else runtime else attached else handed back (try_append) / panic (append); before every append try_sink() / is_attached() on that thread agree with the model destination; after EVERY append the tagged collectors hold exactly the expected (destination, entry) list; panicking ops leave the model state unchanged and later ops still behave per model. Non-trivial = all three levels were installed at some time and >= 1 panic path was taken",
            if q { 12_000 } else { 200_000 },
        )
        .shrink_iters(300)
        .mandatory(&["all-three-levels", "panic-attach-while-attached", "panic-second-thread-local", "panic-second-runtime-sink", "panic-append-unattached", "handed-back", "service-metrics-global", "attach-from-a-thread-with-a-test-sink", "scoped-thread-local-sink", "runtime-sink-installed-from-inside-the-runtime", "runtime-guard-dropped-on-another-thread"]),
        || (prop::collection::vec(arb_op(), 0..40), prop::bool::weighted(0.3)).prop_map(|(ops, service_metrics)| Case { ops, service_metrics }),
        check,
    );
    ctx.explore(
        SubCfg::new(
            "c17-append-vs-detach-race",
            "one thread try_appends n entries in a loop (generated jitter) while another drops the attach handle after k of them; the attached sink is a collector or a BackgroundQueue over a recording stream. Oracle: accepted + handed back == attempted, the delivered entries are exactly the accepted ones in order (everything the detached sink accepted is written, and for the queue the stream is closed), no entry both handed back and delivered. Non-trivial = the detach fell between two appends",
            if q { 400 } else { 10_000 },
        )
        .shrink_iters(50),
        || {
            (1u16..400, 0u8..200, prop::collection::vec(any::<u8>(), 0..6), any::<bool>()).prop_map(|(n, detach_after, jitter, queue_backed)| RaceCase {
                n,
                detach_after,
                jitter,
                queue_backed,
            })
        },
        check_race,
    );
    ctx.explore(
        SubCfg::new(
            "c17-detach-vs-inflight-append",
            "deterministic interleaving with a harness-owned sink whose append() is held: thread A is inside try_append (past the destination lookup, inside the sink), thread D drops the attach handle (whose drop flushes what the sink accepted and closes it), then A is released. Oracle: an entry for which try_append returned Ok has been flushed by the detach (equivalently: the detach waits for the in-flight append). Non-trivial = every case",
            if q { 60 } else { 1_500 },
        )
        .shrink_iters(10),
        || (any::<u8>(), any::<u8>(), 0u8..5).prop_map(|(kind, hold_ms, before)| InflightCase { kind, hold_ms, before }),
        check_inflight,
    );
    ctx.explore(
        SubCfg::new(
            "c17-concurrent-appends",
            "2-4 threads released together by a barrier, each with or without its own thread-local test sink (which it may drop after k of its appends), append 0-40 entries each (try_append or append) to one global that is attached or not. Oracle: every entry is found exactly once in exactly the sink the precedence names for the appending thread at that moment (its own test sink, else the attached sink, else handed back), per thread and sink in append order; nothing crosses between threads. Non-trivial = threads with and without an own test sink append at the same time",
            if q { 2_000 } else { 40_000 },
        )
        .shrink_iters(60)
        .mandatory(&["threads-with-and-without-own-test-sink", "test-sink-dropped-while-others-append", "handed-back"]),
        || {
            (
                prop::collection::vec((any::<bool>(), 0u8..40, prop_oneof![Just(255u8), 0u8..40], any::<u8>()), 2..5),
                prop::bool::weighted(0.7),
                prop::collection::vec(any::<u8>(), 0..5),
            )
                .prop_map(|(threads, attached, jitter)| ConcCase { threads, attached, jitter })
        },
        check_concurrent,
    );
    ctx.explore(
        SubCfg::new(
            "c17-concurrent-attach",
            "2-4 threads released together by a barrier each call attach() on the unattached global. Oracle: exactly one call succeeds, the others panic; 0-20 appends all reach the winner's sink; after its handle is dropped the global is unattached. Non-trivial = every case",
            if q { 20_000 } else { 300_000 },
        )
        .shrink_iters(20),
        || (any::<u8>(), prop::collection::vec(prop_oneof![3 => 0u8..4, 1 => any::<u8>()], 0..4), 0u8..20).prop_map(|(threads, jitter, appends)| ConcAttachCase { threads, jitter, appends }),
        check_concurrent_attach,
    );
    if ctx.replay.is_none() {
        forget_children(ctx);
    }
}

#[allow(dead_code)]
fn _e<E: Entry>(_: E) {}
