//! C18 — timers and stopwatches report exactly the spans they were asked to measure.

use crate::engine::*;
use crate::reclog::*;
use crate::{vensure, vfail};
use metrique::timers::{
    EpochMicros, EpochMillis, EpochSeconds, OwnedTimerGuard, Stopwatch, Timer, Timestamp, TimestampOnClose,
    TimestampValue,
};
use metrique_core::CloseValue;
use metrique_timesource::{Time, TimeSource, get_time_source, set_time_source, time_source};
use metrique_writer_core::value::ValueFormatter;
use proptest::prelude::*;
use serde::{Deserialize, Serialize};
use std::sync::{Arc, Mutex};
use std::time::{Duration, Instant, SystemTime, UNIX_EPOCH};

/// manual clock (own `Time` impl)
#[derive(Debug, Clone)]
pub struct ManualClock(Arc<Mutex<(SystemTime, Instant)>>);
impl ManualClock {
    pub fn new(wall: SystemTime) -> Self {
        ManualClock(Arc::new(Mutex::new((wall, Instant::now()))))
    }
    pub fn advance(&self, d: Duration) {
        let mut g = self.0.lock().unwrap();
        g.0 += d;
        g.1 += d;
    }
    pub fn set_wall(&self, t: SystemTime) {
        self.0.lock().unwrap().0 = t;
    }
}
impl Time for ManualClock {
    fn now(&self) -> SystemTime {
        self.0.lock().unwrap().0
    }
    fn instant(&self) -> Instant {
        self.0.lock().unwrap().1
    }
}

#[derive(Clone, Copy, Debug, PartialEq, Eq, Hash, Serialize, Deserialize)]
pub enum End {
    Drop,
    Stop,
    Overwrite,
    Discard,
}
pub const ENDS: [End; 4] = [End::Drop, End::Stop, End::Overwrite, End::Discard];

#[derive(Clone, Copy, Debug, PartialEq, Eq, Hash, Serialize, Deserialize)]
pub enum SwOp {
    /// start a borrowed guard, advance the clock by `d` ns, end it
    Borrowed { d: u64, end: End },
    StartOwned,
    Advance(u64),
    /// end the idx-th live owned guard (index modulo the number alive)
    EndOwned { idx: u8, end: End },
    Clear,
    /// a borrowed guard that is alive ACROSS the end of an owned guard: start it, advance d1,
    /// end the idx-th live owned guard with `inner`, advance d2, end the borrowed guard with `end`
    BorrowedAround { d1: u64, idx: u8, inner: End, d2: u64, end: End },
    /// end the idx-th live owned guard on ANOTHER thread (the documented use of owned guards)
    EndOwnedOnThread { idx: u8, end: End },
}

#[derive(Clone, Copy, Debug, PartialEq, Serialize, Deserialize)]
pub enum ClockKind {
    Own,
    InTreeFake,
}

/// Run a stopwatch op sequence against the model; returns classes or the failure.
pub fn run_stopwatch(ops: &[SwOp], clock_kind: ClockKind, via_thread_local: bool) -> CaseResult {
    // two clock implementations: the harness' own and the in-tree ManuallyAdvancedTimeSource
    let own = ManualClock::new(UNIX_EPOCH + Duration::from_secs(1000));
    let fake = metrique_timesource::fakes::ManuallyAdvancedTimeSource::at_time(UNIX_EPOCH + Duration::from_secs(1000));
    let ts = match clock_kind {
        ClockKind::Own => TimeSource::custom(own.clone()),
        ClockKind::InTreeFake => TimeSource::custom(fake.clone()),
    };
    let advance = |d: Duration| match clock_kind {
        ClockKind::Own => own.advance(d),
        ClockKind::InTreeFake => fake.update_instant(d),
    };
    // the clock has been running before the stopwatch exists
    advance(Duration::from_nanos(1_234_567));
    let decoy = ManualClock::new(UNIX_EPOCH + Duration::from_secs(99_000));
    let use_default_ctor = ops.len() % 2 == 1;
    let mut sw = if via_thread_local {
        let _g = set_time_source(ts.clone());
        if use_default_ctor { Stopwatch::default() } else { Stopwatch::new() }
    } else {
        // an ambient decoy source must lose against the explicit one
        let _g = set_time_source(TimeSource::custom(decoy.clone()));
        Stopwatch::new_from_timesource(ts.clone())
    };
    // ... and the decoy keeps running (differently) while the stopwatch is used
    decoy.advance(Duration::from_secs(17));
    // model
    let mut acc: Option<Duration> = None;
    let mut now = Duration::ZERO;
    let mut live: Vec<(OwnedTimerGuard, Duration)> = vec![];
    let mut classes: Classes = vec![];
    let mut had_owned = false;
    let mut borrowed_after_owned = false;
    let mut nt = false;
    fn apply(acc: &mut Option<Duration>, span: Duration, end: End) {
        match end {
            End::Drop | End::Stop => *acc = Some(acc.unwrap_or_default() + span),
            End::Overwrite => *acc = Some(span),
            End::Discard => {}
        }
    }
    for (i, op) in ops.iter().enumerate() {
        match *op {
            SwOp::Borrowed { d, end } => {
                let d = Duration::from_nanos(d);
                let g = sw.start();
                advance(d);
                now += d;
                match end {
                    End::Drop => drop(g),
                    End::Stop => {
                        let r = g.stop();
                        vensure!(
                            r == d,
                            "stopwatch:stop-returns-wrong-span",
                            "op {i}: stop() returned {r:?}, the guard measured {d:?}"
                        );
                    }
                    End::Overwrite => g.overwrite(),
                    End::Discard => g.discard(),
                }
                apply(&mut acc, d, end);
                if had_owned {
                    borrowed_after_owned = true;
                }
            }
            SwOp::StartOwned => {
                if live.len() < 8 {
                    live.push((sw.start_owned(), now));
                    had_owned = true;
                    classes.push("owned-guard");
                }
            }
            SwOp::Advance(d) => {
                let d = Duration::from_nanos(d);
                advance(d);
                now += d;
            }
            SwOp::EndOwned { idx, end } => {
                if !live.is_empty() {
                    let k = (idx as usize) % live.len();
                    let (g, started) = live.remove(k);
                    let span = now - started;
                    match end {
                        End::Drop => drop(g),
                        End::Stop => {
                            let r = g.stop();
                            vensure!(
                                r == span,
                                "stopwatch:stop-returns-wrong-span",
                                "op {i}: owned stop() returned {r:?}, the guard measured {span:?}"
                            );
                        }
                        End::Overwrite => g.overwrite(),
                        End::Discard => g.discard(),
                    }
                    apply(&mut acc, span, end);
                    if live.len() >= 1 {
                        classes.push("several-live-owned");
                    }
                }
            }
            SwOp::Clear => {
                sw.clear();
                acc = None;
            }
            SwOp::BorrowedAround { d1, idx, inner, d2, end } => {
                let (d1, d2) = (Duration::from_nanos(d1), Duration::from_nanos(d2));
                // take the owned guard out first: the borrowed guard holds `&mut sw`, the owned one
                // is independent of that borrow
                let owned = if live.is_empty() { None } else { Some(live.remove((idx as usize) % live.len())) };
                let g = sw.start();
                advance(d1);
                now += d1;
                let mut owned_span = None;
                if let Some((og, started)) = owned {
                    let span = now - started;
                    match inner {
                        End::Drop => drop(og),
                        End::Stop => {
                            let r = og.stop();
                            vensure!(
                                r == span,
                                "stopwatch:stop-returns-wrong-span",
                                "op {i}: owned stop() inside a live borrowed guard returned {r:?}, measured {span:?}"
                            );
                        }
                        End::Overwrite => og.overwrite(),
                        End::Discard => og.discard(),
                    }
                    owned_span = Some(span);
                    classes.push("owned-guard-ended-while-borrowed-guard-alive");
                }
                advance(d2);
                now += d2;
                match end {
                    End::Drop => drop(g),
                    End::Stop => {
                        let r = g.stop();
                        vensure!(
                            r == d1 + d2,
                            "stopwatch:stop-returns-wrong-span",
                            "op {i}: borrowed stop() returned {r:?}, the guard measured {:?}",
                            d1 + d2
                        );
                    }
                    End::Overwrite => g.overwrite(),
                    End::Discard => g.discard(),
                }
                // effects in the order the guards ENDED
                if let Some(span) = owned_span {
                    apply(&mut acc, span, inner);
                }
                apply(&mut acc, d1 + d2, end);
                if had_owned {
                    borrowed_after_owned = true;
                }
            }
            SwOp::EndOwnedOnThread { idx, end } => {
                if !live.is_empty() {
                    let k = (idx as usize) % live.len();
                    let (g, started) = live.remove(k);
                    let span = now - started;
                    let r = std::thread::scope(|s| {
                        s.spawn(move || match end {
                            End::Drop => {
                                drop(g);
                                None
                            }
                            End::Stop => Some(g.stop()),
                            End::Overwrite => {
                                g.overwrite();
                                None
                            }
                            End::Discard => {
                                g.discard();
                                None
                            }
                        })
                        .join()
                    });
                    match r {
                        Ok(Some(r)) => vensure!(
                            r == span,
                            "stopwatch:stop-returns-wrong-span",
                            "op {i}: owned stop() on another thread returned {r:?}, the guard measured {span:?}"
                        ),
                        Ok(None) => {}
                        Err(_) => vfail!("panic:stopwatch-guard-on-other-thread", "ending an owned guard on another thread panicked: {:?}", take_last_panic()),
                    }
                    apply(&mut acc, span, end);
                    classes.push("owned-guard-ended-on-another-thread");
                }
            }
        }
        if matches!(op, SwOp::Clear | SwOp::Borrowed { end: End::Overwrite, .. } | SwOp::EndOwned { end: End::Overwrite, .. })
            && !live.is_empty()
            && borrowed_after_owned
        {
            nt = true;
        }
        let got = (&sw).close();
        vensure!(
            got == acc,
            "stopwatch:wrong-total",
            "after op {i} ({op:?}) of {ops:?}: stopwatch reports {got:?}, the completed kept spans since the last clear/overwrite total {acc:?}"
        );
    }
    // guards still alive when the stopwatch is closed contribute nothing
    let final_ref = (&sw).close();
    let final_owned = sw.close();
    vensure!(
        final_ref == acc && final_owned == acc,
        "stopwatch:wrong-total",
        "final close: {final_ref:?} / {final_owned:?} vs {acc:?}"
    );
    drop(live);
    if nt {
        classes.push("nt");
    }
    classes.push(match clock_kind {
        ClockKind::Own => "clock-own",
        ClockKind::InTreeFake => "clock-in-tree-fake",
    });
    if via_thread_local {
        classes.push("clock-via-thread-local");
    }
    classes.sort();
    classes.dedup();
    Ok(classes)
}

#[derive(Clone, Debug, Serialize, Deserialize)]
pub struct SwCase {
    pub ops: Vec<SwOp>,
    pub clock: ClockKind,
    pub via_thread_local: bool,
}

fn arb_d() -> impl Strategy<Value = u64> {
    prop_oneof![
        3 => prop::sample::select(vec![0u64, 1, 999, 1_000_000, 1_000_000_000]),
        2 => 0u64..5_000_000_000,
        1 => 0u64..(1 << 50),
    ]
}
fn arb_end() -> impl Strategy<Value = End> {
    prop::sample::select(ENDS.to_vec())
}
fn arb_swop() -> impl Strategy<Value = SwOp> {
    prop_oneof![
        4 => (arb_d(), arb_end()).prop_map(|(d, end)| SwOp::Borrowed { d, end }),
        3 => Just(SwOp::StartOwned),
        3 => arb_d().prop_map(SwOp::Advance),
        4 => (any::<u8>(), arb_end()).prop_map(|(idx, end)| SwOp::EndOwned { idx, end }),
        1 => Just(SwOp::Clear),
        2 => (arb_d(), any::<u8>(), arb_end(), arb_d(), arb_end()).prop_map(|(d1, idx, inner, d2, end)| SwOp::BorrowedAround { d1, idx, inner, d2, end }),
        1 => (any::<u8>(), arb_end()).prop_map(|(idx, end)| SwOp::EndOwnedOnThread { idx, end }),
    ]
}

fn exhaustive(ctx: &mut Ctx) {
    let max_len = ctx.tier.pick(5usize, 6usize);
    let ds = [0u64, 1, 1_000_000_000];
    let mut alphabet: Vec<SwOp> = vec![SwOp::StartOwned, SwOp::Clear];
    for d in ds {
        alphabet.push(SwOp::Advance(d));
        for e in ENDS {
            alphabet.push(SwOp::Borrowed { d, end: e });
        }
    }
    for idx in 0..2u8 {
        for e in ENDS {
            alphabet.push(SwOp::EndOwned { idx, end: e });
        }
    }
    let t0 = std::time::Instant::now();
    // split on the first op across threads
    let alpha = &alphabet;
    let results: Vec<(Tally, Option<(Vec<SwOp>, Fail)>)> = std::thread::scope(|s| {
        let hs: Vec<_> = alphabet
            .iter()
            .map(|first| {
                s.spawn(move || {
                    let mut t = Tally::new("c18-stopwatch-exhaustive", "");
                    let mut fail = None;
                    let mut stack: Vec<SwOp> = vec![*first];
                    fn rec(
                        stack: &mut Vec<SwOp>,
                        alpha: &[SwOp],
                        max_len: usize,
                        t: &mut Tally,
                        fail: &mut Option<(Vec<SwOp>, Fail)>,
                    ) {
                        if fail.is_some() {
                            return;
                        }
                        // skip sequences with more than 2 live owned guards / EndOwned without a guard
                        let mut live = 0i32;
                        for o in stack.iter() {
                            match o {
                                SwOp::StartOwned => live += 1,
                                SwOp::EndOwned { idx, .. } => {
                                    if live == 0 || *idx as i32 >= live {
                                        return;
                                    }
                                    live -= 1;
                                }
                                _ => {}
                            }
                            if live > 2 {
                                return;
                            }
                        }
                        match run_stopwatch(stack, ClockKind::Own, false) {
                            Ok(classes) => {
                                let is_nt = classes.contains(&"nt");
                                t.evaluations += 1;
                                for c in &classes {
                                    *t.classes.entry(c).or_insert(0) += 1;
                                }
                                if is_nt {
                                    t.nt_extra += 1;
                                    if t.samples.len() < 2 {
                                        t.samples.push(serde_json::to_value(&*stack).unwrap());
                                    }
                                }
                            }
                            Err(f) => {
                                *fail = Some((stack.clone(), f));
                                return;
                            }
                        }
                        if stack.len() < max_len {
                            for o in alpha {
                                stack.push(*o);
                                rec(stack, alpha, max_len, t, fail);
                                stack.pop();
                            }
                        }
                    }
                    rec(&mut stack, alpha, max_len, &mut t, &mut fail);
                    (t, fail)
                })
            })
            .collect();
        hs.into_iter().map(|h| h.join().unwrap()).collect()
    });
    let mut total = Tally::new(
        "c18-stopwatch-exhaustive",
        "ALL well-formed stopwatch op sequences up to the length bound (quick 5, thorough 6) over the alphabet {borrowed guard x d in {0,1ns,1s} x end in {drop,stop,overwrite,discard}, start_owned, advance d, end owned guard #0/#1 x 4 ends, clear}, at most 2 live owned guards, own manual clock; after EVERY op (&stopwatch).close() must equal the model (sum of completed, kept spans since the last clear/overwrite; None if none). Non-trivial = sequence with an owned start, then a borrowed span, then a clear/overwrite while an owned guard is alive",
    );
    total.t0 = t0;
    total.exhaustive = true;
    let mut failure = None;
    for (t, f) in results {
        total.merge(t);
        if failure.is_none() {
            failure = f;
        }
    }
    ctx.push_custom(total.finish(&[]));
    if let Some((ops, f)) = failure {
        let case = SwCase {
            ops,
            clock: ClockKind::Own,
            via_thread_local: false,
        };
        ctx.report_violation(
            "c18-stopwatch-random",
            f,
            serde_json::to_value(&case).unwrap(),
            format!("{case:?}"),
        );
    }
}

// ---------------------------------------------------------------------------------------------
// Timer

#[derive(Clone, Copy, Debug, Serialize, Deserialize)]
pub enum TOp {
    Advance(u64),
    Stop,
    CloseRef,
    /// the source's WALL clock jumps (forwards or backwards, e.g. an NTP step) while its
    /// monotonic clock does not move: a span is monotonic time, it must not notice
    WallJump(u64),
}
#[derive(Clone, Debug, Serialize, Deserialize)]
pub struct TimerCase {
    pub ops: Vec<TOp>,
    pub ctor: u8,
}

pub fn check_timer(case: &TimerCase) -> CaseResult {
    let clock = ManualClock::new(UNIX_EPOCH + Duration::from_secs(5));
    let ts = TimeSource::custom(clock.clone());
    // the clock has been running before the timer exists: a timer measures from ITS creation
    clock.advance(Duration::from_nanos(((case.ctor as u64) / 3) * 1_000_000_007));
    // an ambient decoy source (an hour ahead, never advanced): an explicit source must win over it
    let decoy = ManualClock::new(UNIX_EPOCH + Duration::from_secs(3605));
    let _decoy_guard = if case.ctor % 3 == 0 && case.ctor >= 128 {
        Some(set_time_source(TimeSource::custom(decoy.clone())))
    } else {
        None
    };
    let mut timer = match case.ctor % 3 {
        0 => Timer::start_now_with_timesource(ts.clone()),
        1 if case.ctor & 64 != 0 => metrique_timesource::with_time_source(ts.clone(), Timer::start_now),
        1 => {
            let _g = set_time_source(ts.clone());
            Timer::start_now()
        }
        _ => {
            let _g = set_time_source(ts.clone());
            Timer::default()
        }
    };
    let mut now = Duration::ZERO;
    let mut fixed: Option<Duration> = None;
    let mut classes: Classes = vec![];
    for (i, op) in case.ops.iter().enumerate() {
        match op {
            TOp::Advance(d) => {
                let d = Duration::from_nanos(*d);
                clock.advance(d);
                now += d;
            }
            TOp::WallJump(x) => {
                clock.set_wall(UNIX_EPOCH + Duration::from_nanos(*x));
                classes.push("wall-clock-jump");
            }
            TOp::Stop => {
                let r = timer.stop();
                let expect = *fixed.get_or_insert(now);
                vensure!(
                    r == expect,
                    "timer:stop-value",
                    "op {i}: stop() returned {r:?}, expected {expect:?} (first stop fixes the value)"
                );
                if now > expect {
                    classes.push("nt");
                }
            }
            TOp::CloseRef => {
                let r = (&timer).close();
                let expect = fixed.unwrap_or(now);
                vensure!(
                    r == expect,
                    "timer:close-value",
                    "op {i}: close() returned {r:?}, expected {expect:?}"
                );
            }
        }
    }
    let r = timer.close();
    let expect = fixed.unwrap_or(now);
    vensure!(r == expect, "timer:close-value", "final close {r:?}, expected {expect:?}");
    if fixed.is_none() {
        classes.push("never-stopped");
    }
    Ok(classes)
}

// ---------------------------------------------------------------------------------------------
// Timestamps and time-source precedence

#[derive(Clone, Debug, Serialize, Deserialize)]
pub struct TsCase {
    pub secs: u64,
    pub nanos: u32,
    pub later: u64,
    pub fmt: u8,
    pub source: u8,
}

fn string_of(f: impl FnOnce(StrSink<'_>)) -> Option<String> {
    let mut s = None;
    f(StrSink(&mut s));
    s
}
pub struct StrSink<'a>(&'a mut Option<String>);
impl metrique_writer_core::ValueWriter for StrSink<'_> {
    fn string(self, value: &str) {
        *self.0 = Some(value.to_string());
    }
    fn metric<'a>(
        self,
        _d: impl IntoIterator<Item = metrique_writer_core::Observation>,
        _u: metrique_writer_core::Unit,
        _dims: impl IntoIterator<Item = (&'a str, &'a str)>,
        _f: metrique_writer_core::MetricFlags<'_>,
    ) {
    }
    fn error(self, _e: metrique_writer_core::ValidationError) {}
}

fn check_formats(v: &TimestampValue, expect: Duration, which: u8) -> Result<(), Fail> {
    let exact_nanos = expect.as_nanos();
    match which % 4 {
        0 => {
            let s = string_of(|w| <EpochMicros as ValueFormatter<TimestampValue>>::format_value(w, v)).unwrap_or_default();
            vensure!(
                s.parse::<u128>().ok() == Some(exact_nanos / 1000),
                "timestamp:micros",
                "EpochMicros wrote {s:?} for {expect:?}"
            );
        }
        1 => {
            let s = string_of(|w| <EpochSeconds as ValueFormatter<TimestampValue>>::format_value(w, v)).unwrap_or_default();
            let p: f64 = s.parse().map_err(|_| Fail::new("timestamp:seconds", format!("unparsable {s:?}")))?;
            let exact = exact_nanos as f64 / 1e9;
            vensure!(
                (p - exact).abs() <= exact.abs() * 4.0 * f64::EPSILON,
                "timestamp:seconds",
                "EpochSeconds wrote {s:?} for {expect:?}"
            );
        }
        2 => {
            let s = string_of(|w| <EpochMillis as ValueFormatter<TimestampValue>>::format_value(w, v)).unwrap_or_default();
            let p: f64 = s.parse().map_err(|_| Fail::new("timestamp:millis", format!("unparsable {s:?}")))?;
            let exact = exact_nanos as f64 / 1e6;
            vensure!(
                (p - exact).abs() <= exact.abs() * 4.0 * f64::EPSILON,
                "timestamp:millis",
                "EpochMillis wrote {s:?} for {expect:?}"
            );
        }
        _ => {
            // default Value impl: milliseconds
            let s = string_of(|w| metrique_writer_core::Value::write(v, w)).unwrap_or_default();
            let p: f64 = s.parse().map_err(|_| Fail::new("timestamp:default", format!("unparsable {s:?}")))?;
            let exact = exact_nanos as f64 / 1e6;
            vensure!(
                (p - exact).abs() <= exact.abs() * 4.0 * f64::EPSILON,
                "timestamp:default",
                "default timestamp format wrote {s:?} for {expect:?}"
            );
        }
    }
    Ok(())
}

pub fn check_ts(case: &TsCase) -> CaseResult {
    let t0 = Duration::new(case.secs, case.nanos % 1_000_000_000);
    let later = Duration::from_nanos(case.later);
    let clock = ManualClock::new(UNIX_EPOCH + t0);
    let decoy = ManualClock::new(UNIX_EPOCH + Duration::from_secs(7));
    let ts = TimeSource::custom(clock.clone());
    let decoy_ts = TimeSource::custom(decoy.clone());
    let mut classes: Classes = vec![];
    // precedence: explicit > thread-local > runtime > system
    let (creation, on_close) = match case.source % 4 {
        0 => {
            classes.push("source-explicit-over-thread-local");
            let _g = set_time_source(decoy_ts.clone());
            let got = get_time_source(Some(ts.clone())).system_time();
            vensure!(
                got.as_std() == UNIX_EPOCH + t0,
                "timesource:precedence",
                "explicit source must win over the thread-local one"
            );
            (Timestamp::new_from_time_source(ts.clone()), {
                let _g2 = set_time_source(ts.clone());
                TimestampOnClose::default()
            })
        }
        1 => {
            classes.push("source-thread-local");
            let _g = set_time_source(ts.clone());
            // Timestamp::default() is what #[derive(Default)] entries use
            (if case.fmt % 2 == 0 { Timestamp::now() } else { Timestamp::default() }, TimestampOnClose::default())
        }
        2 => {
            classes.push("source-runtime");
            let rt = tokio::runtime::Builder::new_current_thread().build().unwrap();
            // installed from inside the runtime, or from outside through its handle
            let outside = if case.fmt & 0x40 != 0 {
                Some(metrique_timesource::tokio::set_time_source_for_runtime(rt.handle(), ts.clone()))
            } else {
                None
            };
            let r = rt.block_on(async {
                let _g = if outside.is_none() {
                    Some(metrique_timesource::tokio::set_time_source_for_current_runtime(ts.clone()))
                } else {
                    None
                };
                let a = (Timestamp::now(), TimestampOnClose::default());
                // thread-local wins over the runtime source
                let _tl = set_time_source(decoy_ts.clone());
                let inner = time_source().system_time();
                (a, inner.as_std() == UNIX_EPOCH + Duration::from_secs(7))
            });
            vensure!(r.1, "timesource:precedence", "thread-local source must win over the runtime source");
            drop(outside);
            // after the guards are gone the system clock is back
            let sys = time_source().system_time().as_std();
            vensure!(
                sys > UNIX_EPOCH + Duration::from_secs(1_600_000_000),
                "timesource:precedence",
                "runtime/thread-local overrides leaked: {sys:?}"
            );
            r.0
        }
        _ => {
            classes.push("source-nested-thread-local");
            let _g = set_time_source(decoy_ts.clone());
            let inner = {
                let _g2 = set_time_source(ts.clone());
                (Timestamp::now(), TimestampOnClose::default())
            };
            // dropping the inner guard restores the outer override
            vensure!(
                time_source().system_time().as_std() == UNIX_EPOCH + Duration::from_secs(7),
                "timesource:guard-restore",
                "dropping a nested thread-local guard must restore the previous source"
            );
            inner
        }
    };
    // closing by reference (what subfield entries do) any number of times reports the creation
    // time, whatever the clock does in between
    let by_ref_1 = (&creation).close();
    clock.set_wall(UNIX_EPOCH + t0 + later / 2);
    let by_ref_2 = (&creation).close();
    vensure!(
        by_ref_1.duration_since_epoch() == t0 && by_ref_2.duration_since_epoch() == t0,
        "timestamp:creation-time",
        "Timestamp closed by reference reports {:?} and then {:?}, the wall clock at creation was {t0:?}",
        by_ref_1.duration_since_epoch(),
        by_ref_2.duration_since_epoch()
    );
    // the wall clock moves on before close
    clock.set_wall(UNIX_EPOCH + t0 + later);
    let v_creation = creation.close();
    let v_close = on_close.close();
    vensure!(
        v_creation.duration_since_epoch() == t0,
        "timestamp:creation-time",
        "Timestamp reports {:?}, the source's wall clock at creation was {t0:?}",
        v_creation.duration_since_epoch()
    );
    vensure!(
        v_close.duration_since_epoch() == t0 + later,
        "timestamp:close-time",
        "TimestampOnClose reports {:?}, the source's wall clock at close was {:?}",
        v_close.duration_since_epoch(),
        t0 + later
    );
    check_formats(&v_creation, t0, case.fmt)?;
    check_formats(&v_close, t0 + later, case.fmt.wrapping_add(1))?;
    if case.later > 0 {
        classes.push("nt");
    }
    Ok(classes)
}

#[allow(dead_code)]
fn _unused(_: RecLog) {}

pub fn run(ctx: &mut Ctx) {
    ctx.assume("time is an injected manual clock (own Time impl and the in-tree ManuallyAdvancedTimeSource); spans are exact Duration arithmetic, no tolerance");
    ctx.assume("EpochSeconds/EpochMillis print a double: compared within 4 ulp of the exact rational; EpochMicros exact");
    if ctx.replay.is_none() {
        exhaustive(ctx);
    }
    let q = ctx.tier == Tier::Quick;
    ctx.explore(
        SubCfg::new(
            "c18-stopwatch-random",
            "random stopwatch op sequences up to length 200 with up to 8 concurrently live owned guards, arbitrary clock advances up to 2^50 ns, both clock implementations, stopwatch created explicitly or via the thread-local override; model compared after every op. Non-trivial as in the exhaustive sub-check",
            if q { 20_000 } else { 600_000 },
        )
        .threads(ctx.tier.pick(8, 16))
        .mandatory(&["several-live-owned", "clock-in-tree-fake", "clock-via-thread-local", "owned-guard-ended-while-borrowed-guard-alive", "owned-guard-ended-on-another-thread"]),
        || {
            (
                prop::collection::vec(arb_swop(), 0..200),
                prop::sample::select(vec![ClockKind::Own, ClockKind::InTreeFake]),
                any::<bool>(),
            )
                .prop_map(|(ops, clock, via_thread_local)| SwCase {
                    ops,
                    clock,
                    via_thread_local,
                })
        },
        |c: &SwCase| run_stopwatch(&c.ops, c.clock, c.via_thread_local),
    );
    ctx.explore(
        SubCfg::new(
            "c18-timer",
            "Timer (explicit source / start_now / default under a thread-local override set by set_time_source or with_time_source) with sequences of advance / stop / close-by-reference: first stop fixes creation->stop, later stops and closes return the same, unstopped close = creation->close. Non-trivial = a stop or close after the clock moved past the first stop",
            if q { 30_000 } else { 500_000 },
        )
        .threads(ctx.tier.pick(8, 16))
        .mandatory(&["never-stopped"]),
        || {
            (
                prop::collection::vec(
                    prop_oneof![
                        3 => arb_d().prop_map(TOp::Advance),
                        2 => Just(TOp::Stop),
                        2 => Just(TOp::CloseRef),
                        1 => prop_oneof![0u64..1_000_000_000, any::<u64>()].prop_map(TOp::WallJump),
                    ],
                    0..20,
                ),
                any::<u8>(),
            )
                .prop_map(|(ops, ctor)| TimerCase { ops, ctor })
        },
        check_timer,
    );
    ctx.explore(
        SubCfg::new(
            "c18-timestamps",
            "Timestamp (creation) and TimestampOnClose (close) under explicit / thread-local / tokio-runtime (installed from inside, or from outside through the runtime handle) / nested thread-local time sources with the wall clock moved between creation and close, formatted as EpochSeconds / EpochMillis / EpochMicros / default; source precedence explicit > thread-local > runtime > system and guard restoration checked. Non-trivial = wall clock moved before close",
            if q { 6_000 } else { 100_000 },
        )
        .mandatory(&["source-explicit-over-thread-local", "source-thread-local", "source-runtime", "source-nested-thread-local"]),
        || {
            (
                prop_oneof![0u64..10, 1_600_000_000u64..2_000_000_000, 0u64..(1 << 40)],
                0u32..1_000_000_000,
                prop_oneof![Just(0u64), 1u64..10_000_000_000],
                any::<u8>(),
                any::<u8>(),
            )
                .prop_map(|(secs, nanos, later, fmt, source)| TsCase {
                    secs,
                    nanos,
                    later,
                    fmt,
                    source,
                })
        },
        check_ts,
    );
}
