//! C03 — EMF records carry exactly the entry's values, units, counts, dimensions and time.

use crate::emfgen::arb_valid;
use crate::emfh::*;
use crate::engine::*;
use crate::model::*;
use crate::reclog::{Rec, RecVal, record};
use crate::{vensure, vfail};
use proptest::prelude::*;
use serde::{Deserialize, Serialize};

#[derive(Clone, Debug, Serialize, Deserialize)]
pub struct Case {
    pub cfg: EmfCfg,
    /// entries formatted on the same formatter BEFORE the entry under test (their output is
    /// ignored): the property is about every entry a formatter emits, not only its first
    #[serde(default)]
    pub warmup: Vec<GenEntry>,
    pub entry: GenEntry,
    /// None = unsampled; Some(k<=52) = rate 2^-k (weight exactly 2^k); Some(100) = rate below
    /// 2^-63 (weight saturates at u64::MAX)
    pub rate_exp: Option<u8>,
    pub words: Vec<u64>,
}

pub fn sampling_of(rate_exp: Option<u8>, words: &[u64]) -> (Sampling, Option<u64>) {
    match rate_exp {
        None => (Sampling::None, None),
        // 101..=150: a rate whose inverse is not an integer, 1/(k-100+0.37): the multiplicity is
        // the floor or the ceiling of the inverse (which of the two depends on the draw; C12
        // decides that distribution) - the floor is returned here, `weight_candidates` has both
        Some(k) if k > 100 => {
            let rate = 1.0f32 / ((k - 100) as f32 + 0.37);
            (
                Sampling::Rate {
                    rate_bits: rate.to_bits(),
                    words: words.to_vec(),
                },
                Some((1.0 / rate as f64).floor() as u64),
            )
        }
        // 53..=60: a sampling formatter driven through plain Format::format (no rate): unsampled
        Some(53..=60) => (Sampling::SampledNoRate, None),
        Some(k) if k <= 52 => (
            Sampling::Rate {
                rate_bits: (2f32).powi(-(k as i32)).to_bits(),
                words: words.to_vec(),
            },
            Some(1u64 << k),
        ),
        Some(_) => (
            Sampling::Rate {
                rate_bits: (2f32).powi(-70).to_bits(),
                words: words.to_vec(),
            },
            Some(u64::MAX),
        ),
    }
}

/// the multiplicities a correct formatter may apply for this rate
pub fn weight_candidates(rate_exp: Option<u8>) -> Vec<Option<u64>> {
    match rate_exp {
        Some(k) if k > 100 => {
            let rate = 1.0f32 / ((k - 100) as f32 + 0.37);
            let inv = 1.0 / rate as f64;
            vec![Some(inv.floor() as u64), Some(inv.ceil() as u64)]
        }
        other => vec![sampling_of(other, &[]).1],
    }
}

pub fn arb_rate_exp() -> impl Strategy<Value = Option<u8>> {
    prop_oneof![
        2 => (101u8..=150).prop_map(Some),
        5 => Just(None),
        2 => Just(Some(0u8)),
        2 => (1u8..=3).prop_map(Some),
        2 => (4u8..=52).prop_map(Some),
        1 => Just(Some(32u8)),
        1 => Just(Some(100u8)),
        1 => (53u8..=60).prop_map(Some),
    ]
}

pub fn arb_case() -> impl Strategy<Value = Case> {
    (
        crate::emfgen::arb_valid_seq(1..4, true),
        arb_rate_exp(),
        prop::collection::vec(any::<u64>(), 0..3),
        prop::bool::weighted(0.5),
        prop::collection::vec(
            prop::option::weighted(0.35, (crate::emfgen::arb_defect(), any::<u32>(), any::<u32>())),
            3,
        ),
    )
        .prop_map(|((cfg, mut entries), rate_exp, words, warm, defects)| {
            let entry = entries.pop().unwrap();
            // some warm-up entries carry an injected validation defect: a rejected entry must
            // leave nothing behind in the formatter either
            for (e, d) in entries.iter_mut().zip(defects) {
                if let Some((d, s, p)) = d {
                    if let Some(e2) = crate::emfgen::inject(&cfg, e, d, s, p) {
                        *e = e2;
                    }
                }
            }
            Case {
                cfg,
                warmup: if warm { entries } else { vec![] },
                entry,
                rate_exp,
                words,
            }
        })
}

pub fn check(case: &Case) -> CaseResult {
    let (sampling, mult) = sampling_of(case.rate_exp, &case.words);
    let prepared = case.entry.prepare();
    let log = record(&prepared);
    let mut out: Vec<u8> = vec![];
    let mut emf = no_panic("emf-build", || case.cfg.build())?;
    let mut warm_rejected = false;
    for w in &case.warmup {
        let mut sink: Vec<u8> = vec![];
        let d = no_panic("emf-format-warmup", || format_once(&mut emf, w, &Sampling::None, &mut sink))?;
        warm_rejected |= matches!(d, Decision::Validation(_));
    }
    let dec = no_panic("emf-format", || {
        format_once(&mut emf, &case.entry, &sampling, &mut out)
    })?;
    match &dec {
        Decision::Ok => {}
        other => vfail!(
            "valid-entry-rejected",
            "entry inside the documented domain was not accepted: {other:?}"
        ),
    }
    let recs = match decode_output(&out) {
        Ok(r) => r,
        Err(e) => vfail!(
            super::c02::invalid_sig(&case.entry),
            "output is not valid framed EMF JSON: {e}\noutput={:?}",
            String::from_utf8_lossy(&out)
        ),
    };
    // "once": no member may occur twice anywhere in a record - not at the root (C08 looks there
    // too) and not inside `_aws`, a directive or a metric definition, where a reader that takes
    // the first or the last occurrence would silently pick one
    for l in crate::json::split_lines(&out).unwrap_or_default() {
        if let Ok(j) = crate::json::parse(l) {
            if let Some(d) = j.duplicate_member_deep() {
                vfail!(
                    "emf-content:duplicate-member",
                    "a record carries member {d:?} twice: {}",
                    String::from_utf8_lossy(&l[..l.len().min(1500)])
                );
            }
        }
    }
    let _ = mult;
    let mut last_err = None;
    let mut matched = false;
    for m in weight_candidates(case.rate_exp) {
        let expected = ref_emf(&log, &case.cfg, m);
        match compare_records(&recs, &expected, true) {
            Ok(()) => {
                matched = true;
                break;
            }
            Err(e) => last_err = Some((e, classify_mismatch(&recs, &expected))),
        }
    }
    if !matched {
        let (e, sig) = last_err.unwrap();
        vfail!(sig, "{e}\noutput={:?}", String::from_utf8_lossy(&out));
    }

    // cross-check the recording device against the in-tree format-independent view
    let te = no_panic("to_test_entry", || {
        metrique_writer::test_util::to_test_entry(&prepared)
    })?;
    let mut strings_log: Vec<(String, String)> = vec![];
    let mut n_metric_names: Vec<String> = vec![];
    for r in &log.recs {
        if let Rec::Value { name, val } = r {
            match val {
                RecVal::Str(s) => strings_log.push((name.clone(), s.clone())),
                RecVal::Metric { .. } => n_metric_names.push(name.clone()),
                _ => {}
            }
        }
    }
    for (k, v) in &strings_log {
        vensure!(
            te.values.get(k.as_str()) == Some(v),
            "harness:reclog-disagrees-with-test-entry",
            "RecLog string {k:?}={v:?} but to_test_entry has {:?}",
            te.values.get(k.as_str())
        );
    }
    vensure!(
        te.values.len() == strings_log.len(),
        "harness:reclog-disagrees-with-test-entry",
        "to_test_entry has {} strings, RecLog {}",
        te.values.len(),
        strings_log.len()
    );
    n_metric_names.sort();
    n_metric_names.dedup();
    vensure!(
        te.metrics.len() == n_metric_names.len(),
        "harness:reclog-disagrees-with-test-entry",
        "to_test_entry has {} metric names, RecLog {}",
        te.metrics.len(),
        n_metric_names.len()
    );

    // classification
    let mut classes: Classes = vec![];
    let mut feats = 0;
    if warm_rejected {
        classes.push("warm-formatter-rejected-an-entry");
    }
    if !case.warmup.is_empty() {
        classes.push("warm-formatter");
    }
    if !case.cfg.extra_namespaces.is_empty() {
        classes.push("multi-namespace");
        feats += 1;
    }
    if recs.len() >= 2 {
        classes.push("split-records");
        feats += 1;
    }
    if case
        .entry
        .ops
        .iter()
        .any(|o| matches!(o, Op::Config(CfgG::EntryDims(_))))
    {
        classes.push("entry-dimensions");
        feats += 1;
    }
    let mut big = false;
    let mut nonfinite = false;
    let mut skipped_metric = false;
    let mut no_metric = false;
    let mut high_res = false;
    for o in &case.entry.ops {
        if let Op::Value {
            val: Val::Metric { obs, flags, .. },
            ..
        } = o
        {
            for ob in obs {
                match ob {
                    Obs::U(u) if *u > (1 << 53) => big = true,
                    Obs::Fl(f) if !f.0.is_finite() => nonfinite = true,
                    Obs::Rep { total, .. } if !total.0.is_finite() => nonfinite = true,
                    _ => {}
                }
            }
            if !obs.is_empty() && obs.iter().all(|o| o.is_skipped()) {
                skipped_metric = true;
            }
            no_metric |= flags.is_no_metric();
            high_res |= flags.is_high_res();
        }
    }
    if big {
        classes.push("integer-above-2^53");
        feats += 1;
    }
    if nonfinite {
        classes.push("non-finite-observation");
        feats += 1;
    }
    if mult.is_some() {
        classes.push("sampled");
        feats += 1;
    }
    if skipped_metric {
        classes.push("metric-with-no-usable-observation");
    }
    if no_metric {
        classes.push("flag-no-metric");
    }
    if high_res {
        classes.push("flag-high-res");
    }
    if case.cfg.allow_ignored {
        classes.push("ignored-dimension-mode");
    }
    if !case.cfg.directives.is_empty() {
        classes.push("extra-directives");
    }
    if case.cfg.log_group.is_some() {
        classes.push("log-group");
    }
    if mult == Some(u64::MAX) {
        classes.push("saturating-weight");
    }
    if matches!(case.rate_exp, Some(k) if k > 100) {
        classes.push("rate-with-fractional-inverse");
    }
    if feats >= 2 {
        classes.push("nt");
    }
    Ok(classes)
}

/// root-cause-ish signature from the *difference* between observed and expected
fn classify_mismatch(obs: &[Record], exp: &[Record]) -> &'static str {
    if obs.len() != exp.len() {
        return "emf-content:record-count";
    }
    let o: Vec<Record> = obs.iter().cloned().map(canon).collect();
    let e: Vec<Record> = exp.iter().cloned().map(canon).collect();
    let all = |f: &dyn Fn(&Record, &Record) -> bool| -> bool {
        e.iter().all(|x| o.iter().any(|y| f(x, y)))
    };
    if !all(&|x, y| x.timestamp == y.timestamp) {
        return "emf-content:timestamp";
    }
    if !all(&|x, y| x.strings == y.strings) {
        return "emf-content:strings";
    }
    if !all(&|x, y| x.strings == y.strings && x.metrics == y.metrics) {
        return "emf-content:metric-values";
    }
    if !all(&|x, y| x.strings == y.strings && x.directives == y.directives) {
        return "emf-content:directives";
    }
    "emf-content:other"
}

/// entries without a timestamp get the formatter's wall clock
fn check_missing_timestamp(ctx: &mut Ctx) {
    let mut t = Tally::new(
        "emf-missing-timestamp",
        "entries without a timestamp: Timestamp must lie within the wall-clock window [before, after] of the format call (millisecond granularity); non-trivial = every case",
    );
    let cases = sample_strategy(&arb_valid(false), mix_seed(ctx.seed, "missing-ts", 0), 400);
    for (cfg, mut entry) in cases {
        entry.ops.retain(|o| !matches!(o, Op::Timestamp { .. }));
        let mut emf = cfg.build();
        let mut out = vec![];
        let before = std::time::SystemTime::now()
            .duration_since(std::time::UNIX_EPOCH)
            .unwrap()
            .as_millis();
        let dec = match no_panic("emf-format", || format_once(&mut emf, &entry, &Sampling::None, &mut out)) {
            Ok(d) => d,
            Err(f) => {
                ctx.report_violation(
                    "emf-missing-timestamp",
                    f,
                    serde_json::json!({"cfg": cfg, "entry": entry}),
                    format!("{:?} {:?}", cfg, entry),
                );
                ctx.push_custom(t.finish(&[]));
                return;
            }
        };
        let after = std::time::SystemTime::now()
            .duration_since(std::time::UNIX_EPOCH)
            .unwrap()
            .as_millis();
        if dec != Decision::Ok {
            continue;
        }
        let Ok(recs) = decode_output(&out) else {
            continue;
        };
        for r in &recs {
            let ts: u128 = r.timestamp.parse().unwrap_or(0);
            if ts < before || ts > after {
                ctx.report_violation(
                    "emf-missing-timestamp",
                    Fail::new(
                        "emf-content:missing-timestamp-not-now",
                        format!("Timestamp {ts} outside [{before},{after}]"),
                    ),
                    serde_json::json!({"cfg": cfg, "entry": entry}),
                    format!("{:?} {:?}", cfg, entry),
                );
                ctx.push_custom(t.finish(&[]));
                return;
            }
        }
        t.record(hash_dbg(&(&cfg, &entry)), &["nt"], || {
            serde_json::json!({"cfg": cfg, "entry": entry})
        });
    }
    ctx.push_custom(t.finish(&[]));
}

pub const RULE: &str = "valid-by-construction entries (unique names per record, declared dimensions written as strings, split/entry-dimension config before the first dimensioned metric, one timestamp; arbitrary Unicode in every name and string; 0-5 observations incl. NaN/inf/zero-occurrence; all units; flags; 0-3 distinct per-metric dimension sets presented in rotated key order) on a fresh formatter or on one that has already formatted 1-2 other entries of the same configuration, valid ones or (35%) ones with an injected validation defect that the formatter rejects (warm formatter) x configurations (5 constructors, 1-3 namespaces, 1-3 default dimension sets, entry dimensions, extra directives, log group, ignored-dimension mode) x sampling weight (none, 2^k for k<=52, saturated, or a rate with a fractional inverse where the floor or the ceiling is accepted). Oracle: parsed output as a multiset of records == independent reference interpretation RefEmf of the recorded call sequence; RecLog cross-checked against to_test_entry. Non-trivial = >=2 of {multi-namespace, >=2 split records, entry dimensions, integer > 2^53, non-finite observation, sampling}";

pub fn run(ctx: &mut Ctx) {
    ctx.assume("RefEmf encodes the documented meaning of an entry (emf.rs docs + in-tree expected outputs); float lexemes are compared after correctly rounded parsing, integers by lexeme");
    ctx.assume("record (line) order and member order inside a record are unspecified and compared as multisets; order inside Dimensions arrays and Values/Counts alignment are compared exactly");
    let cases = ctx.tier.pick(60_000, 2_000_000);
    let threads = ctx.tier.pick(8, 16);
    ctx.explore(
        SubCfg::new("emf-content", RULE, cases)
            .threads(threads)
            .mandatory(&[
                "multi-namespace",
                "split-records",
                "entry-dimensions",
                "integer-above-2^53",
                "non-finite-observation",
                "sampled",
                "metric-with-no-usable-observation",
                "flag-no-metric",
                "flag-high-res",
                "ignored-dimension-mode",
                "extra-directives",
                "log-group",
                "saturating-weight",
                "rate-with-fractional-inverse",
                "warm-formatter",
                "warm-formatter-rejected-an-entry",
            ]),
        arb_case,
        check,
    );
    if ctx.replay.is_none() {
        check_missing_timestamp(ctx);
    }
}
