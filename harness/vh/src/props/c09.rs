//! C09 — a full queue never blocks: it drops the oldest entry, keeps order, counts losses.

use crate::bq::*;
use crate::iofault::SRes;
use crate::engine::*;
use crate::{vensure, vfail};
use metrique_writer::sink::BackgroundQueueBuilder;
use metrique_writer_core::{AnyEntrySink, EntrySink};
use proptest::prelude::*;
use serde::{Deserialize, Serialize};
use std::collections::BTreeSet;
use std::sync::Arc;
use std::time::Duration;

#[derive(Clone, Copy, Debug, PartialEq, Serialize, Deserialize)]
pub enum Step {
    /// producer index (modulo the number of producers) appends n entries
    Append { p: u8, n: u8 },
    /// grant k units of fuel and wait until the writer used them (or is idle)
    Grant(u8),
    /// grant k units WITHOUT waiting: the following appends race with the writer's pops
    GrantAsync(u8),
}

#[derive(Clone, Debug, Serialize, Deserialize)]
pub struct Case {
    pub capacity: u8,
    pub boxed: bool,
    pub producers: u8,
    pub steps: Vec<Step>,
    /// run the appends of one step from real threads concurrently
    pub concurrent: bool,
    /// 0 = local metrics recorder (counter checked); 1 = no recorder at all (the other push
    /// path); 2 = build::<BoxEntry>; 3 = boxed twice through the blanket EntrySink impl (2 and 3
    /// without recorder as well)
    #[serde(default)]
    pub qkind: u8,
    /// the stream's answers, repeated cyclically (0 Ok, 1 Validation, 2 Io); empty = always Ok.
    /// A refused entry has still been handed to the stream: order, loss and counting rules are
    /// the same whatever the stream answers
    #[serde(default)]
    pub results: Vec<u8>,
}

fn overflow_count(rec: &metrics_util_020::debugging::DebuggingRecorder) -> u64 {
    let snap = rec.snapshotter().snapshot().into_vec();
    let mut n = 0;
    for (k, _u, _d, v) in snap {
        if k.key().name() == "metrique_queue_overflows" {
            if let metrics_util_020::debugging::DebugValue::Counter(c) = v {
                n += c;
            }
        }
    }
    n
}

pub fn check(case: &Case) -> CaseResult {
    let cap = case.capacity.max(1) as usize;
    let np = case.producers.clamp(1, 4) as usize;
    let log = Arc::new(EventLog::default());
    let gate = Gate::new(false);
    let mut stream = BqStream::new(
        case.results.iter().map(|r| match r % 3 { 0 => SRes::Ok, 1 => SRes::Validation, _ => SRes::Io }).collect(),
        gate.clone(),
        log.clone(),
    );
    stream.cycle = true;
    let recorder = Arc::new(metrics_util_020::debugging::DebuggingRecorder::new());
    let b = BackgroundQueueBuilder::new()
        .capacity(cap)
        .flush_interval(Duration::from_millis(1))
        .metric_name("vq")
        .metrics_recorder_local::<dyn metrics_024::Recorder, _>(recorder.clone());
    let with_recorder = case.qkind % 4 == 0;
    let (q, handle) = match case.qkind % 4 {
        0 => {
            if case.boxed {
                let (q, h) = b.build_boxed(stream);
                (super::c01::Q::Boxed(q), h)
            } else {
                let (q, h) = b.build::<TestE>(stream);
                (super::c01::Q::Typed(q), h)
            }
        }
        1 => super::c01::build_queue(cap, case.boxed, Duration::from_millis(1), stream),
        2 => super::c01::build_queue_kind(1, cap, case.boxed, Duration::from_millis(1), stream),
        _ => super::c01::build_queue_kind(2, cap, case.boxed, Duration::from_millis(1), stream),
    };
    let mut seqs = vec![0u32; np];
    let mut total = 0usize;
    let mut granted = 0u64;
    let mut partial_progress = false;
    let mut appended_since_grant = 0usize;
    let mut racing = false;
    for st in &case.steps {
        match *st {
            Step::Append { p, n } => {
                let p = p as usize % np;
                let n = n as usize;
                if case.concurrent && np > 1 {
                    // every producer appends n entries at once
                    let blocked = std::thread::scope(|s| {
                        let hs: Vec<_> = (0..np)
                            .map(|pi| {
                                let q = q.clone();
                                let log = log.clone();
                                let start = seqs[pi];
                                s.spawn(move || {
                                    for k in 0..n {
                                        let id = Id { p: pi as u32, s: start + k as u32 };
                                        log.push(Ev::AppendStart(id));
                                        q.append(TestE(id));
                                        log.push(Ev::AppendEnd(id));
                                    }
                                })
                            })
                            .collect();
                        // N5: appends must return although the writer is stalled
                        let t0 = std::time::Instant::now();
                        while hs.iter().any(|h| !h.is_finished()) {
                            if t0.elapsed() > Duration::from_secs(10) {
                                // causal confirmation: do they complete once fuel is granted?
                                gate.open();
                                std::thread::sleep(Duration::from_millis(500));
                                let done = hs.iter().all(|h| h.is_finished());
                                for h in hs {
                                    let _ = h.join();
                                }
                                return Some(done);
                            }
                            std::thread::sleep(Duration::from_micros(50));
                        }
                        for h in hs {
                            let _ = h.join();
                        }
                        None
                    });
                    match blocked {
                        Some(true) => vfail!(
                            "overflow:append-blocked-until-writer-progress",
                            "append on a full queue blocked for 10 s and completed as soon as the writer was given fuel"
                        ),
                        Some(false) => return Ok(vec!["inconclusive-timeout"]),
                        None => {}
                    }
                    for pi in 0..np {
                        seqs[pi] += n as u32;
                    }
                    total += n * np;
                    appended_since_grant += n * np;
                } else {
                    // single driver; a blocking append is detected by a helper thread
                    let done = std::thread::scope(|s| {
                        let q = &q;
                        let log = &log;
                        let start = seqs[p];
                        let h = s.spawn(move || {
                            for k in 0..n {
                                let id = Id { p: p as u32, s: start + k as u32 };
                                log.push(Ev::AppendStart(id));
                                q.append(TestE(id));
                                log.push(Ev::AppendEnd(id));
                            }
                        });
                        let t0 = std::time::Instant::now();
                        while !h.is_finished() {
                            if t0.elapsed() > Duration::from_secs(10) {
                                gate.open();
                                std::thread::sleep(Duration::from_millis(500));
                                let d = h.is_finished();
                                let _ = h.join();
                                return Some(d);
                            }
                            std::thread::yield_now();
                        }
                        let _ = h.join();
                        None
                    });
                    match done {
                        Some(true) => vfail!(
                            "overflow:append-blocked-until-writer-progress",
                            "append on a full queue blocked for 10 s and completed as soon as the writer was given fuel"
                        ),
                        Some(false) => return Ok(vec!["inconclusive-timeout"]),
                        None => {}
                    }
                    seqs[p] += n as u32;
                    total += n;
                    appended_since_grant += n;
                }
            }
            Step::GrantAsync(k) => {
                gate.grant(k as u64);
                granted += k as u64;
                racing = true;
            }
            Step::Grant(k) => {
                if k == 0 {
                    continue;
                }
                let before = gate.consumed();
                gate.grant(k as u64);
                granted += k as u64;
                // wait until the fuel is used or the writer has nothing left to take
                let t0 = std::time::Instant::now();
                while gate.consumed() < before + k as u64 && t0.elapsed() < Duration::from_millis(30) {
                    std::thread::yield_now();
                }
                if appended_since_grant > 0 && (k as usize) < total {
                    partial_progress = true;
                }
                appended_since_grant = 0;
            }
        }
    }
    gate.open();
    drop(q);
    no_panic("queue-shutdown", || handle.shut_down())?;
    if gate.timed_out.load(std::sync::atomic::Ordering::Relaxed) {
        return Ok(vec!["inconclusive-timeout"]);
    }
    let evs = log.snapshot();
    // delivered sequence
    let delivered: Vec<Id> = evs
        .iter()
        .filter_map(|e| if let Ev::Next(id, _) = e { Some(*id) } else { None })
        .collect();
    let dset: BTreeSet<Id> = delivered.iter().copied().collect();
    vensure!(
        dset.len() == delivered.len(),
        "queue:entry-duplicated",
        "an entry reached the stream twice: {delivered:?}"
    );
    // N1: per-producer subsequence of append order (seq increasing)
    let mut last = vec![-1i64; np];
    for id in &delivered {
        vensure!(
            (id.p as usize) < np && id.s < seqs[id.p as usize],
            "queue:foreign-entry",
            "entry {id:?} was never appended"
        );
        vensure!(
            (id.s as i64) > last[id.p as usize],
            "queue:per-producer-order",
            "producer {} entries reached the stream out of append order: {} after {}",
            id.p,
            id.s,
            last[id.p as usize]
        );
        last[id.p as usize] = id.s as i64;
    }
    // single-driver global order: delivered must follow the global append order too
    if !case.concurrent || np == 1 {
        let order: Vec<Id> = evs
            .iter()
            .filter_map(|e| if let Ev::AppendStart(id) = e { Some(*id) } else { None })
            .collect();
        let mut it = order.iter();
        for d in &delivered {
            vensure!(
                it.any(|o| o == d),
                "overflow:order-not-kept",
                "entries reached the stream out of append order: delivered {delivered:?}"
            );
        }
    }
    // N2: an entry is lost only if >= capacity appends ended after its append started
    let mut lost = 0usize;
    for (i, e) in evs.iter().enumerate() {
        let Ev::AppendStart(id) = e else { continue };
        if dset.contains(id) {
            continue;
        }
        lost += 1;
        let later = evs[i..].iter().filter(|x| matches!(x, Ev::AppendEnd(y) if y != id)).count();
        vensure!(
            later >= cap,
            "overflow:lost-without-capacity-newer-entries",
            "entry {id:?} was lost although only {later} entries were appended after it (capacity {cap})"
        );
        // single driver: the queue is FIFO, so the entry was pushed out while every newer entry
        // was still queued behind it - before the writer handed any newer entry to the stream.
        // At that moment `capacity` newer appends had begun (capacity-1 queued + the displacing one).
        if !case.concurrent || np == 1 {
            let started_at: std::collections::HashMap<Id, usize> = evs
                .iter()
                .enumerate()
                .filter_map(|(k, x)| if let Ev::AppendStart(y) = x { Some((*y, k)) } else { None })
                .collect();
            let first_newer_next = evs
                .iter()
                .enumerate()
                .skip(i + 1)
                .find(|(_, x)| matches!(x, Ev::Next(y, _) if started_at.get(y).copied().unwrap_or(0) > i))
                .map(|(k, _)| k)
                .unwrap_or(evs.len());
            let begun = evs[i + 1..first_newer_next].iter().filter(|x| matches!(x, Ev::AppendStart(_))).count();
            vensure!(
                begun >= cap,
                "overflow:lost-while-queue-not-full",
                "entry {id:?} was lost, but before the writer delivered the first entry newer than it only {begun} newer appends had begun (capacity {cap}): the queue cannot have been full of newer entries"
            );
        }
    }
    vensure!(lost + delivered.len() == total, "queue:accounting", "lost {lost} + delivered {} != appended {total}", delivered.len());
    // N3: fully stalled single driver: the newest `capacity` entries survive, plus at most one
    let stalled = granted == 0 && (!case.concurrent || np == 1);
    if stalled && total > 0 {
        let order: Vec<Id> = evs
            .iter()
            .filter_map(|e| if let Ev::AppendStart(id) = e { Some(*id) } else { None })
            .collect();
        let keep = cap.min(total);
        for id in &order[total - keep..] {
            vensure!(
                dset.contains(id),
                "overflow:newest-entry-dropped",
                "stalled writer, {total} appends, capacity {cap}: one of the newest {keep} entries ({id:?}) was lost; delivered {delivered:?}"
            );
        }
        vensure!(
            delivered.len() <= cap + 1,
            "overflow:more-than-capacity-survived",
            "stalled writer: {} entries delivered with capacity {cap}",
            delivered.len()
        );
    }
    // N4: the overflow counter equals the number of discarded entries
    let counted = overflow_count(&recorder);
    vensure!(
        !with_recorder || counted as usize == lost,
        "overflow:counter-wrong",
        "metrique_queue_overflows = {counted} but {lost} entries were discarded (appended {total}, delivered {}, capacity {cap})",
        delivered.len()
    );
    let mut classes: Classes = vec![];
    classes.push(match case.qkind % 4 {
        0 => "queue-with-recorder",
        1 => "queue-without-recorder",
        2 => "queue-of-box-entry",
        _ => "reboxed-sink-through-blanket-entrysink",
    });
    if lost > 0 {
        classes.push("loss");
    }
    if stalled && lost > 0 {
        classes.push("stalled-writer");
    }
    if case.concurrent && np > 1 {
        classes.push("multi-producer");
    }
    if cap > 32 {
        classes.push("capacity-above-32");
    }
    if case.boxed {
        classes.push("boxed-queue");
    }
    if case.results.iter().any(|r| r % 3 == 2) && delivered.len() > 1 {
        classes.push("stream-answers-io-error");
    }
    if case.results.iter().any(|r| r % 3 == 1) && delivered.len() > 1 {
        classes.push("stream-answers-validation-error");
    }
    if lost > 0 && partial_progress && granted > 0 && (granted as usize) < total {
        classes.push("nt");
    }
    if racing && lost > 0 {
        classes.push("appends-racing-with-writer");
        classes.push("nt");
    }
    Ok(classes)
}

pub const RULE: &str = "capacity 1-16 or 30-70, typed/boxed queue with a local DebuggingRecorder, writer stalled behind a fuel gate, the stream answering every entry Ok or a generated cycle of Ok / Validation / Io (a refused entry has been handed over all the same); steps: Append{producer, n<=40} (single driver, or all 2-4 producers concurrently from real threads) and Grant(k) (k=0.. units of writer progress, waited for) or GrantAsync(k) (not waited for: the following appends race with the writer's pops on a full queue). Oracle (sound necessary conditions; the writer may hold one popped entry): N1 delivered ids are a subsequence of each producer's append order (and of the global order for a single driver), nothing twice; N2 an entry is lost only if >= capacity appends ended after its append started and (single driver) >= capacity newer appends had begun before the writer delivered the first entry newer than it; N3 fully stalled single driver: the newest min(capacity, n) entries all survive and at most capacity+1 are delivered; N4 metrique_queue_overflows == number of lost entries exactly; N5 an append never blocks (10 s + causal confirmation that it completes when fuel is granted). Non-trivial = >=1 loss with partial writer progress (0 < fuel < appends)";

/// an entry that is wide INLINE (no heap indirection): the ring buffer holds the entries themselves
pub struct WideE<const N: usize>(pub [u8; N], pub Id);
impl<const N: usize> metrique_writer_core::Entry for WideE<N> {
    fn write<'a>(&'a self, w: &mut impl metrique_writer_core::EntryWriter<'a>) {
        w.value("p", &(self.1.p as u64));
        w.value("s", &(self.1.s as u64));
    }
}

#[derive(Clone, Debug, Serialize, Deserialize)]
pub struct WideCase {
    /// 0 = 4 KiB entries, 1 = 32 KiB entries
    pub width: u8,
    pub capacity: u16,
    /// how many entries beyond the capacity are appended (0 = exactly full, no loss allowed)
    pub extra: u8,
}

fn run_wide<const N: usize>(case: &WideCase) -> CaseResult {
    let cap = case.capacity.max(2) as usize;
    let log = Arc::new(EventLog::default());
    let gate = Gate::new(false);
    let stream = BqStream::new(vec![], gate.clone(), log.clone());
    let recorder = metrics_util_020::debugging::DebuggingRecorder::new();
    let snapshotter = recorder.snapshotter();
    let (q, handle) = metrique_writer::sink::BackgroundQueueBuilder::new()
        .capacity(cap)
        .flush_interval(Duration::from_millis(1))
        .metric_name("vq")
        .metrics_recorder_local::<dyn metrics_024::Recorder, _>(recorder)
        .build::<WideE<N>>(stream);
    // the writer takes (at most) one entry and then waits at the shut gate
    let n = cap + case.extra as usize;
    for s in 0..n {
        q.append(WideE([0u8; N], Id { p: 0, s: s as u32 }));
    }
    gate.open();
    drop(q);
    no_panic("queue-shutdown", || handle.shut_down())?;
    let delivered: Vec<u32> = log
        .snapshot()
        .iter()
        .filter_map(|e| if let Ev::Next(id, _) = e { Some(id.s) } else { None })
        .collect();
    let counted: u64 = snapshotter
        .snapshot()
        .into_vec()
        .into_iter()
        .filter(|(k, ..)| k.key().name() == "metrique_queue_overflows")
        .map(|(_, _, _, v)| match v {
            metrics_util_020::debugging::DebugValue::Counter(c) => c,
            _ => 0,
        })
        .sum();
    // the newest `capacity` entries always survive a stalled writer, whatever the entry size
    for s in (n - cap)..n {
        vensure!(
            delivered.contains(&(s as u32)),
            "overflow:lost-without-capacity-newer-entries",
            "{}-byte entries, configured capacity {cap}, {n} appended with the writer stalled: entry {s} (one of the newest {cap}) was lost; {} delivered, overflow counter {counted}",
            N,
            delivered.len()
        );
    }
    vensure!(
        counted as usize == n - delivered.len(),
        "overflow:counter-wrong",
        "{}-byte entries, capacity {cap}: {n} appended, {} delivered, overflow counter {counted}",
        N,
        delivered.len()
    );
    let mut classes: Classes = vec!["nt"];
    if N * cap > 64 << 20 {
        classes.push("ring-larger-than-64-MiB");
    }
    Ok(classes)
}

/// the queue's metrics go to the metrics facade's CURRENT recorder (`metrics_recorder_global`): the
/// overflow counter must be credited to whatever recorder is current for the appending code at the
/// moment of each discard
#[derive(Clone, Debug, Serialize, Deserialize)]
pub struct GlobalRecCase {
    pub capacity: u8,
    pub boxed: bool,
    /// phases: (recorder index 0..3, number of appends)
    pub phases: Vec<(u8, u8)>,
}

pub fn check_global_recorder(case: &GlobalRecCase) -> CaseResult {
    let cap = case.capacity.clamp(1, 12) as usize;
    let log = Arc::new(EventLog::default());
    let gate = Gate::new(false);
    let stream = BqStream::new(vec![], gate.clone(), log.clone());
    let recs: Vec<metrics_util_020::debugging::DebuggingRecorder> = (0..3).map(|_| metrics_util_020::debugging::DebuggingRecorder::new()).collect();
    let b = BackgroundQueueBuilder::new()
        .capacity(cap)
        .flush_interval(Duration::from_millis(1))
        .metric_name("vq")
        .metrics_recorder_global::<dyn metrics_024::Recorder>();
    let (q, handle) = if case.boxed {
        let (q, h) = b.build_boxed(stream);
        (super::c01::Q::Boxed(q), h)
    } else {
        let (q, h) = b.build::<TestE>(stream);
        (super::c01::Q::Typed(q), h)
    };
    // first fill the ring beyond doubt (the stalled writer holds at most one entry): from then on
    // every append discards exactly one entry
    let mut seq = 0u32;
    let mut append = |n: usize| {
        for _ in 0..n {
            q.append(TestE(Id { p: 0, s: seq }));
            seq += 1;
        }
    };
    metrics_024::with_local_recorder(&recs[2], || append(cap + 2));
    // the writer takes one entry at a moment of its choosing and then waits at the shut gate for
    // good; one more append afterwards and the ring is full whatever that moment was
    if !gate.wait_blocked(Duration::from_secs(5)) {
        gate.open();
        drop(q);
        let _ = no_panic("queue-shutdown", || handle.shut_down());
        return Ok(vec!["inconclusive-timeout"]);
    }
    metrics_024::with_local_recorder(&recs[2], || append(1));
    let mut expected = [0u64; 3];
    for (r, n) in &case.phases {
        let r = *r as usize % 2;
        metrics_024::with_local_recorder(&recs[r], || append(*n as usize));
        expected[r] += *n as u64;
    }
    let total = seq as usize;
    gate.open();
    drop(q);
    no_panic("queue-shutdown", || handle.shut_down())?;
    let delivered = log.count(|e| matches!(e, Ev::Next(..)));
    let counts: Vec<u64> = recs.iter().map(overflow_count).collect();
    for r in 0..2 {
        vensure!(
            counts[r] == expected[r],
            "overflow:counter-credited-to-the-wrong-recorder",
            "queue built with metrics_recorder_global, capacity {cap}, ring full: {} entries were appended (and as many discarded) while recorder {r} was the current one, but its metrique_queue_overflows counter reads {} (all recorders: {counts:?}, expected for 0/1: {expected:?})",
            expected[r],
            counts[r]
        );
    }
    vensure!(
        counts.iter().sum::<u64>() as usize == total - delivered,
        "overflow:counter-wrong",
        "{total} appended, {delivered} delivered, overflow counters {counts:?}"
    );
    let mut classes: Classes = vec![];
    if expected[0] > 0 && expected[1] > 0 {
        classes.push("discards-under-two-different-current-recorders");
        classes.push("nt");
    }
    Ok(classes)
}

pub fn check_wide(case: &WideCase) -> CaseResult {
    match case.width % 2 {
        0 => run_wide::<4096>(case),
        _ => run_wide::<32768>(case),
    }
}

// ---------------------------------------------------------------------------------------------
// the overflow log is emitted on the appending thread, inside append: a tracing subscriber that
// itself appends to the same queue (metrics about logged errors) re-enters append from there

struct ReentrantSub {
    q: super::c01::Q,
    log: Arc<EventLog>,
    nested: Arc<std::sync::atomic::AtomicU32>,
}
impl tracing::Subscriber for ReentrantSub {
    fn enabled(&self, _m: &tracing::Metadata<'_>) -> bool {
        true
    }
    fn new_span(&self, _s: &tracing::span::Attributes<'_>) -> tracing::span::Id {
        tracing::span::Id::from_u64(1)
    }
    fn record(&self, _s: &tracing::span::Id, _v: &tracing::span::Record<'_>) {}
    fn record_follows_from(&self, _s: &tracing::span::Id, _f: &tracing::span::Id) {}
    fn event(&self, event: &tracing::Event<'_>) {
        if *event.metadata().level() == tracing::Level::ERROR {
            let k = self.nested.fetch_add(1, std::sync::atomic::Ordering::SeqCst);
            if k < 50 {
                let id = Id { p: 2, s: k };
                self.log.push(Ev::AppendStart(id));
                self.q.append(TestE(id));
                self.log.push(Ev::AppendEnd(id));
            }
        }
    }
    fn enter(&self, _s: &tracing::span::Id) {}
    fn exit(&self, _s: &tracing::span::Id) {}
}

#[derive(Clone, Debug, Serialize, Deserialize)]
pub struct ReentrantCase {
    pub capacity: u8,
    pub boxed: bool,
    pub extra: u8,
}

pub fn check_reentrant(case: &ReentrantCase) -> CaseResult {
    let cap = case.capacity.clamp(1, 12) as usize;
    let log = Arc::new(EventLog::default());
    let gate = Gate::new(false);
    let stream = BqStream::new(vec![], gate.clone(), log.clone());
    let (q, handle) = super::c01::build_queue(cap, case.boxed, Duration::from_millis(1), stream);
    let mut seq = 0u32;
    // one entry for the writer to hold at the gate, then fill the ring
    for _ in 0..(cap + 1) {
        let id = Id { p: 0, s: seq };
        seq += 1;
        log.push(Ev::AppendStart(id));
        q.append(TestE(id));
        log.push(Ev::AppendEnd(id));
        if seq == 1 && !gate.wait_blocked(Duration::from_secs(5)) {
            gate.open();
            let _ = no_panic("queue-shutdown", || handle.shut_down());
            return Ok(vec!["inconclusive-timeout"]);
        }
    }
    // the overflow log is limited to one per second process-wide: make sure it can fire now
    std::thread::sleep(Duration::from_millis(1100));
    let nested = Arc::new(std::sync::atomic::AtomicU32::new(0));
    let extra = 1 + (case.extra % 6) as u32;
    let done = Arc::new(std::sync::atomic::AtomicBool::new(false));
    let worker = {
        let (q, log, nested, done) = (q.clone(), log.clone(), nested.clone(), done.clone());
        std::thread::spawn(move || {
            let sub = ReentrantSub { q: q.clone(), log: log.clone(), nested };
            tracing::subscriber::with_default(sub, || {
                for k in 0..extra {
                    let id = Id { p: 1, s: k };
                    log.push(Ev::AppendStart(id));
                    q.append(TestE(id));
                    log.push(Ev::AppendEnd(id));
                }
            });
            done.store(true, std::sync::atomic::Ordering::SeqCst);
        })
    };
    let t0 = std::time::Instant::now();
    while !done.load(std::sync::atomic::Ordering::SeqCst) && t0.elapsed() < Duration::from_secs(10) {
        std::thread::sleep(Duration::from_millis(1));
    }
    if !done.load(std::sync::atomic::Ordering::SeqCst) {
        // the appender is stuck inside append (it is left behind: it cannot be cancelled)
        vfail!(
            "overflow:append-blocked-until-writer-progress",
            "append on a full queue (capacity {cap}) did not return within 10 s; the overflow log was delivered to a tracing subscriber that appends to the same queue ({} nested append(s) started). Events: {:?}",
            nested.load(std::sync::atomic::Ordering::SeqCst),
            log.snapshot().iter().rev().take(6).collect::<Vec<_>>()
        );
    }
    let _ = worker.join();
    gate.open();
    drop(q);
    no_panic("queue-shutdown", || handle.shut_down())?;
    let evs = log.snapshot();
    let appended: Vec<Id> = evs.iter().filter_map(|e| if let Ev::AppendStart(id) = e { Some(*id) } else { None }).collect();
    let delivered: Vec<Id> = evs.iter().filter_map(|e| if let Ev::Next(id, _) = e { Some(*id) } else { None }).collect();
    // the held entry plus the newest `cap` entries, in append order
    let mut want = vec![appended[0]];
    want.extend_from_slice(&appended[appended.len() - cap.min(appended.len() - 1)..]);
    vensure!(
        delivered == want,
        "overflow:wrong-survivors",
        "capacity {cap}, {} appends ({} of them nested inside the overflow log): delivered {delivered:?}, expected the held entry plus the newest {cap}: {want:?}",
        appended.len(),
        nested.load(std::sync::atomic::Ordering::SeqCst)
    );
    let mut classes: Classes = vec![];
    if nested.load(std::sync::atomic::Ordering::SeqCst) > 0 {
        classes.push("append-nested-inside-the-overflow-log");
        classes.push("nt");
    }
    Ok(classes)
}

pub fn run(ctx: &mut Ctx) {
    ctx.assume("the exact set of survivors is racy by one entry (the writer may already hold the oldest one); only conditions that hold on every schedule are asserted");
    let q = ctx.tier == Tier::Quick;
    ctx.explore(
        SubCfg::new("c09-overflow", RULE, if q { 1_200 } else { 30_000 })
            .threads(ctx.tier.pick(4, 8))
            .shrink_iters(150)
            .mandatory(&["loss", "stalled-writer", "multi-producer", "boxed-queue", "appends-racing-with-writer", "capacity-above-32", "queue-without-recorder", "queue-of-box-entry", "reboxed-sink-through-blanket-entrysink", "stream-answers-io-error", "stream-answers-validation-error"]),
        || {
            (
                prop_oneof![3 => 1u8..5, 2 => 5u8..=16, 1 => 30u8..=70],
                any::<bool>(),
                1u8..=4,
                prop::collection::vec(
                    prop_oneof![
                        5 => (any::<u8>(), prop_oneof![1u8..4, 1u8..40]).prop_map(|(p, n)| Step::Append { p, n }),
                        2 => prop_oneof![Just(0u8), 1u8..6, 1u8..30].prop_map(Step::Grant),
                        2 => prop_oneof![1u8..6, 1u8..60].prop_map(Step::GrantAsync),
                    ],
                    1..14,
                ),
                prop::bool::weighted(0.35),
                prop_oneof![3 => Just(0u8), 2 => 1u8..4],
                prop_oneof![3 => Just(vec![]), 2 => prop::collection::vec(0u8..3, 1..6)],
            )
                .prop_map(|(capacity, boxed, producers, steps, concurrent, qkind, results)| Case {
                    capacity,
                    boxed,
                    producers,
                    steps,
                    concurrent,
                    qkind,
                    results,
                })
        },
        check,
    );
    ctx.explore(
        SubCfg::new(
            "c09-global-recorder",
            "queue built with metrics_recorder_global (typed / boxed, capacity 1-12), writer stalled, ring filled; then 1-6 phases of 0-30 appends, each phase run with one of two DebuggingRecorders installed as the facade's current recorder (with_local_recorder). Oracle: every discard is credited to the recorder that was current when it happened - each recorder's metrique_queue_overflows equals the appends of its phases, the sum equals the losses. Non-trivial = discards under both recorders",
            if q { 300 } else { 6_000 },
        )
        .threads(ctx.tier.pick(4, 8))
        .shrink_iters(40)
        .mandatory(&["discards-under-two-different-current-recorders"]),
        || {
            (1u8..12, any::<bool>(), prop::collection::vec((0u8..2, 0u8..30), 1..7)).prop_map(|(capacity, boxed, phases)| GlobalRecCase {
                capacity,
                boxed,
                phases,
            })
        },
        check_global_recorder,
    );
    // memory-heavy (up to ~100 MiB per case): few cases, one at a time
    ctx.explore(
        SubCfg::new(
            "c09-wide-entries",
            "typed queue whose entry type is 4 KiB or 32 KiB wide inline (the ring holds the entries themselves), configured capacity 2-3000, writer stalled, capacity + 0..40 entries appended, then released. Oracle: the configured capacity is honoured whatever the entry size - the newest `capacity` entries all survive, the overflow counter equals the losses. Non-trivial = every case",
            if q { 6 } else { 60 },
        )
        .threads(1)
        .shrink_iters(8)
        .mandatory(&["ring-larger-than-64-MiB"]),
        || {
            prop_oneof![
                2 => (Just(1u8), 2049u16..3000, prop_oneof![Just(0u8), 0u8..40]),
                1 => (0u8..2, prop_oneof![2u16..200, 2049u16..3000], prop_oneof![Just(0u8), 0u8..40]),
            ]
            .prop_map(|(width, capacity, extra)| WideCase { width, capacity, extra })
        },
        check_wide,
    );
    ctx.explore(
        SubCfg::new(
            "c09-append-from-inside-the-overflow-log",
            "full queue (capacity 1-12, writer stalled), the process-wide overflow log limiter allowed to fire (1.1 s pause), then 1-6 appends on a thread whose tracing subscriber reacts to every ERROR event by appending to the SAME queue: the overflow log is emitted inside append, so append re-enters itself. Oracle: every append returns (10 s limit, the stuck thread is left behind), the survivors are the held entry plus the newest `capacity` entries in append order. Non-trivial = a nested append happened",
            if q { 3 } else { 12 },
        )
        .threads(1)
        .shrink_iters(2)
        .mandatory(&["append-nested-inside-the-overflow-log"]),
        || (1u8..12, any::<bool>(), any::<u8>()).prop_map(|(capacity, boxed, extra)| ReentrantCase { capacity, boxed, extra }),
        check_reentrant,
    );
}

#[allow(dead_code)]
fn _u<T: EntrySink<TestE>>(_: T) {}
#[allow(dead_code)]
fn _a<T: AnyEntrySink>(_: T) {}
