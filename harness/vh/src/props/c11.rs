//! C11 — histograms conserve observation counts and stay within their stated error.

use crate::engine::*;
use crate::model::*;
use crate::reclog::*;
use crate::{vensure, vfail};
use metrique_aggregation::histogram::{
    AtomicExponentialAggregationStrategy, ExponentialAggregationStrategy, Histogram, SharedHistogram, SortAndMerge,
};
use metrique_aggregation::traits::AggregateValue;
use metrique_core::CloseValue;
use metrique_writer_core::unit::{self, WithUnit};
use metrique_writer_core::{MetricFlags, MetricValue, Observation, Value, ValueWriter};
use proptest::prelude::*;
use serde::{Deserialize, Serialize};
use std::time::Duration;

/// one recorded input: a value source
#[derive(Clone, Debug, PartialEq, Serialize, Deserialize)]
pub enum Input {
    U(u64),
    Fl(F),
    /// duration in nanoseconds, recorded as Duration (ms), or converted to micros / seconds
    Dur { nanos: u64, unit: u8 },
    Rep { total: F, occ: u64 },
}

/// metric value that writes one arbitrary observation (unit None)
struct OneObs(Observation);
impl Value for OneObs {
    fn write(&self, w: impl ValueWriter) {
        w.metric([self.0], metrique_writer_core::Unit::None, [], MetricFlags::empty())
    }
}
impl MetricValue for OneObs {
    type Unit = unit::None;
}

/// metric value that writes SEVERAL observations in one call (what a Distribution or a closed
/// histogram used as a source does)
struct ManyObs(Vec<Observation>);
impl Value for ManyObs {
    fn write(&self, w: impl ValueWriter) {
        w.metric(self.0.iter().copied(), metrique_writer_core::Unit::None, [], MetricFlags::empty())
    }
}
impl MetricValue for ManyObs {
    type Unit = unit::None;
}

/// the (value, occurrences) the histogram is told about, per the documented reading of an input
fn meaning(i: &Input) -> Option<(f64, u64)> {
    match i {
        Input::U(u) => Some((*u as f64, 1)),
        Input::Fl(f) => Some((f.0, 1)),
        Input::Dur { nanos, unit } => {
            let d = Duration::from_nanos(*nanos);
            let ms = d.as_secs_f64() * 1000.0;
            Some((
                match unit % 3 {
                    0 => ms,
                    1 => ms * 1000.0,  // Millisecond -> Microsecond
                    _ => ms / 1000.0,  // Millisecond -> Second (RATIO = 1/1000)
                },
                1,
            ))
        }
        Input::Rep { total, occ } => {
            if *occ == 0 {
                None
            } else {
                Some((total.0 / *occ as f64, *occ))
            }
        }
    }
}

// ---------------------------------------------------------------------------------------------
// bucket layout (own computation): grouping power 4, 64-bit range => 976 buckets over the
// scaled (x1024) integer domain

pub fn bucket_bounds() -> Vec<(u64, u64)> {
    let mut v: Vec<(u64, u64)> = (0..32u64).map(|i| (i, i)).collect();
    for p in 5..64u32 {
        for j in 0..16u64 {
            let lo = (16 + j) << (p - 4);
            let hi = lo + ((1u64 << (p - 4)) - 1);
            v.push((lo, hi));
        }
    }
    v
}

fn arb_scaled_value() -> impl Strategy<Value = f64> {
    // a value expressed in 1/1024 units so that bucket boundaries are hit exactly
    let bounds = bucket_bounds();
    let usable: Vec<(u64, u64)> = bounds.into_iter().filter(|(lo, _)| *lo < (1u64 << 53)).collect();
    let n = usable.len();
    prop_oneof![
        6 => (0..n, 0u8..7).prop_map(move |(i, which)| {
            let (lo, hi) = usable[i];
            let s: f64 = match which {
                0 => lo as f64,
                1 => lo.saturating_sub(1) as f64,
                2 => hi as f64,
                3 => (hi.saturating_add(1)).min((1u64 << 53) - 1) as f64,
                4 => lo.midpoint(hi) as f64,
                5 => lo as f64 + 0.5,
                _ => (hi as f64 + 0.999).min(((1u64 << 53) - 1) as f64),
            };
            s / 1024.0
        }),
        2 => (0u64..32 * 1024).prop_map(|x| x as f64 / (1024.0 * 1024.0)), // the sub-1/32 linear region, finer than a bucket
        1 => Just(0.0f64),
        // clusters of DISTINCT values only a few ulps apart (and tiny values next to zero): equal
        // values merge, near-equal ones must not
        3 => (prop::sample::select(vec![0.1f64 + 0.2, 0.3, 1.0 / 32.0, 1.0, 0.5, 1.9999999999999998, 3.0, 1000.5, 0.0, 1e-300, 1e-16, 5e-324]), 0u64..4)
            .prop_map(|(b, k)| f64::from_bits(b.to_bits() + k)),
        2 => (0u64..100_000).prop_map(|x| x as f64),
        1 => (0.0f64..8.79e12).prop_map(|x| x), // below 2^43
        2 => (-20.0f64..43.0).prop_map(|e| 2f64.powf(e).min(8.79e12)),
    ]
}

fn arb_input(max_occ: u64) -> impl Strategy<Value = Input> {
    prop_oneof![
        3 => arb_scaled_value().prop_map(|v| Input::Fl(F(v))),
        2 => prop_oneof![0u64..64, 0u64..100_000, 0u64..(1 << 43)].prop_map(Input::U),
        2 => (prop_oneof![0u64..2_000_000, 0u64..10_000_000_000, 0u64..(1 << 50)], 0u8..3)
            .prop_map(|(nanos, unit)| Input::Dur { nanos, unit }),
        3 => (arb_scaled_value(), prop_oneof![Just(0u64), Just(1u64), 2u64..50, 2u64..=max_occ])
            .prop_map(|(v, occ)| {
                // total chosen so that total/occ is (close to) the intended value
                Input::Rep { total: F(v * occ as f64), occ }
            }),
    ]
}

// ---------------------------------------------------------------------------------------------

#[derive(Clone, Copy, Debug, PartialEq, Serialize, Deserialize)]
pub enum Strat {
    Exponential,
    AtomicExponential,
    SortAndMerge,
}

#[derive(Clone, Debug, Serialize, Deserialize)]
pub struct Case {
    pub inputs: Vec<Input>,
    pub threads: u8,
}

fn add_to<S: metrique_aggregation::histogram::AggregationStrategy>(h: &mut Histogram<OneObs, S>, hd: &mut Vec<(f64, u64)>, i: &Input) {
    // Durations go through their own typed histograms below; here they are recorded as the
    // float they mean, so that every strategy sees the same multiset
    match i {
        Input::U(u) => h.add_value(OneObs(Observation::Unsigned(*u))),
        Input::Fl(f) => h.add_value(OneObs(Observation::Floating(f.0))),
        Input::Rep { total, occ } => h.add_value(OneObs(Observation::Repeated {
            total: total.0,
            occurrences: *occ,
        })),
        Input::Dur { .. } => {
            let (v, _) = meaning(i).unwrap();
            h.add_value(OneObs(Observation::Floating(v)))
        }
    }
    if let Some(m) = meaning(i) {
        hd.push(m);
    }
}

fn closed_obs(v: &impl Value) -> Result<Vec<(f64, u64)>, Fail> {
    struct E<'a, V>(&'a V);
    impl<V: Value> metrique_writer_core::Entry for E<'_, V> {
        fn write<'a>(&'a self, w: &mut impl metrique_writer_core::EntryWriter<'a>) {
            w.value("h", self.0)
        }
    }
    match record(&E(v)).recs.as_slice() {
        [Rec::Value { val: RecVal::Metric { obs, .. }, .. }] => Ok(obs
            .iter()
            .map(|o| match o {
                Obs::Rep { total, occ } => (total.0, *occ),
                Obs::U(u) => (*u as f64, 1),
                Obs::Fl(f) => (f.0, 1),
            })
            .collect()),
        other => Err(Fail::new("histogram:closed-shape", format!("closed histogram wrote {other:?}"))),
    }
}

/// pair sorted inputs with sorted outputs run by run and check the per-observation error bound
fn check_exponential(inputs: &[(f64, u64)], out: &[(f64, u64)], what: &str) -> Result<(), Fail> {
    let n_in: u128 = inputs.iter().map(|x| x.1 as u128).sum();
    let n_out: u128 = out.iter().map(|x| x.1 as u128).sum();
    vensure!(
        n_in == n_out,
        "histogram:count-not-conserved",
        "{what}: recorded {n_in} observations, closed distribution has {n_out}\ninputs={inputs:?}\nout={out:?}"
    );
    let mut ins: Vec<(f64, u64)> = inputs.to_vec();
    ins.sort_by(|a, b| a.0.partial_cmp(&b.0).unwrap());
    // reported value of a bucket = total / occurrences
    let mut outs: Vec<(f64, u64)> = out.iter().map(|(t, c)| (t / *c as f64, *c)).collect();
    for w in outs.windows(2) {
        vensure!(
            w[0].0 <= w[1].0,
            "histogram:not-ascending",
            "{what}: reported values not ascending: {outs:?}"
        );
    }
    let (mut i, mut j) = (0usize, 0usize);
    while i < ins.len() && j < outs.len() {
        let take = ins[i].1.min(outs[j].1);
        let v = ins[i].0;
        let r = outs[j].0;
        let ok = if v < 1.0 / 32.0 {
            (r - v).abs() <= 1.0 / 1024.0 + 1e-12
        } else {
            (r - v).abs() <= v / 16.0 * (1.0 + 1e-9)
        };
        vensure!(
            ok,
            "histogram:error-bound",
            "{what}: observation {v} reported at {r} (error {:.4}%)",
            (r - v).abs() / v * 100.0
        );
        ins[i].1 -= take;
        outs[j].1 -= take;
        if ins[i].1 == 0 {
            i += 1;
        }
        if outs[j].1 == 0 {
            j += 1;
        }
    }
    Ok(())
}

pub fn check(case: &Case) -> CaseResult {
    let mut classes: Classes = vec![];
    let mut meant: Vec<(f64, u64)> = vec![];
    let mut h_exp: Histogram<OneObs, ExponentialAggregationStrategy> = Histogram::default();
    for i in &case.inputs {
        add_to(&mut h_exp, &mut meant, i);
    }
    // the same inputs through the atomic strategy, possibly from several threads
    let shared: SharedHistogram<OneObs, AtomicExponentialAggregationStrategy> = SharedHistogram::default();
    let nthreads = (case.threads % 8 + 1) as usize;
    let to_obs = |i: &Input| match i {
        Input::U(u) => Observation::Unsigned(*u),
        Input::Fl(f) => Observation::Floating(f.0),
        Input::Rep { total, occ } => Observation::Repeated {
            total: total.0,
            occurrences: *occ,
        },
        Input::Dur { .. } => Observation::Floating(meaning(i).unwrap().0),
    };
    if nthreads == 1 {
        for i in &case.inputs {
            shared.add_value(OneObs(to_obs(i)));
        }
    } else {
        let barrier = std::sync::Barrier::new(nthreads);
        std::thread::scope(|s| {
            for t in 0..nthreads {
                let shared = &shared;
                let barrier = &barrier;
                let inputs = &case.inputs;
                let to_obs = &to_obs;
                s.spawn(move || {
                    barrier.wait();
                    for (k, i) in inputs.iter().enumerate() {
                        if k % nthreads == t {
                            shared.add_value(OneObs(to_obs(i)));
                        }
                    }
                });
            }
        });
        classes.push("concurrent-recording");
    }
    let c_exp = no_panic("histogram-close", || h_exp.close())?;
    let c_atomic = no_panic("histogram-close", || shared.close())?;
    let o_exp = closed_obs(&c_exp)?;
    let o_atomic = closed_obs(&c_atomic)?;
    check_exponential(&meant, &o_exp, "exponential")?;
    check_exponential(&meant, &o_atomic, "atomic exponential")?;
    vensure!(
        o_exp.len() == o_atomic.len()
            && o_exp.iter().zip(&o_atomic).all(|(a, b)| a.0.to_bits() == b.0.to_bits() && a.1 == b.1),
        "histogram:atomic-differs",
        "atomic and non-atomic strategies disagree for the same multiset:\n exp={o_exp:?}\n atomic={o_atomic:?}"
    );
    // the same multiset through the other public ways in: explicit constructors and the
    // AggregateValue<T> impl that #[aggregate(strategy = Histogram<..>)] uses per raw value
    {
        let obs_of = |i: &Input| OneObs(to_obs(i));
        let mut h_new: Histogram<OneObs, ExponentialAggregationStrategy> = Histogram::new(ExponentialAggregationStrategy::new());
        let shared_new: SharedHistogram<OneObs, AtomicExponentialAggregationStrategy> =
            SharedHistogram::new(AtomicExponentialAggregationStrategy::new());
        for i in &case.inputs {
            <Histogram<OneObs, ExponentialAggregationStrategy> as AggregateValue<OneObs>>::insert(&mut h_new, obs_of(i));
            shared_new.add_value(obs_of(i));
        }
        let o_new = closed_obs(&no_panic("histogram-close", || h_new.close())?)?;
        let o_shared_new = closed_obs(&no_panic("histogram-close", || shared_new.close())?)?;
        let same = |a: &[(f64, u64)], b: &[(f64, u64)]| a.len() == b.len() && a.iter().zip(b).all(|(x, y)| x.0.to_bits() == y.0.to_bits() && x.1 == y.1);
        vensure!(
            same(&o_new, &o_exp),
            "histogram:constructor-or-insert-path-differs",
            "Histogram::new(ExponentialAggregationStrategy::new()) fed through AggregateValue::<T>::insert differs from Histogram::default() fed through add_value:\n default={o_exp:?}\n new+insert={o_new:?}"
        );
        vensure!(
            same(&o_shared_new, &o_exp),
            "histogram:constructor-or-insert-path-differs",
            "SharedHistogram::new(AtomicExponentialAggregationStrategy::new()) differs from the non-atomic histogram:\n exp={o_exp:?}\n shared::new={o_shared_new:?}"
        );
    }
    // re-aggregation fixpoint
    let mut again: Histogram<OneObs, ExponentialAggregationStrategy> = Histogram::default();
    <Histogram<OneObs, ExponentialAggregationStrategy> as AggregateValue<_>>::insert(&mut again, c_exp);
    let o_again = closed_obs(&again.close())?;
    vensure!(
        o_again.len() == o_exp.len()
            && o_again.iter().zip(&o_exp).all(|(a, b)| a.0.to_bits() == b.0.to_bits() && a.1 == b.1),
        "histogram:reaggregation-changes-output",
        "re-aggregating a closed exponential histogram changed it:\n first ={o_exp:?}\n second={o_again:?}"
    );

    // the same observations handed over several at a time (a source that writes 1-3 observations
    // per add_value call) must give the very same distributions
    {
        let mut h_multi: Histogram<ManyObs, ExponentialAggregationStrategy> = Histogram::default();
        let shared_multi: SharedHistogram<ManyObs, AtomicExponentialAggregationStrategy> = SharedHistogram::default();
        let all: Vec<Observation> = case.inputs.iter().map(&to_obs).collect();
        let mut k = 0usize;
        let mut step = 1usize;
        while k < all.len() {
            let end = (k + step).min(all.len());
            h_multi.add_value(ManyObs(all[k..end].to_vec()));
            shared_multi.add_value(ManyObs(all[k..end].to_vec()));
            k = end;
            step = step % 3 + 1;
        }
        let o_multi = closed_obs(&no_panic("histogram-close", || h_multi.close())?)?;
        let o_smulti = closed_obs(&no_panic("histogram-close", || shared_multi.close())?)?;
        for (what, o) in [("Histogram", &o_multi), ("SharedHistogram", &o_smulti)] {
            vensure!(
                o.len() == o_exp.len() && o.iter().zip(&o_exp).all(|(a, b)| a.0.to_bits() == b.0.to_bits() && a.1 == b.1),
                "histogram:multi-observation-source-differs",
                "{what}: the same observations written 1-3 per add_value call give a different distribution than one per call:\n one-per-call={o_exp:?}\n several      ={o:?}"
            );
        }
        if all.len() >= 2 {
            classes.push("multi-observation-source");
        }
    }
    // folding two closed histograms into one accumulator (and a closed histogram into an
    // accumulator that already holds data) gives the histogram of all the inputs
    if case.inputs.len() >= 2 {
        let half = case.inputs.len() / 2;
        let mut ha: Histogram<OneObs, ExponentialAggregationStrategy> = Histogram::default();
        let mut hb: Histogram<OneObs, ExponentialAggregationStrategy> = Histogram::default();
        let mut sink = vec![];
        for i in &case.inputs[..half] {
            add_to(&mut ha, &mut sink, i);
        }
        for i in &case.inputs[half..] {
            add_to(&mut hb, &mut sink, i);
        }
        let (ca, cb) = (no_panic("histogram-close", || ha.close())?, no_panic("histogram-close", || hb.close())?);
        let mut acc: Histogram<OneObs, ExponentialAggregationStrategy> = Histogram::default();
        <Histogram<OneObs, ExponentialAggregationStrategy> as AggregateValue<_>>::insert(&mut acc, ca);
        <Histogram<OneObs, ExponentialAggregationStrategy> as AggregateValue<_>>::insert(&mut acc, cb);
        let o_acc = closed_obs(&no_panic("histogram-close", || acc.close())?)?;
        let n_acc: u128 = o_acc.iter().map(|x| x.1 as u128).sum();
        let n_all: u128 = o_exp.iter().map(|x| x.1 as u128).sum();
        vensure!(
            n_acc == n_all,
            "histogram:count-not-conserved",
            "two closed histograms folded into one accumulator: {n_acc} occurrences, the inputs have {n_all}"
        );
        check_exponential(&meant, &o_acc, "two closed exponential histograms folded into one")?;
        vensure!(
            o_acc.len() == o_exp.len() && o_acc.iter().zip(&o_exp).all(|(a, b)| a.0.to_bits() == b.0.to_bits() && a.1 == b.1),
            "histogram:reaggregation-changes-output",
            "folding the closed histograms of two halves of the inputs into one accumulator differs from the histogram of all inputs:\n all   ={o_exp:?}\n folded={o_acc:?}"
        );
        classes.push("folded-two-closed-histograms");
    }

    // sort-and-merge (allocates per occurrence: only when the total count is small)
    let total: u128 = meant.iter().map(|m| m.1 as u128).sum();
    if total <= 5000 {
        let mut h_sm: Histogram<OneObs, SortAndMerge> = Histogram::default();
        let mut m2 = vec![];
        for i in &case.inputs {
            add_to(&mut h_sm, &mut m2, i);
        }
        let c_sm = no_panic("histogram-close", || h_sm.close())?;
        let o_sm = closed_obs(&c_sm)?;
        let mut sorted = meant.clone();
        sorted.sort_by(|a, b| a.0.partial_cmp(&b.0).unwrap());
        let mut expect: Vec<(f64, u64)> = vec![];
        for (v, c) in sorted {
            match expect.last_mut() {
                Some(l) if l.0 == v => l.1 += c,
                _ => expect.push((v, c)),
            }
        }
        vensure!(
            o_sm.len() == expect.len()
                && o_sm
                    .iter()
                    .zip(&expect)
                    .all(|(got, e)| got.1 == e.1 && got.0.to_bits() == (e.0 * e.1 as f64).to_bits()),
            "histogram:sort-and-merge",
            "sort-and-merge must report exactly the distinct recorded values ascending with counts:\n got={o_sm:?}\n expected (value,count)={expect:?}"
        );
        // other inline capacities (always-heap, one, larger than the default 32) and the
        // explicit constructor are separate monomorphisations of the same behaviour
        macro_rules! sm_variant {
            ($n:literal, $ctor:expr) => {{
                let mut h: Histogram<OneObs, SortAndMerge<$n>> = $ctor;
                let mut m = vec![];
                for i in &case.inputs {
                    add_to(&mut h, &mut m, i);
                }
                let o = closed_obs(&no_panic("histogram-close", || h.close())?)?;
                vensure!(
                    o.len() == o_sm.len() && o.iter().zip(&o_sm).all(|(x, y)| x.0.to_bits() == y.0.to_bits() && x.1 == y.1),
                    "histogram:sort-and-merge-capacity-variant",
                    "SortAndMerge<{}> differs from SortAndMerge<32> for the same inputs:\n <32>={o_sm:?}\n <{}>={o:?}",
                    $n,
                    $n
                );
            }};
        }
        sm_variant!(0, Histogram::default());
        sm_variant!(1, Histogram::new(SortAndMerge::new()));
        sm_variant!(64, Histogram::default());
        sm_variant!(2, Histogram::new(SortAndMerge::<2>::new()));
        // a closed sort-and-merge histogram merged into one that already holds values
        if case.inputs.len() >= 2 {
            let mid = case.inputs.len() / 2;
            let mut left: Histogram<OneObs, SortAndMerge> = Histogram::default();
            let mut right: Histogram<OneObs, SortAndMerge> = Histogram::default();
            let mut m = vec![];
            for i in &case.inputs[..mid] {
                add_to(&mut left, &mut m, i);
            }
            for i in &case.inputs[mid..] {
                add_to(&mut right, &mut m, i);
            }
            let closed_right = no_panic("histogram-close", || right.close())?;
            <Histogram<OneObs, SortAndMerge> as AggregateValue<_>>::insert(&mut left, closed_right);
            let o_fold = closed_obs(&no_panic("histogram-close", || left.close())?)?;
            let n_fold: u128 = o_fold.iter().map(|o| o.1 as u128).sum();
            let n_all: u128 = o_sm.iter().map(|o| o.1 as u128).sum();
            vensure!(
                n_fold == n_all,
                "histogram:reaggregation-changes-counts",
                "a closed sort-and-merge histogram of the second half merged into the histogram of the first half holds {n_fold} observations, all inputs are {n_all}"
            );
            vensure!(
                o_fold.windows(2).all(|w| w[0].1 == 0 || w[1].1 == 0 || w[0].0 / w[0].1 as f64 <= (w[1].0 / w[1].1 as f64) * (1.0 + 1e-12)),
                "histogram:sort-and-merge",
                "folded sort-and-merge histogram is not ascending: {o_fold:?}"
            );
        }
        let mut again: Histogram<OneObs, SortAndMerge> = Histogram::default();
        <Histogram<OneObs, SortAndMerge> as AggregateValue<_>>::insert(&mut again, c_sm);
        let o_again = closed_obs(&again.close())?;
        // A closed histogram carries (total, occurrences) pairs; what a consumer reads as the
        // reported value is total / occurrences, and re-aggregation starts from that quotient.
        // v * n / n need not be v in binary floating point, so two buckets a few ulps apart may
        // legitimately coincide after one more round (found by the thorough tier: 7 x
        // 0.30000000000000004 and 1 x 0.3000000000000001). The comparison is therefore made where
        // the property speaks: rank by rank over the reported values, counts exactly, values
        // within 4 ulps.
        let n_first: u128 = o_sm.iter().map(|o| o.1 as u128).sum();
        let n_again: u128 = o_again.iter().map(|o| o.1 as u128).sum();
        let same = n_first == n_again && {
            let means = |o: &[(f64, u64)]| -> Vec<(f64, u64)> {
                let mut v: Vec<(f64, u64)> =
                    o.iter().filter(|x| x.1 > 0).map(|x| (x.0 / x.1 as f64, x.1)).collect();
                v.sort_by(|a, b| a.0.partial_cmp(&b.0).unwrap());
                v
            };
            let (a, b) = (means(&o_sm), means(&o_again));
            let (mut i, mut j) = (0usize, 0usize);
            let (mut ra, mut rb) = (a.first().map_or(0, |x| x.1), b.first().map_or(0, |x| x.1));
            let mut ok = true;
            while i < a.len() && j < b.len() {
                let (x, y) = (a[i].0, b[j].0);
                if (x - y).abs() > 4.0 * f64::EPSILON * x.abs().max(y.abs()) {
                    ok = false;
                    break;
                }
                let step = ra.min(rb);
                ra -= step;
                rb -= step;
                if ra == 0 {
                    i += 1;
                    ra = a.get(i).map_or(0, |x| x.1);
                }
                if rb == 0 {
                    j += 1;
                    rb = b.get(j).map_or(0, |x| x.1);
                }
            }
            ok && i == a.len() && j == b.len()
        };
        if o_again.len() != o_sm.len() {
            classes.push("reaggregation-merged-buckets-within-rounding");
        }
        vensure!(
            same,
            "histogram:reaggregation-changes-output",
            "re-aggregating a closed sort-and-merge histogram changed counts or reported values (total/occurrences, rank by rank, 4 ulps):\n first ={o_sm:?}\n second={o_again:?}"
        );
        classes.push("sort-and-merge-checked");
    }
    let bounds = bucket_bounds();
    let on_boundary = meant.iter().any(|(v, _)| {
        let s = v * 1024.0;
        s.fract() == 0.0 && s >= 32.0 && bounds.iter().any(|(lo, hi)| *lo as f64 == s || *hi as f64 == s)
    });
    if on_boundary {
        classes.push("bucket-boundary");
    }
    if meant.iter().any(|m| m.1 > 1) {
        classes.push("repeated-observation");
    }
    {
        let mut vs: Vec<f64> = meant.iter().map(|m| m.0).collect();
        vs.sort_by(|a, b| a.partial_cmp(b).unwrap());
        if vs.windows(2).any(|w| w[0] != w[1] && (w[1] - w[0]).abs() < 1e-12 * w[1].abs().max(1e-300)) {
            classes.push("distinct-values-few-ulps-apart");
        }
    }
    if case.inputs.iter().any(|i| matches!(i, Input::Rep { occ: 0, .. })) {
        classes.push("zero-occurrences");
    }
    if on_boundary || meant.iter().any(|m| m.1 > 1) {
        classes.push("nt");
    }
    Ok(classes)
}

// typed sources: u64 / f64 / Duration with unit conversion
#[derive(Clone, Debug, Serialize, Deserialize)]
pub struct TypedCase {
    pub u: Vec<u64>,
    pub f: Vec<F>,
    pub d: Vec<u64>,
}

pub fn check_typed(case: &TypedCase) -> CaseResult {
    let mut hu: Histogram<u64> = Histogram::default();
    for u in &case.u {
        hu.add_value(*u);
    }
    let mu: Vec<(f64, u64)> = case.u.iter().map(|u| (*u as f64, 1)).collect();
    check_exponential(&mu, &closed_obs(&hu.close())?, "Histogram<u64>")?;
    // the other integer / float source types and the atomic histogram over typed sources
    {
        let sh_u: SharedHistogram<u64> = SharedHistogram::default();
        let mut h32: Histogram<u32> = Histogram::default();
        let mut husz: Histogram<usize> = Histogram::default();
        let mut h16: Histogram<u16, SortAndMerge<4>> = Histogram::default();
        let (mut m32, mut musz, mut m16) = (vec![], vec![], vec![]);
        for u in &case.u {
            sh_u.add_value(*u);
            let v32 = (*u % (1u64 << 32)) as u32;
            h32.add_value(v32);
            m32.push((v32 as f64, 1u64));
            husz.add_value(*u as usize);
            musz.push((*u as usize as f64, 1u64));
            let v16 = (*u % 65_536) as u16;
            h16.add_value(&v16);
            m16.push(v16 as f64);
        }
        check_exponential(&mu, &closed_obs(&sh_u.close())?, "SharedHistogram<u64>")?;
        check_exponential(&m32, &closed_obs(&h32.close())?, "Histogram<u32>")?;
        check_exponential(&musz, &closed_obs(&husz.close())?, "Histogram<usize>")?;
        let o16 = closed_obs(&h16.close())?;
        m16.sort_by(|a, b| a.partial_cmp(b).unwrap());
        let mut e16: Vec<(f64, u64)> = vec![];
        for v in m16 {
            match e16.last_mut() {
                Some(l) if l.0 == v => l.1 += 1,
                _ => e16.push((v, 1)),
            }
        }
        vensure!(
            o16.len() == e16.len() && o16.iter().zip(&e16).all(|(g, e)| g.1 == e.1 && g.0 == e.0 * e.1 as f64),
            "histogram:sort-and-merge",
            "Histogram<u16, SortAndMerge<4>> (values added by reference): got {o16:?}, expected (value,count) {e16:?}"
        );
        let mut hf32: Histogram<f32> = Histogram::default();
        let sh_f: SharedHistogram<f64> = SharedHistogram::default();
        let (mut mf32, mut mf) = (vec![], vec![]);
        for f in &case.f {
            if f.0.is_finite() && f.0 >= 0.0 && f.0 < (1u64 << 40) as f64 {
                let v = f.0 as f32;
                hf32.add_value(v);
                mf32.push((v as f64, 1u64));
                sh_f.add_value(f.0);
                mf.push((f.0, 1u64));
            }
        }
        check_exponential(&mf32, &closed_obs(&hf32.close())?, "Histogram<f32>")?;
        check_exponential(&mf, &closed_obs(&sh_f.close())?, "SharedHistogram<f64>")?;
        let sh_d: SharedHistogram<Duration> = SharedHistogram::default();
        let mut msd = vec![];
        for n in &case.d {
            let d = Duration::from_nanos(*n);
            sh_d.add_value(d);
            msd.push((d.as_secs_f64() * 1000.0, 1u64));
        }
        check_exponential(&msd, &closed_obs(&sh_d.close())?, "SharedHistogram<Duration>")?;
    }
    let mut hf: Histogram<f64, SortAndMerge> = Histogram::default();
    for f in &case.f {
        hf.add_value(f.0);
    }
    let of = closed_obs(&hf.close())?;
    let n: u64 = of.iter().map(|o| o.1).sum();
    vensure!(
        n as usize == case.f.len(),
        "histogram:count-not-conserved",
        "Histogram<f64, SortAndMerge>: {} inputs, {} reported",
        case.f.len(),
        n
    );
    // Duration default (ms), and declared micro / second conversions
    let mut hd: Histogram<Duration> = Histogram::default();
    let mut hmicro: Histogram<WithUnit<Duration, unit::Microsecond>> = Histogram::default();
    let mut hsec: Histogram<WithUnit<Duration, unit::Second>, SortAndMerge> = Histogram::default();
    let (mut md, mut mmicro) = (vec![], vec![]);
    for n in &case.d {
        let d = Duration::from_nanos(*n);
        hd.add_value(d);
        hmicro.add_value(WithUnit::from(d));
        hsec.add_value(WithUnit::from(d));
        let ms = d.as_secs_f64() * 1000.0;
        md.push((ms, 1));
        mmicro.push((ms * 1000.0, 1));
    }
    check_exponential(&md, &closed_obs(&hd.close())?, "Histogram<Duration>")?;
    check_exponential(&mmicro, &closed_obs(&hmicro.close())?, "Histogram<Duration as Microsecond>")?;
    let osec = closed_obs(&hsec.close())?;
    let mut exp_sec: Vec<f64> = case
        .d
        .iter()
        .map(|n| Duration::from_nanos(*n).as_secs_f64() * 1000.0 * (1.0 / 1000.0))
        .collect();
    exp_sec.sort_by(|a, b| a.partial_cmp(b).unwrap());
    exp_sec.dedup();
    vensure!(
        osec.len() == exp_sec.len()
            && osec.iter().zip(&exp_sec).all(|(o, e)| ((o.0 / o.1 as f64) - e).abs() <= e.abs() * 1e-15 + 1e-300),
        "histogram:duration-unit-conversion",
        "Histogram<Duration as Second, SortAndMerge>: got {osec:?}, expected distinct seconds {exp_sec:?}"
    );
    let mut classes: Classes = vec![];
    if case.d.len() >= 2 && case.u.len() >= 2 {
        classes.push("nt");
    }
    Ok(classes)
}

fn exhaustive_boundaries(ctx: &mut Ctx) {
    let mut t = Tally::new(
        "c11-every-bucket-boundary",
        "EVERY bucket of the 976-bucket layout below 2^43 x {lower, lower-1, upper, upper+1, midpoint, lower+0.5, upper+0.999} (scaled by 1/1024) recorded once and once as a repeated observation (3 occurrences), through the exponential, atomic and sort-and-merge strategies; same oracle as c11-histogram. Non-trivial = every case",
    );
    let bounds = bucket_bounds();
    let mut failure = None;
    'o: for (lo, hi) in bounds.iter().filter(|(lo, _)| *lo < (1u64 << 53)) {
        for which in 0..7u8 {
            let s: f64 = match which {
                0 => *lo as f64,
                1 => lo.saturating_sub(1) as f64,
                2 => *hi as f64,
                3 => (hi.saturating_add(1)).min((1u64 << 53) - 1) as f64,
                4 => lo.midpoint(*hi) as f64,
                5 => *lo as f64 + 0.5,
                _ => (*hi as f64 + 0.999).min(((1u64 << 53) - 1) as f64),
            };
            let v = s / 1024.0;
            let case = Case {
                inputs: vec![
                    Input::Fl(F(v)),
                    Input::Rep {
                        total: F(v * 3.0),
                        occ: 3,
                    },
                ],
                threads: 0,
            };
            match check(&case) {
                Ok(c) => {
                    let mut c = c;
                    c.push("nt");
                    t.record(hash_dbg(&case), &c, || serde_json::to_value(&case).unwrap());
                }
                Err(f) => {
                    failure = Some((case, f));
                    break 'o;
                }
            }
        }
    }
    t.exhaustive = true;
    ctx.push_custom(t.finish(&[]));
    if let Some((case, f)) = failure {
        ctx.report_violation("c11-histogram", f, serde_json::to_value(&case).unwrap(), format!("{case:?}"));
    }
}

pub fn run(ctx: &mut Ctx) {
    ctx.assume("domain: finite, non-negative values below 2^43 (the scaled value v*1024 is then an exact double below 2^53)");
    ctx.assume("a repeated observation {total, occurrences} means `occurrences` observations of total/occurrences (zero occurrences = nothing recorded)");
    ctx.assume("reported value of a closed bucket = total / occurrences; error bound 1/16 relative (1/1024 absolute below 1/32) as the property states");
    let q = ctx.tier == Tier::Quick;
    if ctx.replay.is_none() {
        exhaustive_boundaries(ctx);
    }
    ctx.explore(
        SubCfg::new(
            "c11-histogram",
            "multisets of 0-300 inputs (thorough: 0-2000): values on/next to bucket boundaries of the 976-bucket layout, the sub-1/32 linear region, 0, integers, log-uniform floats below 2^43; sources unsigned / floating / Duration (ms, and converted to micro/seconds) / repeated {total, occurrences 0..2^40}; recorded into ExponentialAggregationStrategy, AtomicExponentialAggregationStrategy (1-8 threads calling add_value concurrently on a SharedHistogram) and SortAndMerge. Oracle: count conservation; run-length pairing of sorted inputs with the ascending closed buckets, each within 1/16 relative (1/1024 absolute below 1/32); atomic == non-atomic bit for bit; sort-and-merge reports exactly the distinct values ascending with counts; re-aggregating a closed histogram into a fresh one of the same strategy reproduces it bit for bit. Non-trivial = a value exactly on a bucket boundary or a repeated observation with occurrences > 1",
            if q { 6_000 } else { 300_000 },
        )
        .threads(ctx.tier.pick(4, 8))
        .mandatory(&["bucket-boundary", "repeated-observation", "concurrent-recording", "sort-and-merge-checked", "zero-occurrences", "distinct-values-few-ulps-apart", "multi-observation-source", "folded-two-closed-histograms"]),
        move || {
            let max = if q { 300 } else { 2000 };
            (
                prop_oneof![
                    3 => prop::collection::vec(arb_input(1u64 << 40), 0..40),
                    2 => prop::collection::vec(arb_input(1u64 << 40), 0..max),
                    3 => prop::collection::vec(arb_input(60), 0..40),
                ],
                any::<u8>(),
            )
                .prop_map(|(inputs, threads)| Case { inputs, threads })
        },
        check,
    );
    ctx.explore(
        SubCfg::new(
            "c11-typed-sources",
            "Histogram<u64>, Histogram<f64, SortAndMerge>, Histogram<Duration> (milliseconds), Histogram<Duration as Microsecond>, Histogram<Duration as Second, SortAndMerge>: typed sources incl. unit conversion keep counts and stay within the error bound. Non-trivial = >=2 durations and >=2 integers",
            if q { 5_000 } else { 100_000 },
        )
        .threads(ctx.tier.pick(4, 8)),
        || {
            (
                prop::collection::vec(prop_oneof![0u64..64, 0u64..1_000_000, 0u64..(1 << 43)], 0..50),
                prop::collection::vec(arb_scaled_value().prop_map(F), 0..30),
                prop::collection::vec(prop_oneof![0u64..2_000_000, 0u64..10_000_000_000, 0u64..(1 << 50)], 0..30),
            )
                .prop_map(|(u, f, d)| TypedCase { u, f, d })
        },
        check_typed,
    );
}

#[allow(dead_code)]
fn _unused() {
    let _ = vfail_marker();
}
fn vfail_marker() -> Result<(), Fail> {
    if false {
        vfail!("x", "y");
    }
    Ok(())
}
