//! C08 — EMF validation rejects exactly the malformed entries, never alters valid output.
//! Run under both build profiles (dev: debug assertions on; verif-rel: off).

use crate::emfgen::*;
use crate::emfh::*;
use crate::engine::*;
use crate::model::*;
use crate::{vensure, vfail};
use proptest::prelude::*;
use serde::{Deserialize, Serialize};

/// every documented way of enabling validations that is available in this build profile
pub fn validating_ctors() -> Vec<Ctor> {
    if cfg!(debug_assertions) {
        vec![Ctor::AllValidations, Ctor::Builder, Ctor::BuilderSkipFalse]
    } else {
        vec![Ctor::AllValidations]
    }
}

fn arb_validating_ctor() -> impl Strategy<Value = Ctor> {
    prop::sample::select(validating_ctors())
}

#[derive(Clone, Debug, Serialize, Deserialize)]
pub struct ValidCase {
    pub cfg: EmfCfg,
    pub entry: GenEntry,
    pub rate_exp: Option<u8>,
    /// entries formatted on the same formatters (validated and unvalidated twin) before the entry
    /// under test: valid ones and ones with an injected defect
    #[serde(default)]
    pub warmup: Vec<GenEntry>,
}

#[derive(Clone, Debug, Serialize, Deserialize)]
pub struct DefectCase {
    pub cfg: EmfCfg,
    pub entry: GenEntry,
    pub rate_exp: Option<u8>,
    pub defects: Vec<(Defect, u32, u32)>,
    /// format the valid base entry on the same formatter first (same dimension sets, same names)
    #[serde(default)]
    pub warm: bool,
}

#[derive(Clone, Debug, Serialize, Deserialize)]
pub struct AnyCase {
    pub cfg: EmfCfg,
    pub entry: GenEntry,
    pub sampling: Sampling,
}

fn run_fmt(cfg: &EmfCfg, entry: &GenEntry, s: &Sampling) -> Result<(Decision, Vec<u8>), Fail> {
    run_fmt_warm(cfg, &[], entry, s)
}

/// the same after the formatter has already formatted `warmup` (outputs ignored)
fn run_fmt_warm(cfg: &EmfCfg, warmup: &[&GenEntry], entry: &GenEntry, s: &Sampling) -> Result<(Decision, Vec<u8>), Fail> {
    let mut out = vec![];
    let mut emf = no_panic("emf-build", || cfg.build())?;
    for w in warmup {
        let mut sink = vec![];
        let _ = no_panic("emf-format-warmup", || format_once(&mut emf, w, &Sampling::None, &mut sink))?;
    }
    let dec = no_panic("emf-format", || format_once(&mut emf, entry, s, &mut out))?;
    Ok((dec, out))
}

/// soundness (a): an accepted output has no duplicated member in any record
fn no_duplicate_members(out: &[u8], entry: &GenEntry) -> Result<usize, Fail> {
    let lines = match crate::json::split_lines(out) {
        Ok(l) => l,
        Err(e) => vfail!("invalid-json:framing", "accepted output not framed: {e}"),
    };
    for l in &lines {
        let j = match crate::json::parse(l) {
            Ok(j) => j,
            Err(e) => vfail!(super::c02::invalid_sig(entry), "accepted output not JSON: {e}"),
        };
        if let Some(d) = j.duplicate_member_deep() {
            vfail!(
                dup_sig(entry, &d),
                "validation accepted the entry but a record has member {d:?} twice: {}",
                String::from_utf8_lossy(l)
            );
        }
    }
    Ok(lines.len())
}

/// root-cause signature of a duplicate member, from the input
fn dup_sig(entry: &GenEntry, member: &str) -> String {
    let mut is_dim_key = false;
    let mut as_value = 0;
    for o in &entry.ops {
        if let Op::Value { name, val } = o {
            if name == member && !matches!(val, Val::Nothing) {
                as_value += 1;
            }
            if let Val::Metric { dims, .. } = val {
                if dims.iter().any(|(k, _)| k == member) {
                    is_dim_key = true;
                }
            }
        }
    }
    if is_dim_key {
        "dup-member:per-metric-dimension-key-collides".to_string()
    } else if as_value >= 2 {
        "dup-member:two-values-one-name".to_string()
    } else {
        "dup-member:other".to_string()
    }
}

fn sampling(rate_exp: Option<u8>) -> Sampling {
    super::c03::sampling_of(rate_exp, &[]).0
}

/// (c) acceptance + transparency for entries inside the documented domain
pub fn check_valid(case: &ValidCase) -> CaseResult {
    let s = sampling(case.rate_exp);
    let warm: Vec<&GenEntry> = case.warmup.iter().collect();
    let (dec, out) = run_fmt_warm(&case.cfg, &warm, &case.entry, &s)?;
    vensure!(
        dec == Decision::Ok,
        if warm.is_empty() { "valid-entry-rejected" } else { "valid-entry-rejected-on-warm-formatter" },
        "entry inside the documented domain was rejected by a validating formatter: {dec:?}"
    );
    let nrec = no_duplicate_members(&out, &case.entry)?;
    let twin = case.cfg.unvalidated_twin();
    let (dec2, out2) = run_fmt_warm(&twin, &warm, &case.entry, &s)?;
    vensure!(
        dec2 == Decision::Ok,
        "valid-entry-rejected-unvalidated",
        "unvalidated formatter rejected a valid entry: {dec2:?}"
    );
    vensure!(
        lines_multiset(&out) == lines_multiset(&out2),
        "validation-not-transparent",
        "validated output differs from unvalidated output\nvalidated  ={:?}\nunvalidated={:?}",
        String::from_utf8_lossy(&out),
        String::from_utf8_lossy(&out2)
    );
    let mut classes: Classes = vec!["accepted"];
    if !warm.is_empty() {
        classes.push("warm-formatter");
    }
    classes.push(ctor_class(case.cfg.ctor));
    if nrec >= 2 {
        classes.push("multi-record");
        classes.push("nt");
    }
    if case.rate_exp.is_some() {
        classes.push("sampled");
    }
    if case.cfg.allow_ignored {
        classes.push("ignored-dimension-mode");
    }
    Ok(classes)
}

fn ctor_class(c: Ctor) -> &'static str {
    match c {
        Ctor::AllValidations => "ctor-all_validations",
        Ctor::Builder => "ctor-builder",
        Ctor::BuilderSkipFalse => "ctor-builder-skip-false",
        Ctor::NoValidations => "ctor-no_validations",
        Ctor::BuilderSkipTrue => "ctor-builder-skip-true",
    }
}

/// (b) rejection of every injected defect, with no output
pub fn check_defect(case: &DefectCase) -> CaseResult {
    let s = sampling(case.rate_exp);
    let mut entry = case.entry.clone();
    let mut applied: Vec<Defect> = vec![];
    for (d, seed, pos) in &case.defects {
        if let Some(e2) = inject(&case.cfg, &entry, *d, *seed, *pos) {
            entry = e2;
            applied.push(*d);
        }
    }
    if applied.is_empty() {
        return Ok(vec!["no-defect-applicable"]);
    }
    let warmup: Vec<&GenEntry> = if case.warm { vec![&case.entry] } else { vec![] };
    let (dec, out) = run_fmt_warm(&case.cfg, &warmup, &entry, &s)?;
    match &dec {
        Decision::Validation(_) => {}
        other => vfail!(
            format!("defect-accepted{}:{}", if case.warm { "-on-warm-formatter" } else { "" }, applied[0].name()),
            "entry with injected defect(s) {applied:?} was not rejected by a validating formatter ({}): {other:?}\nentry={entry:?}\noutput={:?}",
            ctor_class(case.cfg.ctor),
            String::from_utf8_lossy(&out)
        ),
    }
    vensure!(
        out.is_empty(),
        "validation-error-wrote-bytes",
        "rejected entry wrote {} bytes",
        out.len()
    );
    // (observation only) some defects are structural and rejected without validations too; the
    // property speaks of formatters with validations ENABLED, so this is counted, not demanded
    let mut structural_also_rejected = false;
    if applied.iter().any(|d| d.unconditional()) {
        let (dec2, _out2) = run_fmt(&case.cfg.unvalidated_twin(), &entry, &s)?;
        structural_also_rejected = matches!(dec2, Decision::Validation(_));
    }
    let mut classes: Classes = vec!["rejected"];
    if structural_also_rejected {
        classes.push("structural-defect-rejected-without-validations-too");
    }
    if case.warm {
        classes.push("warm-formatter");
    }
    classes.push(ctor_class(case.cfg.ctor));
    for d in &applied {
        classes.push(d.name());
    }
    if applied.len() >= 2 {
        classes.push("combined-defects");
    }
    let has_split = entry.ops.iter().any(|o| {
        matches!(o, Op::Value { val: Val::Metric { dims, .. }, .. } if !dims.is_empty())
    });
    let has_edims = entry
        .ops
        .iter()
        .any(|o| matches!(o, Op::Config(CfgG::EntryDims(_))));
    if has_split || has_edims {
        classes.push("nt");
    }
    Ok(classes)
}

/// (a)+(d) for arbitrary entries
pub fn check_any(case: &AnyCase) -> CaseResult {
    let (dec, out) = run_fmt(&case.cfg, &case.entry, &case.sampling)?;
    let mut classes: Classes = vec![ctor_class(case.cfg.ctor)];
    if case.entry.ops.iter().any(|o| matches!(o, Op::ErrorReport(_))) {
        classes.push("pure-error-report-entry");
    }
    match dec {
        Decision::Ok => {
            classes.push("accepted");
            let nrec = no_duplicate_members(&out, &case.entry)?;
            // transparency (d): compared with the timestamp masked only when the entry has none
            let has_ts = case
                .entry
                .ops
                .iter()
                .any(|o| matches!(o, Op::Timestamp { .. }));
            if has_ts {
                let (dec2, out2) =
                    run_fmt(&case.cfg.unvalidated_twin(), &case.entry, &case.sampling)?;
                vensure!(
                    dec2 == Decision::Ok && lines_multiset(&out) == lines_multiset(&out2),
                    "validation-not-transparent",
                    "validated output differs from unvalidated output ({dec2:?})\nvalidated  ={:?}\nunvalidated={:?}",
                    String::from_utf8_lossy(&out),
                    String::from_utf8_lossy(&out2)
                );
                classes.push("transparency-compared");
            }
            if nrec >= 2 {
                classes.push("nt");
            }
        }
        Decision::Validation(_) => {
            classes.push("rejected");
            vensure!(
                out.is_empty(),
                "validation-error-wrote-bytes",
                "rejected entry wrote {} bytes",
                out.len()
            );
        }
        Decision::Io(e) => vfail!("io-on-vec", "{e}"),
    }
    Ok(classes)
}

/// Hand-built near-misses of the duplicate rule around per-metric dimension keys (the region the
/// valid generator excludes by construction): only soundness (a) is asserted.
#[derive(Clone, Debug, Serialize, Deserialize)]
pub struct DimKeyCase {
    pub ctor: Ctor,
    pub key_kind: u8,
    pub order: u8,
    pub cfg_dim: bool,
    pub second_record: bool,
    pub value: String,
    /// first format a VALID entry that uses the same dimension set on the same formatter
    #[serde(default)]
    pub warm: bool,
}

pub fn check_dim_key(case: &DimKeyCase) -> CaseResult {
    let mut cfg = EmfCfg::simple(case.ctor);
    if case.cfg_dim {
        cfg.dims = vec![vec!["D".into()]];
    }
    let kk = case.key_kind % 6;
    let key = match kk {
        0 => "S",    // equals a string property
        1 => "M",    // equals a metric of the same record
        2 => "D",    // equals the configured dimension
        3 => "K2",   // repeated key in one set
        4 => "",     // empty name
        _ => "_aws", // reserved name
    };
    let dims = if kk == 3 {
        vec![("K2".to_string(), "a".to_string()), ("K2".to_string(), case.value.clone())]
    } else {
        vec![(key.to_string(), case.value.clone())]
    };
    let m = |name: &str, dims: Vec<(String, String)>| Op::Value {
        name: name.to_string(),
        val: Val::Metric {
            obs: vec![Obs::U(1)],
            unit: UnitG(0),
            dims,
            flags: FlagG::None,
        },
    };
    let s = |name: &str| Op::Value {
        name: name.to_string(),
        val: Val::Str("sv".into()),
    };
    let mut body = vec![s("S"), m("M", dims.clone())];
    if case.cfg_dim {
        body.push(s("D"));
    }
    if case.second_record {
        body.push(m("M", vec![("Other".to_string(), "o".to_string())]));
        body.push(m("X", dims.clone()));
    }
    let r = (case.order as usize) % body.len();
    body.rotate_left(r);
    let mut ops = vec![
        Op::Config(CfgG::AllowSplit),
        Op::Timestamp {
            secs: 1,
            nanos: 0,
            before_epoch: false,
        },
    ];
    ops.extend(body);
    let entry = GenEntry {
        ops,
        sample_group: vec![],
    };
    // a valid entry with the same dimension set (no colliding string / metric / repeated key)
    let warm_entry = GenEntry {
        ops: vec![
            Op::Config(CfgG::AllowSplit),
            Op::Timestamp {
                secs: 1,
                nanos: 0,
                before_epoch: false,
            },
            m("W", if kk == 3 { vec![("K2".to_string(), case.value.clone())] } else { dims.clone() }),
        ],
        sample_group: vec![],
    };
    let usable_warm = case.warm && !(case.cfg_dim) && kk < 3;
    let warmup: Vec<&GenEntry> = if usable_warm { vec![&warm_entry] } else { vec![] };
    let (dec, out) = run_fmt_warm(&cfg, &warmup, &entry, &Sampling::None)?;
    let mut classes: Classes = vec![match kk {
        0 => "key=string-name",
        1 => "key=metric-name",
        2 => "key=configured-dimension",
        3 => "key=repeated",
        4 => "key=empty-name",
        _ => "key=reserved-name",
    }];
    if kk >= 4 {
        // "an empty or reserved name": a per-metric dimension key becomes a member name of the
        // record, so a validating formatter has to refuse it
        vensure!(
            matches!(dec, Decision::Validation(_)),
            format!("defect-accepted:dimension-key-{}", if kk == 4 { "empty" } else { "reserved" }),
            "per-metric dimension key {key:?} was accepted by a validating formatter ({}): {dec:?}",
            ctor_class(case.ctor)
        );
    }
    match dec {
        Decision::Ok => {
            no_duplicate_members(&out, &entry)?;
            classes.push("accepted");
        }
        Decision::Validation(_) => {
            vensure!(out.is_empty(), "validation-error-wrote-bytes", "wrote bytes");
            classes.push("rejected");
        }
        Decision::Io(e) => vfail!("io-on-vec", "{e}"),
    }
    if usable_warm {
        classes.push("warm-formatter");
    }
    classes.push("nt");
    Ok(classes)
}

/// Wide split entries: up to 120 distinct per-metric dimension sets (= records) in one entry, a
/// duplicate injected into any one of them.
#[derive(Clone, Debug, Serialize, Deserialize)]
pub struct WideCase {
    pub ctor: Ctor,
    pub n: u8,
    /// (record index, kind): kind 0 = the record's metric written twice, 1 = a string property with
    /// the name of that record's metric
    pub dup: Option<(u8, u8)>,
    /// distinct dimension KEYS per record (else one key with distinct values)
    pub distinct_keys: bool,
    pub second_namespace: bool,
}

pub fn check_wide(case: &WideCase) -> CaseResult {
    let n = case.n.max(2) as usize;
    let mut cfg = EmfCfg::simple(case.ctor);
    if case.second_namespace {
        cfg.extra_namespaces = vec!["NS2".into()];
    }
    let cfg = cfg.normalize();
    let dims_of = |r: usize| -> Vec<(String, String)> {
        if case.distinct_keys {
            vec![(format!("K{r}"), "v".to_string())]
        } else {
            vec![("K".to_string(), format!("v{r}"))]
        }
    };
    let metric = |name: String, dims: Vec<(String, String)>| Op::Value {
        name,
        val: Val::Metric {
            obs: vec![Obs::U(1)],
            unit: UnitG(0),
            dims,
            flags: FlagG::None,
        },
    };
    let mut ops = vec![
        Op::Config(CfgG::AllowSplit),
        Op::Timestamp {
            secs: 1,
            nanos: 0,
            before_epoch: false,
        },
    ];
    for r in 0..n {
        ops.push(metric(format!("m{r}"), dims_of(r)));
    }
    let mut classes: Classes = vec![];
    if let Some((rec, kind)) = case.dup {
        let r = rec as usize % n;
        match kind % 2 {
            0 => ops.push(metric(format!("m{r}"), dims_of(r))),
            _ => ops.push(Op::Value {
                name: format!("m{r}"),
                val: Val::Str("s".into()),
            }),
        }
        if r >= 64 {
            classes.push("duplicate-in-record-64-or-later");
        } else if r >= 32 {
            classes.push("duplicate-in-record-32-to-63");
        }
    }
    let entry = GenEntry {
        ops,
        sample_group: vec![],
    };
    let (dec, out) = run_fmt(&cfg, &entry, &Sampling::None)?;
    match case.dup {
        Some((rec, kind)) => {
            vensure!(
                matches!(dec, Decision::Validation(_)),
                format!("defect-accepted:{}", if kind % 2 == 0 { "dup-metric" } else { "dup-metric-then-string" }),
                "split entry with {n} dimension sets and a duplicate in record {}: not rejected by a validating formatter ({}): {dec:?}",
                rec as usize % n,
                ctor_class(case.ctor)
            );
            vensure!(out.is_empty(), "validation-error-wrote-bytes", "rejected entry wrote {} bytes", out.len());
            classes.push("rejected");
        }
        None => {
            vensure!(dec == Decision::Ok, "valid-entry-rejected", "valid split entry with {n} dimension sets rejected: {dec:?}");
            let nrec = no_duplicate_members(&out, &entry)?;
            vensure!(nrec == n, "emf-content:record-count", "{n} dimension sets, {nrec} records");
            let (dec2, out2) = run_fmt(&cfg.unvalidated_twin(), &entry, &Sampling::None)?;
            vensure!(
                dec2 == Decision::Ok && lines_multiset(&out) == lines_multiset(&out2),
                "validation-not-transparent",
                "wide split entry: validated output differs from unvalidated output ({dec2:?})"
            );
            classes.push("accepted");
        }
    }
    if n > 64 {
        classes.push("more-than-64-records");
    }
    classes.push("nt");
    Ok(classes)
}

pub fn run(ctx: &mut Ctx) {
    ctx.assume("'documented ways of enabling validations': Emf::all_validations in every profile; Emf::builder() and builder().skip_all_validations(false) only with debug assertions (the builder documents that it disables validations without them)");
    ctx.assume("line order of split records is unspecified: transparency is compared on the multiset of lines");
    ctx.assume("constellations the documents leave open (split config after a dimensioned metric, unroutable config on ordinary entries) are only checked for soundness (no duplicate member) and transparency");
    let q = ctx.tier == Tier::Quick;
    let threads = ctx.tier.pick(8, 16);

    ctx.explore(
        SubCfg::new(
            "c08-valid-accepted-transparent",
            "valid-by-construction entries x validating constructor of this profile x sampling, on fresh formatters or (half of the cases) after 1-2 other entries - valid or defective - on the same validated and unvalidated formatters: must be accepted, no record has a duplicated member, and the lines equal (multiset of byte strings) those of the unvalidated twin configuration. Non-trivial = >=2 records",
            if q { 30_000 } else { 1_000_000 },
        )
        .threads(threads)
        .mandatory(&["multi-record", "sampled", "ctor-all_validations", "warm-formatter"]),
        || {
            (
                crate::emfgen::arb_valid_seq(1..4, true),
                arb_validating_ctor(),
                super::c03::arb_rate_exp(),
                prop::bool::weighted(0.5),
                prop::collection::vec(prop::option::weighted(0.4, (crate::emfgen::arb_defect(), any::<u32>(), any::<u32>())), 3),
            )
                .prop_map(|((cfg, mut entries), ctor, rate_exp, warm, defects)| {
                    // re-normalise for the chosen constructor; the entry stays valid because
                    // normalisation only removes builder-only options -- except ignored-dimension
                    // mode, whose removal would make same-named metrics legal again (still valid)
                    let was_ignored = cfg.allow_ignored;
                    let cfg2 = cfg.with_ctor(ctor).normalize();
                    let mut entry = entries.pop().unwrap();
                    if was_ignored && !cfg2.allow_ignored {
                        // dimensioned metrics now need the split config
                        entry.ops.insert(0, Op::Config(CfgG::AllowSplit));
                    }
                    // warm-up entries: valid or with an injected defect (accepted or rejected, it
                    // does not matter - the entry under test must come out the same)
                    for (e, d) in entries.iter_mut().zip(defects) {
                        if let Some((d, sd, p)) = d {
                            if let Some(e2) = inject(&cfg2, e, d, sd, p) {
                                *e = e2;
                            }
                        }
                    }
                    ValidCase {
                        cfg: cfg2,
                        entry,
                        rate_exp,
                        warmup: if warm { entries } else { vec![] },
                    }
                })
        },
        check_valid,
    );

    ctx.explore(
        SubCfg::new(
            "c08-defect-rejected",
            "valid entry + 1-3 injected defects from the property's list (duplicate string/string, metric/metric incl. empty and all-NaN duplicates, string/metric both orders, second timestamp, empty name, _aws, metric under a configured or entry-level dimension name, declared dimension never written, per-metric dimensions without split mode, empty/repeated/late EntryDimensions) at a generated position x validating constructor: must return Validation and write nothing; structural defects also without validations. Non-trivial = defect injected into an entry that also has a split record or entry dimensions",
            if q { 40_000 } else { 1_000_000 },
        )
        .threads(threads)
        .mandatory(&[
            "dup-string-string",
            "dup-metric-metric",
            "dup-metric-empty",
            "dup-metric-allnan",
            "dup-string-then-metric",
            "dup-metric-then-string",
            "second-timestamp",
            "empty-name",
            "aws-name",
            "metric-under-dimension-name",
            "missing-dimension",
            "dims-without-split",
            "empty-entry-dims",
            "repeated-entry-dims",
            "late-entry-dims",
            "combined-defects",
            "warm-formatter",
        ]),
        || {
            (
                arb_valid(true),
                arb_validating_ctor(),
                super::c03::arb_rate_exp(),
                prop::collection::vec((arb_defect(), any::<u32>(), any::<u32>()), 1..4),
                any::<bool>(),
            )
                .prop_map(|((cfg, entry), ctor, rate_exp, defects, warm)| {
                    let was_ignored = cfg.allow_ignored;
                    let cfg2 = cfg.with_ctor(ctor).normalize();
                    let mut entry = entry;
                    if was_ignored && !cfg2.allow_ignored {
                        entry.ops.insert(0, Op::Config(CfgG::AllowSplit));
                    }
                    DefectCase {
                        cfg: cfg2,
                        entry,
                        rate_exp,
                        defects,
                        warm,
                    }
                })
        },
        check_defect,
    );

    ctx.explore(
        SubCfg::new(
            "c08-arbitrary-sound",
            "arbitrary entries (C02 domain) x validating constructor: whenever the formatter accepts, no record has a duplicated member and the output equals the unvalidated twin's; rejected => zero bytes. Non-trivial = accepted with >=2 records",
            if q { 60_000 } else { 1_500_000 },
        )
        .threads(threads),
        || {
            (
                arb_cfg_any(),
                arb_validating_ctor(),
                arb_entry(),
                super::c02::arb_sampling(),
            )
                .prop_map(|(cfg, ctor, mut entry, sampling)| {
                    // AllowUnroutableEntries is documented as unsupported on anything but the
                    // error-report entry itself: an entry that carries it is reduced to a pure
                    // error report (the mixed form stays in C02's domain, where only framing is
                    // promised)
                    if entry.ops.iter().any(|o| matches!(o, Op::ErrorReport(_))) {
                        entry.ops.retain(|o| !matches!(o, Op::Value { .. }));
                    }
                    AnyCase {
                        cfg: cfg.with_ctor(ctor).normalize(),
                        entry,
                        sampling,
                    }
                })
        },
        check_any,
    );

    ctx.explore(
        SubCfg::new(
            "c08-dimension-key-collisions",
            "split-mode entries whose per-metric dimension key equals a string property, a metric of the same record, a configured dimension, is repeated within the set, is empty or is the reserved name _aws (all op orders, with/without a second record): accepted => no duplicated member; an empty or reserved key must be rejected. Non-trivial = every case",
            if q { 3_000 } else { 60_000 },
        ),
        || {
            (
                arb_validating_ctor(),
                0u8..6,
                0u8..8,
                any::<bool>(),
                any::<bool>(),
                "[a-z]{0,3}",
                any::<bool>(),
            )
                .prop_map(|(ctor, key_kind, order, cfg_dim, second_record, value, warm)| DimKeyCase {
                    ctor,
                    key_kind,
                    order,
                    cfg_dim,
                    second_record,
                    value,
                    warm,
                })
        },
        check_dim_key,
    );
    ctx.explore(
        SubCfg::new(
            "c08-wide-split-entries",
            "split entries with 2-120 distinct per-metric dimension sets (distinct keys, or one key with distinct values; one or two namespaces), valid or with one duplicate (the record's metric written twice, or a string property named like it) in a generated record. Oracle: a duplicate in ANY record is rejected with no output; the valid entry is accepted, has one record per dimension set without duplicated members, and equals the unvalidated twin's output. Non-trivial = every case",
            if q { 3_000 } else { 60_000 },
        )
        .threads(threads)
        .mandatory(&["more-than-64-records", "duplicate-in-record-64-or-later", "duplicate-in-record-32-to-63", "accepted", "rejected"]),
        || {
            (
                arb_validating_ctor(),
                prop_oneof![2u8..40, 30u8..70, 60u8..=120],
                prop::option::weighted(0.7, (any::<u8>(), 0u8..2)),
                any::<bool>(),
                any::<bool>(),
            )
                .prop_map(|(ctor, n, dup, distinct_keys, second_namespace)| WideCase {
                    ctor,
                    n,
                    dup,
                    distinct_keys,
                    second_namespace,
                })
        },
        check_wide,
    );
}
