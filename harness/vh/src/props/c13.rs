//! C13 — slot values are never lost in wait mode and never partial in discard mode.

use super::c06::CountSink;
use crate::bq::{block_on_timeout, poll_once};
use crate::engine::*;
use crate::{vensure, vfail};
use metrique::unit_of_work::metrics;
use metrique::{ForceFlushGuard, LazySlot, OnParentDrop, Slot, SlotGuard};
use proptest::prelude::*;
use serde::{Deserialize, Serialize};
use std::sync::atomic::Ordering;
use std::time::Duration;

#[metrics(subfield)]
#[derive(Default)]
pub struct Child1 {
    c1: u64,
}
#[metrics(subfield)]
#[derive(Default)]
pub struct Child2 {
    c2: u64,
}

#[metrics]
pub struct Parent {
    own: u64,
    #[metrics(flatten)]
    s1: Slot<Child1>,
    #[metrics(flatten)]
    s2: LazySlot<Child2>,
}

#[derive(Clone, Copy, Debug, PartialEq, Eq, Serialize, Deserialize)]
pub enum Mode {
    Wait,
    Discard,
}

#[derive(Clone, Copy, Debug, PartialEq, Eq, Serialize, Deserialize)]
pub enum Op {
    Open1(Mode),
    Open2(Mode),
    Mutate1(u8),
    Mutate2(u8),
    MutateOwn(u8),
    DropGuard1,
    DropGuard2,
    NewForceGuard,
    DropForceGuard,
    /// poll wait_for_data on slot 1 once (through the owner)
    PollWait1,
    /// await wait_for_data on slot 1 to completion (a real waker) while another thread, after a
    /// generated delay, drops the guard: pending -> woken by the drop -> ready
    AwaitWait1DropOnThread(u8),
    DropParent,
    /// SlotGuard::delay_flush on slot 1's guard with a fresh flush guard of the parent: the
    /// second public way into wait mode (and the only way to REPLACE a held flush guard)
    DelayFlush1,
    /// the deprecated Slot::open_slot (discard mode, same at-most-once rule)
    OpenDeprecated1,
    /// owner -> handle (+ k%3 clones): from here on "dropping the parent" means dropping the last
    /// clone, and nothing can be opened or mutated through the parent any more
    IntoHandle(u8),
}

#[derive(Clone, Debug, Serialize, Deserialize)]
pub struct Case {
    pub ops: Vec<Op>,
    /// drop the remaining objects on separate threads
    pub concurrent: bool,
    pub order: Vec<u8>,
    pub jitter: Vec<u8>,
    /// slot guards and the parent dropped by ops are dropped while their thread unwinds from a
    /// panic (a worker that panics after writing its part of the entry)
    #[serde(default)]
    pub unwinding: bool,
    /// the owner is released through `Instrumented::from_parts((), owner).emit()` instead of a
    /// plain drop (the documented way to end an instrumented unit of work)
    #[serde(default)]
    pub via_emit: bool,
}

#[derive(Default, Clone, Debug)]
struct SlotModel {
    opened: Option<Mode>,
    /// wait-mode guard holds a flush guard that is effective (created before a force drop)
    holds: bool,
    guard_alive: bool,
    value: u64,
    /// value sent back (guard dropped)
    returned: Option<u64>,
}

pub fn check(case: &Case) -> CaseResult {
    let sink = CountSink::new();
    let mut parent: Option<ParentGuard<CountSink>> = Some(
        Parent {
            own: 0,
            s1: Slot::default(),
            s2: LazySlot::default(),
        }
        .append_on_drop(sink.clone()),
    );
    let mut g1: Option<SlotGuard<Child1>> = None;
    let mut g2: Option<SlotGuard<Child2>> = None;
    let mut force: Vec<ForceFlushGuard> = vec![];
    let mut handles: Vec<ParentHandle<CountSink>> = vec![];
    let mut m1 = SlotModel::default();
    let mut m2 = SlotModel::default();
    let mut own = 0u64;
    let mut force_dropped = false;
    let mut parent_alive = true;
    let mut classes: Classes = vec![];
    // value of slot 1 as the parent will see it at close time
    let emitted = |parent_alive: bool, force_dropped: bool, m1: &SlotModel, m2: &SlotModel| -> bool {
        !parent_alive && (force_dropped || (!(m1.guard_alive && m1.holds) && !(m2.guard_alive && m2.holds)))
    };
    let mut expected_at_emit: Option<(u64, Option<u64>, Option<u64>)> = None;
    let mut note_emit = |was: bool, now: bool, own: u64, m1: &SlotModel, m2: &SlotModel, exp: &mut Option<(u64, Option<u64>, Option<u64>)>| {
        if !was && now {
            *exp = Some((own, m1.returned, m2.returned));
        }
    };
    for (i, op) in case.ops.iter().enumerate() {
        let was = emitted(parent_alive, force_dropped, &m1, &m2);
        match *op {
            Op::Open1(mode) => {
                let Some(p) = parent.as_mut() else { continue };
                let pdm = match mode {
                    Mode::Wait => OnParentDrop::Wait(p.flush_guard()),
                    Mode::Discard => OnParentDrop::Discard,
                };
                let g = p.s1.open(pdm);
                if m1.opened.is_some() {
                    vensure!(g.is_none(), "slot:opened-twice", "op {i}: Slot::open returned a second guard");
                    classes.push("second-open");
                } else {
                    vensure!(g.is_some(), "slot:open-failed", "op {i}: first Slot::open returned None");
                    g1 = g;
                    m1.opened = Some(mode);
                    m1.holds = mode == Mode::Wait && !force_dropped;
                    m1.guard_alive = true;
                }
            }
            Op::Open2(mode) => {
                let Some(p) = parent.as_mut() else { continue };
                let pdm = match mode {
                    Mode::Wait => OnParentDrop::Wait(p.flush_guard()),
                    Mode::Discard => OnParentDrop::Discard,
                };
                let g = p.s2.open(Child2 { c2: 7 }, pdm);
                if m2.opened.is_some() {
                    vensure!(g.is_none(), "slot:opened-twice", "op {i}: LazySlot::open returned a second guard");
                    classes.push("second-open");
                } else {
                    vensure!(g.is_some(), "slot:open-failed", "op {i}: first LazySlot::open returned None");
                    g2 = g;
                    m2.opened = Some(mode);
                    m2.holds = mode == Mode::Wait && !force_dropped;
                    m2.guard_alive = true;
                    m2.value = 7;
                }
            }
            Op::Mutate1(k) => {
                if let Some(g) = g1.as_mut() {
                    g.c1 += k as u64;
                    m1.value += k as u64;
                }
            }
            Op::Mutate2(k) => {
                if let Some(g) = g2.as_mut() {
                    g.c2 += k as u64;
                    m2.value += k as u64;
                }
            }
            Op::MutateOwn(k) => {
                if let Some(p) = parent.as_mut() {
                    p.own += k as u64;
                    own += k as u64;
                }
            }
            Op::DropGuard1 => {
                if let Some(g) = g1.take() {
                    m1.guard_alive = false;
                    // the value reaches the parent only if the parent has not been closed yet
                    if !was {
                        m1.returned = Some(m1.value);
                    }
                    if case.unwinding {
                        classes.push("guard-dropped-while-unwinding");
                        no_panic("slot-guard-drop-while-unwinding", || drop_while_unwinding(g))?;
                    } else {
                        no_panic("slot-guard-drop", || drop(g))?;
                    }
                    if !parent_alive {
                        classes.push("parent-dropped-before-guard");
                    }
                }
            }
            Op::DropGuard2 => {
                if let Some(g) = g2.take() {
                    m2.guard_alive = false;
                    if !was {
                        m2.returned = Some(m2.value);
                    }
                    if case.unwinding {
                        classes.push("guard-dropped-while-unwinding");
                        no_panic("slot-guard-drop-while-unwinding", || drop_while_unwinding(g))?;
                    } else {
                        no_panic("slot-guard-drop", || drop(g))?;
                    }
                    if !parent_alive {
                        classes.push("parent-dropped-before-guard");
                    }
                }
            }
            Op::NewForceGuard => {
                if let Some(p) = parent.as_ref() {
                    force.push(p.force_flush_guard());
                }
            }
            Op::DropForceGuard => {
                if let Some(f) = force.pop() {
                    drop(f);
                    force_dropped = true;
                    classes.push("force-flush");
                }
            }
            Op::PollWait1 => {
                if let Some(p) = parent.as_mut() {
                    if m1.opened.is_some() {
                        let fut = p.s1.wait_for_data();
                        let mut fut = Box::pin(fut);
                        let r = poll_once(fut.as_mut());
                        match (&r, m1.guard_alive) {
                            (std::task::Poll::Ready(v), false) => {
                                let got = v.as_ref().map(|c| c.c1);
                                vensure!(
                                    got == m1.returned,
                                    "slot:wait-for-data-wrong-value",
                                    "wait_for_data yielded {got:?}, the guard was dropped with {:?}",
                                    m1.returned
                                );
                                classes.push("wait-for-data-ready");
                            }
                            (std::task::Poll::Pending, true) => classes.push("wait-for-data-cancelled-while-pending"),
                            (std::task::Poll::Ready(_), true) => vfail!(
                                "slot:wait-for-data-ready-too-early",
                                "wait_for_data was ready although the guard is still alive"
                            ),
                            (std::task::Poll::Pending, false) => vfail!(
                                "slot:wait-for-data-not-ready",
                                "wait_for_data still pending although the guard was dropped"
                            ),
                        }
                        // the pending future is dropped here (a cancelled wait, e.g. a timeout)
                        drop(fut);
                    }
                }
            }
            Op::AwaitWait1DropOnThread(delay) => {
                if let (Some(p), true, false) = (parent.as_mut(), m1.opened.is_some() && g1.is_some(), was) {
                    let g = g1.take().unwrap();
                    m1.guard_alive = false;
                    m1.returned = Some(m1.value);
                    let got = std::thread::scope(|s| {
                        s.spawn(move || {
                            crate::bq::jitter(delay);
                            if delay % 3 == 0 {
                                std::thread::sleep(std::time::Duration::from_micros(delay as u64 * 4));
                            }
                            drop(g);
                        });
                        crate::bq::block_on_timeout(p.s1.wait_for_data(), std::time::Duration::from_secs(10))
                    });
                    let Some(v) = got else {
                        vfail!(
                            "slot:wait-for-data-not-ready",
                            "wait_for_data awaited with a real waker never completed although another thread dropped the guard"
                        );
                    };
                    let v = v.as_ref().map(|c| c.c1);
                    vensure!(
                        v == m1.returned,
                        "slot:wait-for-data-wrong-value",
                        "wait_for_data (woken by a guard drop on another thread) yielded {v:?}, the guard was dropped with {:?}",
                        m1.returned
                    );
                    classes.push("wait-for-data-awaited-across-threads");
                }
            }
            Op::DelayFlush1 => {
                if let (Some(p), Some(g)) = (parent.as_ref(), g1.as_mut()) {
                    g.delay_flush(p.flush_guard());
                    m1.opened = Some(Mode::Wait);
                    m1.holds = !force_dropped;
                    classes.push("delay-flush");
                }
            }
            #[allow(deprecated)]
            Op::OpenDeprecated1 => {
                let Some(p) = parent.as_mut() else { continue };
                let g = p.s1.open_slot();
                if m1.opened.is_some() {
                    vensure!(g.is_none(), "slot:opened-twice", "op {i}: Slot::open_slot returned a second guard");
                    classes.push("second-open");
                } else {
                    vensure!(g.is_some(), "slot:open-failed", "op {i}: first Slot::open_slot returned None");
                    g1 = g;
                    m1.opened = Some(Mode::Discard);
                    m1.holds = false;
                    m1.guard_alive = true;
                    classes.push("open-slot-deprecated");
                }
            }
            Op::IntoHandle(k) => {
                if let Some(p) = parent.take() {
                    let h = p.handle();
                    for _ in 0..(k % 3) {
                        handles.push(h.clone());
                    }
                    handles.push(h);
                    classes.push("parent-as-handle-clones");
                }
            }
            Op::DropParent if parent.is_none() && !handles.is_empty() => {
                let h = handles.pop().unwrap();
                if handles.is_empty() {
                    parent_alive = false;
                }
                if case.unwinding {
                    no_panic("parent-drop-while-unwinding", || drop_while_unwinding(h))?;
                } else {
                    no_panic("parent-drop", || drop(h))?;
                }
            }
            Op::DropParent => {
                if let Some(p) = parent.take() {
                    parent_alive = false;
                    if case.unwinding {
                        no_panic("parent-drop-while-unwinding", || drop_while_unwinding(p))?;
                    } else if case.via_emit {
                        classes.push("parent-released-through-instrumented-emit");
                        no_panic("parent-emit", || metrique::instrument::Instrumented::from_parts((), p).emit())?;
                    } else {
                        no_panic("parent-drop", || drop(p))?;
                    }
                    if (m1.guard_alive && m1.opened == Some(Mode::Wait)) || (m2.guard_alive && m2.opened == Some(Mode::Wait)) {
                        classes.push("parent-dropped-before-wait-guard");
                    }
                }
            }
        }
        let now = emitted(parent_alive, force_dropped, &m1, &m2);
        note_emit(was, now, own, &m1, &m2, &mut expected_at_emit);
        let got = sink.count();
        vensure!(
            got == now as usize,
            if got > now as usize { "slot:appended-too-early" } else { "slot:not-appended" },
            "after op {i} ({op:?}) of {:?}: sink has {got} entries, model says {} (parent alive {parent_alive}, force dropped {force_dropped}, slot1 {m1:?}, slot2 {m2:?})",
            case.ops,
            now as usize
        );
    }
    // wind down
    let was = emitted(parent_alive, force_dropped, &m1, &m2);
    if !was {
        if case.concurrent && (g1.is_some() || g2.is_some()) && parent.is_some() && handles.is_empty() {
            // parent and guards dropped on different threads; wait-mode values must be present
            let p = parent.take().unwrap();
            let started = sink.started.clone();
            let jit = case.jitter.clone();
            let g1t = g1.take();
            let g2t = g2.take();
            let o = case.order.first().copied().unwrap_or(0);
            let b = std::sync::Barrier::new(2);
            std::thread::scope(|s| {
                let b = &b;
                let jit2 = jit.clone();
                s.spawn(move || {
                    b.wait();
                    crate::bq::jitter(jit.first().copied().unwrap_or(0));
                    drop(p);
                });
                s.spawn(move || {
                    b.wait();
                    crate::bq::jitter(jit2.get(1).copied().unwrap_or(0));
                    started.fetch_or(1, Ordering::SeqCst);
                    if o % 2 == 0 {
                        drop(g1t);
                        drop(g2t);
                    } else {
                        drop(g2t);
                        drop(g1t);
                    }
                });
            });
            parent_alive = false;
            let _ = parent_alive;
            drop(force);
            classes.push("concurrent-parent-and-guard-drop");
            classes.push("nt");
            let appended = sink.appended.lock().unwrap().clone();
            vensure!(
                appended.len() == 1,
                if appended.is_empty() { "slot:not-appended" } else { "slot:appended-twice" },
                "{} appends after everything was dropped",
                appended.len()
            );
            let f = &appended[0].fields;
            let get = |n: &str| f.iter().find(|(k, _)| k == n).map(|x| x.1);
            vensure!(get("own") == Some(own), "slot:rest-of-entry-affected", "own = {:?}, expected {own}", get("own"));
            for (name, m) in [("c1", &m1), ("c2", &m2)] {
                if m.opened.is_none() || !m.guard_alive && m.returned.is_none() {
                    continue;
                }
                let expect_val = if m.guard_alive { m.value } else { m.returned.unwrap() };
                match (m.opened, m.holds, get(name)) {
                    // wait mode (effective): never lost unless its receiver was consumed by a wait
                    (Some(Mode::Wait), true, got) if !force_dropped => vensure!(
                        got == Some(expect_val),
                        "slot:wait-mode-value-lost",
                        "slot field {name}: opened in wait mode, parent and guard dropped on different threads, value {got:?} in the entry, expected {expect_val}"
                    ),
                    // otherwise: present-or-absent, and if present then the last value
                    (_, _, Some(v)) => vensure!(
                        v == expect_val,
                        "slot:partial-value",
                        "slot field {name}: {v} in the entry, last value written through the guard {expect_val}"
                    ),
                    _ => {}
                }
            }
            return Ok(classes);
        }
        // sequential wind-down: parent first (if alive), then guards, then force guards
        if let Some(p) = parent.take() {
            let w = emitted(parent_alive, force_dropped, &m1, &m2);
            parent_alive = false;
            drop(p);
            let n = emitted(parent_alive, force_dropped, &m1, &m2);
            note_emit(w, n, own, &m1, &m2, &mut expected_at_emit);
        }
        if !handles.is_empty() {
            let w = emitted(parent_alive, force_dropped, &m1, &m2);
            parent_alive = false;
            handles.clear();
            let n = emitted(parent_alive, force_dropped, &m1, &m2);
            note_emit(w, n, own, &m1, &m2, &mut expected_at_emit);
        }
        if let Some(g) = g1.take() {
            let w = emitted(parent_alive, force_dropped, &m1, &m2);
            m1.guard_alive = false;
            if !w {
                m1.returned = Some(m1.value);
            }
            drop(g);
            let n = emitted(parent_alive, force_dropped, &m1, &m2);
            note_emit(w, n, own, &m1, &m2, &mut expected_at_emit);
        }
        if let Some(g) = g2.take() {
            let w = emitted(parent_alive, force_dropped, &m1, &m2);
            m2.guard_alive = false;
            if !w {
                m2.returned = Some(m2.value);
            }
            drop(g);
            let n = emitted(parent_alive, force_dropped, &m1, &m2);
            note_emit(w, n, own, &m1, &m2, &mut expected_at_emit);
        }
    }
    drop(g1);
    drop(g2);
    drop(force);
    drop(handles);
    let appended = sink.appended.lock().unwrap().clone();
    vensure!(
        appended.len() == 1,
        if appended.is_empty() { "slot:not-appended" } else { "slot:appended-twice" },
        "{} appends after everything was dropped (ops {:?})",
        appended.len(),
        case.ops
    );
    let (eown, e1, e2) = expected_at_emit.unwrap_or((own, m1.returned, m2.returned));
    let f = &appended[0].fields;
    let get = |n: &str| f.iter().find(|(k, _)| k == n).map(|x| x.1);
    vensure!(
        get("own") == Some(eown),
        "slot:rest-of-entry-affected",
        "field own = {:?}, expected {eown}; ops {:?}",
        get("own"),
        case.ops
    );
    // a wait_for_data that consumed the receiver removes the value from the entry unless it
    // completed (then the slot caches it)
    vensure!(
        get("c1") == e1,
        if e1.is_some() { "slot:value-lost" } else { "slot:partial-value" },
        "slot 1 field c1 = {:?} in the entry, expected {e1:?} (mode {:?}); ops {:?}",
        get("c1"),
        m1.opened,
        case.ops
    );
    vensure!(
        get("c2") == e2,
        if e2.is_some() { "slot:value-lost" } else { "slot:partial-value" },
        "slot 2 field c2 = {:?} in the entry, expected {e2:?} (mode {:?}); ops {:?}",
        get("c2"),
        m2.opened,
        case.ops
    );
    if classes.contains(&"parent-dropped-before-wait-guard") {
        classes.push("nt");
    }
    if m1.opened == Some(Mode::Discard) || m2.opened == Some(Mode::Discard) {
        classes.push("discard-mode");
    }
    if m1.opened == Some(Mode::Wait) || m2.opened == Some(Mode::Wait) {
        classes.push("wait-mode");
    }
    classes.sort();
    classes.dedup();
    Ok(classes)
}

/// run `f` inside a tokio task whose cooperative budget for the current poll is used up (a task
/// that has just drained a burst of ready work): tokio's own primitives then report Pending even
/// when they are ready
pub fn with_exhausted_tokio_budget<T>(f: impl FnOnce() -> T) -> (T, usize) {
    let rt = tokio::runtime::Builder::new_current_thread().build().unwrap();
    rt.block_on(async {
        let (tx, mut rx) = tokio::sync::mpsc::unbounded_channel::<u8>();
        for _ in 0..400 {
            let _ = tx.send(0);
        }
        let mut f = Some(f);
        let mut drained = 0usize;
        std::future::poll_fn(move |cx| {
            loop {
                match rx.poll_recv(cx) {
                    std::task::Poll::Ready(Some(_)) => drained += 1,
                    std::task::Poll::Ready(None) => break,
                    // messages remain, so Pending here means the budget of this poll is spent
                    std::task::Poll::Pending => break,
                }
            }
            std::task::Poll::Ready((f.take().unwrap()(), drained))
        })
        .await
    })
}

pub fn check_in_busy_task(case: &Case) -> CaseResult {
    let (r, drained) = with_exhausted_tokio_budget(|| check(case));
    let mut c = r?;
    if drained < 400 {
        c.push("tokio-budget-exhausted");
    }
    Ok(c)
}

pub fn arb_op() -> impl Strategy<Value = Op> {
    let mode = prop::sample::select(vec![Mode::Wait, Mode::Discard]);
    prop_oneof![
        3 => mode.clone().prop_map(Op::Open1),
        3 => mode.prop_map(Op::Open2),
        3 => (1u8..50).prop_map(Op::Mutate1),
        3 => (1u8..50).prop_map(Op::Mutate2),
        2 => (1u8..50).prop_map(Op::MutateOwn),
        2 => Just(Op::DropGuard1),
        2 => Just(Op::DropGuard2),
        1 => Just(Op::NewForceGuard),
        1 => Just(Op::DropForceGuard),
        1 => Just(Op::PollWait1),
        1 => any::<u8>().prop_map(Op::AwaitWait1DropOnThread),
        2 => Just(Op::DropParent),
        1 => Just(Op::DelayFlush1),
        1 => Just(Op::OpenDeprecated1),
        1 => any::<u8>().prop_map(Op::IntoHandle),
    ]
}

fn exhaustive(ctx: &mut Ctx) {
    let max_len = ctx.tier.pick(6usize, 7usize);
    let alphabet = vec![
        Op::Open1(Mode::Wait),
        Op::Open1(Mode::Discard),
        Op::Open2(Mode::Wait),
        Op::Open2(Mode::Discard),
        Op::Mutate1(5),
        Op::Mutate2(9),
        Op::MutateOwn(1),
        Op::DropGuard1,
        Op::DropGuard2,
        Op::NewForceGuard,
        Op::DropForceGuard,
        Op::DropParent,
    ];
    let t0 = std::time::Instant::now();
    let results: Vec<(Tally, Option<(Vec<Op>, Fail)>)> = std::thread::scope(|s| {
        let hs: Vec<_> = alphabet
            .iter()
            .map(|first| {
                let alphabet = &alphabet;
                s.spawn(move || {
                    let mut t = Tally::new("c13-exhaustive", "");
                    let mut fail = None;
                    fn rec(seq: &mut Vec<Op>, alphabet: &[Op], max_len: usize, t: &mut Tally, fail: &mut Option<(Vec<Op>, Fail)>) {
                        if fail.is_some() {
                            return;
                        }
                        let case = Case {
                            ops: seq.clone(),
                            concurrent: false,
                            order: vec![],
                            jitter: vec![],
                            unwinding: false,
                    via_emit: false,
                        };
                        match check(&case) {
                            Ok(c) => {
                                t.evaluations += 1;
                                if c.contains(&"nt") {
                                    t.nt_extra += 1;
                                    if t.samples.len() < 2 {
                                        t.samples.push(serde_json::to_value(&case.ops).unwrap());
                                    }
                                }
                                for x in c {
                                    *t.classes.entry(x).or_insert(0) += 1;
                                }
                            }
                            Err(f) => {
                                *fail = Some((seq.clone(), f));
                                return;
                            }
                        }
                        if seq.len() >= max_len {
                            return;
                        }
                        for op in alphabet {
                            seq.push(*op);
                            rec(seq, alphabet, max_len, t, fail);
                            seq.pop();
                        }
                    }
                    let mut seq = vec![*first];
                    rec(&mut seq, alphabet, max_len, &mut t, &mut fail);
                    (t, fail)
                })
            })
            .collect();
        hs.into_iter().map(|h| h.join().unwrap()).collect()
    });
    let mut total = Tally::new(
        "c13-exhaustive",
        "ALL op sequences up to the length bound (quick 6, thorough 7) over {open slot1/slot2 (LazySlot) in wait/discard mode, mutate through guard 1/2, mutate the parent's own field, drop guard 1/2, new/drop force-flush guard, drop parent} on a real #[metrics] entry with a Slot and a LazySlot flattened in; ops that do not apply are no-ops. After EVERY op sink.count == model; the appended entry has the parent's own field untouched, a wait-mode slot's last value (unless force-flushed first), a discard-mode slot's value iff its guard was dropped before the close; second open returns None. Non-trivial = parent dropped before a wait-mode guard",
    );
    total.t0 = t0;
    total.exhaustive = true;
    let mut failure = None;
    for (t, f) in results {
        total.merge(t);
        if failure.is_none() {
            failure = f;
        }
    }
    ctx.push_custom(total.finish(&[]));
    if let Some((ops, f)) = failure {
        let case = Case {
            ops,
            concurrent: false,
            order: vec![],
            jitter: vec![],
            unwinding: false,
                    via_emit: false,
        };
        ctx.report_violation("c13-random", f, serde_json::to_value(&case).unwrap(), format!("{case:?}"));
    }
}

pub fn run(ctx: &mut Ctx) {
    ctx.assume("wait_for_data is polled once with a no-op waker and the future is then dropped: a pending wait is thereby cancelled, as a timeout around it would do");
    if ctx.replay.is_none() {
        exhaustive(ctx);
    }
    let q = ctx.tier == Tier::Quick;
    ctx.explore(
        SubCfg::new(
            "c13-random",
            "random sequences up to length 40 over the same ops plus wait_for_data polls, SlotGuard::delay_flush, the deprecated Slot::open_slot and the owner turned into handle clones (no-op waker; tokio's oneshot needs no runtime); model compared after every op; in 20% of the cases every guard / parent drop happens while the dropping thread unwinds from a panic. Non-trivial = parent dropped before a wait-mode guard",
            if q { 30_000 } else { 800_000 },
        )
        .threads(ctx.tier.pick(8, 16))
        .mandatory(&["wait-mode", "discard-mode", "second-open", "force-flush", "parent-dropped-before-wait-guard", "wait-for-data-ready", "guard-dropped-while-unwinding", "delay-flush", "open-slot-deprecated", "parent-as-handle-clones", "parent-released-through-instrumented-emit"]),
        || {
            (prop::collection::vec(arb_op(), 0..40), prop::bool::weighted(0.2), prop::bool::weighted(0.3)).prop_map(|(ops, unwinding, via_emit)| Case {
                ops,
                concurrent: false,
                order: vec![],
                jitter: vec![],
                unwinding,
                via_emit,
            })
        },
        check,
    );
    ctx.explore(
        SubCfg::new(
            "c13-busy-tokio-task",
            "the random single-threaded sequences (without wait_for_data polls) executed inside a tokio task whose cooperative budget for the current poll is exhausted (it has just drained a burst of 128+ ready channel messages): closing the entry there must pick up slot values exactly as on a plain thread. Non-trivial = parent dropped before a wait-mode guard",
            if q { 4_000 } else { 100_000 },
        )
        .threads(ctx.tier.pick(4, 8))
        .mandatory(&["tokio-budget-exhausted", "wait-mode", "discard-mode"]),
        || {
            prop::collection::vec(arb_op(), 0..30).prop_map(|mut ops| {
                ops.retain(|o| !matches!(o, Op::PollWait1 | Op::AwaitWait1DropOnThread(_)));
                Case {
                    ops,
                    concurrent: false,
                    order: vec![],
                    jitter: vec![],
                    unwinding: false,
                    via_emit: false,
                }
            })
        },
        check_in_busy_task,
    );
    ctx.explore(
        SubCfg::new(
            "c13-concurrent",
            "a generated prefix without parent drop, then the parent and the slot guards are dropped on two different real threads after a barrier with generated yields/spins/sleeps. Oracle: exactly one append; the parent's own field untouched; an effective wait-mode slot's value is always present with the last value written through the guard; discard mode: present-or-absent, never partial. Non-trivial = every case",
            if q { 3_000 } else { 100_000 },
        )
        .threads(ctx.tier.pick(2, 4))
        .shrink_iters(200)
        .mandatory(&["concurrent-parent-and-guard-drop"]),
        || {
            (
                prop::collection::vec(arb_op(), 1..20),
                prop::collection::vec(any::<u8>(), 0..3),
                prop::collection::vec(any::<u8>(), 0..3),
            )
                .prop_map(|(mut ops, order, jitter)| {
                    ops.retain(|o| !matches!(o, Op::DropParent | Op::PollWait1 | Op::AwaitWait1DropOnThread(_) | Op::DropGuard1 | Op::DropGuard2 | Op::IntoHandle(_)));
                    ops.insert(0, Op::Open1(Mode::Wait));
                    Case {
                        ops,
                        concurrent: true,
                        order,
                        jitter,
                        unwinding: false,
                    via_emit: false,
                    }
                })
        },
        check,
    );
}

#[allow(dead_code)]
fn _b() {
    let _ = block_on_timeout(async {}, Duration::from_millis(1));
}
