//! C05 — shutdown drains, flushes and closes the stream; the writer thread terminates (also when
//! the join handle is forgotten and the last queue handle goes away).

use crate::bq::*;
use crate::engine::*;
use crate::{vensure, vfail};
use metrique_writer::sink::AttachGlobalEntrySink;
use metrique_writer_core::GlobalEntrySink;
use proptest::prelude::*;
use serde::{Deserialize, Serialize};
use std::sync::{Arc, Mutex};
use std::time::Duration;

use super::c01::{Q, build_queue};

#[derive(Clone, Copy, Debug, PartialEq, Serialize, Deserialize)]
pub enum Op {
    Append(u8),
    Clone,
    DropClone,
    FlushReq,
    Grant(u8),
}

#[derive(Clone, Copy, Debug, PartialEq, Serialize, Deserialize)]
pub enum End {
    /// drop the join handle while entries are still queued
    DropHandle,
    /// forget the join handle, then drop every queue handle
    Forget,
    /// same through a global sink: drop the attach handle
    GlobalDetach,
}

#[derive(Clone, Debug, Serialize, Deserialize)]
pub struct Case {
    pub boxed: bool,
    pub ops: Vec<Op>,
    pub end: End,
    pub after: u8,
    pub open_delay: u8,
    pub flush_ms: bool,
    /// forget path only: the appends after forget() and the drop of the last handle happen while
    /// the writer thread is inside one of its periodic stream flushes
    #[serde(default)]
    pub during_flush: bool,
    /// drop-handle / detach paths only: the handle is dropped by a thread that is unwinding from a
    /// panic (a guard object owns it), as happens when a service's main function panics
    #[serde(default)]
    pub unwinding: bool,
    /// detach path only: another thread keeps calling try_append on the global while the attach
    /// handle is being dropped (its entries are not judged here - C17 does that - but the detach
    /// must still shut the queue down)
    #[serde(default)]
    pub racing_appender: bool,
    /// forget path only: flush futures requested earlier are neither awaited nor dropped before
    /// the last queue handle goes away (a caller that fired a flush and kept the future around)
    #[serde(default)]
    pub keep_flush_futures: bool,
    /// per-entry stream results (Ok / Io only: a validation error would add the in-band report)
    #[serde(default)]
    pub results: Vec<crate::iofault::SRes>,
    /// results of successive stream.flush() calls, repeating (true = Ok)
    #[serde(default)]
    pub flush_results: Vec<bool>,
    /// drop-handle path only: the queue has a metrics recorder, and the last appends and the drop
    /// of the join handle happen while the writer thread is held inside the recorder call at the
    /// end of a flush interval (after its queue-length sample, before it looks at the shutdown flag)
    #[serde(default)]
    pub during_recorder_call: bool,
    /// how the queue is built and addressed (c01::build_queue_kind); only for the drop-handle and
    /// forget endings without the held recorder
    #[serde(default)]
    pub qkind: u8,
}

metrique_writer::sink::global_entry_sink! { C05Global }
static GLOBAL_LOCK: Mutex<()> = Mutex::new(());

pub fn check(case: &Case) -> CaseResult {
    let _g = if case.end == End::GlobalDetach {
        Some(GLOBAL_LOCK.lock().unwrap_or_else(|e| e.into_inner()))
    } else {
        None
    };
    let log = Arc::new(EventLog::default());
    let gate = Gate::new(false);
    let mut stream = BqStream::new(case.results.clone(), gate.clone(), log.clone());
    stream.flush_ok = case.flush_results.clone();
    stream.cycle = true;
    let hold = Arc::new(FlushHold::default());
    stream.flush_hold = Some(hold.clone());
    let interval = if case.flush_ms { Duration::from_millis(1) } else { Duration::from_micros(50) };
    let rec_hold = Arc::new(FlushHold::default());
    let rec_hold_active = case.during_recorder_call && case.end == End::DropHandle;
    let (q, handle) = if rec_hold_active {
        let b = metrique_writer::sink::BackgroundQueueBuilder::new()
            .capacity(100_000)
            .flush_interval(interval)
            .thread_name("vq")
            .metric_name("vq")
            .metrics_recorder_local::<dyn metrics_024::Recorder, _>(HeldRecorder { hold: rec_hold.clone() });
        if case.boxed {
            let (q, h) = b.build_boxed(stream);
            (Q::Boxed(q), h)
        } else {
            let (q, h) = b.build::<TestE>(stream);
            (Q::Typed(q), h)
        }
    } else if case.end != End::GlobalDetach && matches!(case.qkind % 6, 1 | 2 | 5) {
        super::c01::build_queue_kind(case.qkind, 100_000, case.boxed, interval, stream)
    } else {
        build_queue(100_000, case.boxed || case.end == End::GlobalDetach, interval, stream)
    };
    let mut attach = None;
    let mut handle = Some(handle);
    let mut handles: Vec<Q> = vec![q];
    if case.end == End::GlobalDetach {
        let Q::Boxed(b) = handles.pop().unwrap() else { unreachable!() };
        attach = Some(no_panic("attach", || C05Global::attach((b, handle.take().unwrap())))?);
    }
    let mut seq = 0u32;
    let mut flushes: Vec<(u32, metrique_writer_core::sink::FlushWait)> = vec![];
    let mut nflush = 0u32;
    let do_append = |handles: &Vec<Q>, n: usize, seq: &mut u32, log: &EventLog| {
        for _ in 0..n {
            let id = Id { p: 0, s: *seq };
            *seq += 1;
            log.push(Ev::AppendStart(id));
            if case.end == End::GlobalDetach {
                let _ = C05Global::try_append(TestE(id));
            } else {
                handles[(*seq as usize) % handles.len()].append(TestE(id));
            }
            log.push(Ev::AppendEnd(id));
        }
    };
    for op in &case.ops {
        match *op {
            Op::Append(n) => do_append(&handles, n as usize, &mut seq, &log),
            Op::Clone => {
                if case.end != End::GlobalDetach && handles.len() < 6 {
                    let c = handles[0].clone();
                    handles.push(c);
                }
            }
            Op::DropClone => {
                if handles.len() > 1 {
                    handles.pop();
                }
            }
            Op::FlushReq => {
                log.push(Ev::FlushReq(nflush));
                let f = if case.end == End::GlobalDetach {
                    metrique_writer_core::AnyEntrySink::flush_async(&C05Global::sink())
                } else {
                    handles[0].flush_async()
                };
                flushes.push((nflush, f));
                nflush += 1;
            }
            Op::Grant(k) => {
                let before = gate.consumed();
                gate.grant(k as u64);
                let t0 = std::time::Instant::now();
                while gate.consumed() < before + k as u64 && t0.elapsed() < Duration::from_millis(5) {
                    std::thread::yield_now();
                }
            }
        }
    }
    let appended_before = seq;
    let queued_at_end = appended_before as u64 > gate.consumed();
    let mut classes: Classes = vec![];
    if queued_at_end {
        classes.push("entries-queued-at-shutdown");
    }
    match case.end {
        End::DropHandle | End::GlobalDetach => {
            if rec_hold_active {
                // let the writer run, catch it inside the recorder call that ends a flush
                // interval, append while it is held there; the handle drop below starts before it
                // is released
                gate.open();
                rec_hold.arm();
                if !rec_hold.wait_in_flush(Duration::from_secs(5)) {
                    rec_hold.release();
                    let _ = no_panic("queue-shutdown", || drop(handle.take()));
                    return Ok(vec!["inconclusive-timeout"]);
                }
                do_append(&handles, 3 + case.after as usize % 5, &mut seq, &log);
                classes.push("handle-dropped-while-writer-inside-recorder-call");
            }
            // the drop must begin while entries are queued: a helper opens the gate afterwards
            let opener = {
                let gate = gate.clone();
                let log = log.clone();
                let delay = case.open_delay;
                let rec_hold = rec_hold.clone();
                std::thread::spawn(move || {
                    // wait for the drop to start
                    let t0 = std::time::Instant::now();
                    while log.count(|e| matches!(e, Ev::HandleDropStart)) == 0 && t0.elapsed() < Duration::from_secs(5) {
                        std::thread::yield_now();
                    }
                    jitter(delay);
                    gate.open();
                    // the drop has set the shutdown flag by now (it does so before it joins)
                    std::thread::sleep(Duration::from_micros(300));
                    rec_hold.release();
                })
            };
            let stop_racer = Arc::new(std::sync::atomic::AtomicBool::new(false));
            // a second thread keeps appending (entries that are not judged) while the drop is in
            // progress: through the global for a detach, through a clone of the queue handle
            // for a plain handle drop
            let racer_handle = (case.end == End::DropHandle && case.racing_appender && !rec_hold_active).then(|| handles[0].clone());
            let racer = ((case.end == End::GlobalDetach && case.racing_appender) || racer_handle.is_some()).then(|| {
                let stop = stop_racer.clone();
                std::thread::spawn(move || {
                    let mut n = 0u32;
                    while !stop.load(std::sync::atomic::Ordering::Relaxed) {
                        if n < 3000 {
                            match &racer_handle {
                                Some(q) => q.append(TestE(Id { p: 1, s: n })),
                                None => {
                                    let _ = C05Global::try_append(TestE(Id { p: 1, s: n }));
                                }
                            }
                            n += 1;
                        } else if racer_handle.is_none() {
                            let _ = C05Global::try_sink();
                        } else {
                            std::thread::yield_now();
                        }
                    }
                })
            });
            if racer.is_some() && case.end == End::DropHandle {
                classes.push("handle-drop-with-racing-appender");
                std::thread::sleep(Duration::from_micros(100));
            } else if racer.is_some() {
                classes.push("detach-with-racing-appender");
                // let the racer get going
                std::thread::sleep(Duration::from_micros(100));
            }
            log.push(Ev::HandleDropStart);
            if case.unwinding {
                if case.end == End::GlobalDetach {
                    no_panic("detach-while-unwinding", || drop_while_unwinding(attach.take()))?;
                } else {
                    no_panic("queue-shutdown-while-unwinding", || drop_while_unwinding(handle.take()))?;
                }
                classes.push("handle-dropped-while-unwinding");
            } else if case.end == End::GlobalDetach {
                no_panic("detach", || drop(attach.take()))?;
            } else {
                no_panic("queue-shutdown", || drop(handle.take()))?;
            }
            log.push(Ev::HandleDropEnd);
            stop_racer.store(true, std::sync::atomic::Ordering::Relaxed);
            if let Some(r) = racer {
                let _ = r.join();
            }
            let _ = opener.join();
            if case.end == End::GlobalDetach {
                vensure!(
                    C05Global::try_sink().is_none(),
                    "shutdown:global-still-attached",
                    "the attach handle was dropped but the global sink is still attached"
                );
            }
            // appends after the drop returned are discarded silently
            let after_start = seq;
            if case.end == End::GlobalDetach {
                for _ in 0..case.after {
                    let id = Id { p: 0, s: seq };
                    seq += 1;
                    match C05Global::try_append(TestE(id)) {
                        Err(_) => {}
                        Ok(()) => vfail!("shutdown:global-still-attached", "try_append succeeded after the attach handle was dropped"),
                    }
                }
            } else {
                no_panic("append-after-shutdown", || do_append(&handles, case.after as usize, &mut seq, &log))?;
            }
            let evs = log.snapshot();
            let end_i = evs.iter().position(|e| matches!(e, Ev::HandleDropEnd)).unwrap();
            let start_i = evs.iter().position(|e| matches!(e, Ev::HandleDropStart)).unwrap();
            let mut last_next = None;
            for (ai, a) in evs[..start_i].iter().enumerate() {
                if let Ev::AppendEnd(id) = a {
                    let ni = evs.iter().position(|e| matches!(e, Ev::Next(x, _) if x == id));
                    match ni {
                        Some(ni) if ni < end_i => last_next = Some(last_next.map_or(ni, |l: usize| l.max(ni))),
                        other => vfail!(
                            "shutdown:entry-not-drained",
                            "entry {id:?} was appended (log index {ai}) before the handle drop began ({start_i}) but had not reached the stream when the drop returned ({end_i}): {other:?}"
                        ),
                    }
                }
            }
            let dropped_i = evs.iter().position(|e| matches!(e, Ev::StreamDropped));
            vensure!(
                matches!(dropped_i, Some(d) if d < end_i),
                "shutdown:stream-not-closed",
                "the handle drop returned but the stream had not been dropped"
            );
            if let Some(ln) = last_next {
                vensure!(
                    evs[ln..dropped_i.unwrap()].iter().any(|e| matches!(e, Ev::StreamFlush)),
                    "shutdown:no-flush-after-drain",
                    "the stream was dropped without a flush after the last drained entry"
                );
            }
            // the thread is joined: nothing appended afterwards can ever appear
            std::thread::sleep(Duration::from_micros(200));
            let evs2 = log.snapshot();
            for e in &evs2 {
                if let Ev::Next(id, _) = e {
                    vensure!(
                        id.p != 0 || id.s < after_start,
                        "shutdown:entry-written-after-shutdown",
                        "entry {id:?} appended after the shutdown returned was written"
                    );
                }
            }
            if case.after > 0 {
                classes.push("append-after-shutdown");
            }
            // pending flush futures complete (shutdown wakes them)
            for (i, f) in flushes {
                if block_on_timeout(f, Duration::from_secs(5)).is_none() {
                    vfail!("shutdown:flush-never-completes", "flush {i} requested before shutdown never completed");
                }
                log.push(Ev::FlushDone(i));
            }
            super::c04::check_flush_barrier(&log.snapshot(), usize::MAX)?;
            if queued_at_end {
                classes.push("nt");
            }
            classes.push(if case.end == End::GlobalDetach { "global-detach" } else { "drop-handle" });
        }
        End::Forget => {
            no_panic("forget", || handle.take().unwrap().forget())?;
            let kept = if case.keep_flush_futures && !flushes.is_empty() {
                classes.push("forget-with-unawaited-flush-futures-alive");
                Some(flushes)
            } else {
                drop(flushes);
                None
            };
            if case.during_flush {
                // let the writer drain, then catch it inside a periodic flush and append + drop
                // the last handle while it is held there
                gate.open();
                hold.arm();
                if !hold.wait_in_flush(Duration::from_secs(5)) {
                    hold.release();
                    return Ok(vec!["inconclusive-timeout"]);
                }
                do_append(&handles, case.after as usize, &mut seq, &log);
                log.push(Ev::LastQueueHandleDropped);
                drop(handles);
                log.push(Ev::Note("last-handle-drop-returned"));
                hold.release();
                classes.push("last-handle-dropped-during-periodic-flush");
            } else {
                // more appends after forgetting are still delivered
                do_append(&handles, case.after as usize, &mut seq, &log);
                gate.open();
                log.push(Ev::LastQueueHandleDropped);
                drop(handles);
                log.push(Ev::Note("last-handle-drop-returned"));
            }
            // decided by counting: a correct writer performs O(1) further stream flushes and then
            // drops the stream; a writer that never notices keeps flushing every interval
            let t0 = std::time::Instant::now();
            let outcome = loop {
                let evs = log.snapshot();
                // counted from the instant the drop of the last handle has RETURNED (the marker
                // before the drop may be followed by any number of legitimate periodic flushes if
                // this thread is descheduled between the two statements)
                let li = evs.iter().position(|e| matches!(e, Ev::Note("last-handle-drop-returned"))).unwrap();
                if evs.iter().any(|e| matches!(e, Ev::StreamDropped)) {
                    break Some(evs);
                }
                let flushes_after = evs[li..].iter().filter(|e| matches!(e, Ev::StreamFlush)).count();
                if flushes_after >= 60 {
                    vfail!(
                        "shutdown:forgotten-queue-never-terminates",
                        "join handle forgotten and last queue handle dropped: the writer flushed the stream {flushes_after} more times and still has not closed it (it runs forever)"
                    );
                }
                if t0.elapsed() > Duration::from_secs(10) {
                    break None;
                }
                std::thread::sleep(Duration::from_micros(300));
            };
            let Some(evs) = outcome else {
                return Ok(vec!["inconclusive-timeout"]);
            };
            let di = evs.iter().position(|e| matches!(e, Ev::StreamDropped)).unwrap();
            let mut last_next = None;
            for s in 0..seq {
                let id = Id { p: 0, s };
                match evs.iter().position(|e| matches!(e, Ev::Next(x, _) if *x == id)) {
                    Some(ni) if ni < di => last_next = Some(last_next.map_or(ni, |l: usize| l.max(ni))),
                    _ => vfail!(
                        "shutdown:entry-not-drained",
                        "forget path: entry {id:?} never reached the stream before it was closed"
                    ),
                }
            }
            if let Some(ln) = last_next {
                vensure!(
                    evs[ln..di].iter().any(|e| matches!(e, Ev::StreamFlush)),
                    "shutdown:no-flush-after-drain",
                    "forget path: stream closed without a flush after the last entry"
                );
            }
            if let Some(kept) = kept {
                for (i, f) in kept {
                    if block_on_timeout(f, Duration::from_secs(5)).is_none() {
                        vfail!("shutdown:flush-never-completes", "forget path: flush {i} requested before the last handle was dropped never completed although the stream is closed");
                    }
                }
            }
            classes.push("forget-path");
            classes.push("nt");
        }
    }
    if gate.timed_out.load(std::sync::atomic::Ordering::Relaxed) {
        return Ok(vec!["inconclusive-timeout"]);
    }
    if case.results.iter().any(|r| *r != crate::iofault::SRes::Ok) {
        classes.push("stream-io-results");
    }
    if case.flush_results.iter().any(|b| !*b) {
        classes.push("stream-flush-errors");
    }
    classes.sort();
    classes.dedup();
    Ok(classes)
}

pub const RULE: &str = "histories of Append(n) / Clone / DropClone / FlushReq / Grant(k) on a typed or boxed queue whose writer is stalled behind a fuel gate and whose stream answers entries with a repeating Ok / Io script and flushes with a repeating Ok / error script, ended by (a) dropping the join handle while entries are still queued - or, on a queue with a metrics recorder, while the writer is held inside the recorder call that ends a flush interval, with entries appended during that hold - (a helper opens the gate after the drop began; in 30% of these cases the drop is performed by a guard object while its thread unwinds from a panic), (b) forgetting the join handle and dropping every queue handle (flush futures requested earlier dropped first, or - half of the cases - kept alive and unawaited) - also with the last appends and the drop of the last handle placed while the writer thread is held inside one of its periodic stream flushes (harness-owned flush callback), (c) the same queue attached to a harness-declared global_entry_sink! and detached by dropping the AttachHandle, in half of these cases while another thread keeps calling try_append on the global; then appends after the end. Oracle over the event log: when the drop returns every entry appended before it began has reached the stream, the stream was flushed after the last of them and dropped; later appends never appear (try_append hands the entry back for a detached global); pending flush futures complete. Forget path, decided by counting: after the last queue handle is dropped the stream must be drained, flushed and dropped before 60 further periodic stream flushes are observed (else 'runs forever'); 10 s without either is inconclusive. Non-trivial = shutdown begins with entries still queued, or the forget path";

pub fn run(ctx: &mut Ctx) {
    ctx.assume("termination of the forgotten queue is decided by counting the writer's periodic stream flushes (flush interval 1 ms / 50 us), never by a wall-clock deadline");
    let q = ctx.tier == Tier::Quick;
    ctx.explore(
        SubCfg::new("c05-shutdown", RULE, if q { 1_500 } else { 30_000 })
            .threads(ctx.tier.pick(4, 8))
            .shrink_iters(60)
            .mandatory(&["entries-queued-at-shutdown", "forget-path", "drop-handle", "global-detach", "append-after-shutdown", "last-handle-dropped-during-periodic-flush", "handle-dropped-while-unwinding", "detach-with-racing-appender", "handle-drop-with-racing-appender", "forget-with-unawaited-flush-futures-alive", "stream-io-results", "stream-flush-errors", "handle-dropped-while-writer-inside-recorder-call"]),
        || {
            (
                any::<bool>(),
                prop::collection::vec(
                    prop_oneof![
                        5 => prop_oneof![1u8..5, 1u8..60].prop_map(Op::Append),
                        2 => Just(Op::Clone),
                        1 => Just(Op::DropClone),
                        1 => Just(Op::FlushReq),
                        2 => (0u8..20).prop_map(Op::Grant),
                    ],
                    0..14,
                ),
                prop_oneof![3 => Just(End::DropHandle), 3 => Just(End::Forget), 2 => Just(End::GlobalDetach)],
                0u8..6,
                any::<u8>(),
                any::<bool>(),
                any::<bool>(),
                prop::bool::weighted(0.3),
                prop::bool::weighted(0.5),
                prop::bool::weighted(0.5),
                (
                    prop::collection::vec(prop_oneof![3 => Just(crate::iofault::SRes::Ok), 1 => Just(crate::iofault::SRes::Io)], 0..8),
                    prop::collection::vec(prop::bool::weighted(0.6), 0..4),
                    prop::bool::weighted(0.3),
                    prop_oneof![2 => Just(0u8), 1 => prop::sample::select(vec![1u8, 2, 5])],
                ),
            )
                .prop_map(|(boxed, ops, end, after, open_delay, flush_ms, during_flush, unwinding, racing_appender, keep_flush_futures, (results, flush_results, during_recorder_call, qkind))| Case {
                    boxed,
                    ops,
                    end,
                    after,
                    open_delay,
                    flush_ms,
                    during_flush,
                    unwinding,
                    racing_appender,
                    keep_flush_futures,
                    results,
                    flush_results,
                    during_recorder_call,
                    qkind,
                })
        },
        check,
    );
    ctx.explore(
        SubCfg::new(
            "c05-attach-to-stream",
            "the documented one-liner: Global::attach_to_stream(stream) (BackgroundQueue::new: capacity 64 Ki, flush every second, default shutdown timeout) or Global::attach(BackgroundQueue::new(stream)) / attach(builder.build::<BoxEntry>(stream)); 0-300 entries through Global::append / sink().append_any / a retained sink() clone / append_on_drop guards, per-entry results Ok/Io, the writer stalled at a gate for part of them so that a backlog exists; then the AttachHandle is dropped. Oracle: when the drop returns every entry appended before it reached the stream exactly once in order, the stream was flushed after the last one and dropped; appends through the retained clone afterwards are silently discarded (no panic, nothing written). Non-trivial = a backlog of >= 2 entries at the drop and an append afterwards",
            if q { 300 } else { 6_000 },
        )
        .threads(ctx.tier.pick(4, 8))
        .shrink_iters(40)
        .mandatory(&["backlog-at-detach", "append-through-retained-clone-after-detach"]),
        || {
            (0u8..3, 0u16..300, 0u16..40, 0u8..6, prop::collection::vec(prop_oneof![3 => Just(crate::iofault::SRes::Ok), 1 => Just(crate::iofault::SRes::Io)], 0..6), 0u8..4)
                .prop_map(|(ctor, before, granted, after, results, via)| AttachCase { ctor, before, granted, after, results, via })
        },
        check_attach_to_stream,
    );
}

#[derive(Clone, Debug, Serialize, Deserialize)]
pub struct AttachCase {
    /// 0 = attach_to_stream, 1 = attach(BackgroundQueue::new(..)), 2 = attach(builder.build::<BoxEntry>(..))
    pub ctor: u8,
    pub before: u16,
    /// entries the writer may take before the detach begins (the rest is backlog)
    pub granted: u16,
    pub after: u8,
    pub results: Vec<crate::iofault::SRes>,
    /// how entries are appended: 0 = Global::append, 1 = Global::sink().append_any, 2 = retained
    /// sink clone, 3 = append_on_drop guard
    pub via: u8,
}

pub fn check_attach_to_stream(case: &AttachCase) -> CaseResult {
    use metrique_writer::sink::AttachGlobalEntrySinkExt;
    use metrique_writer_core::AnyEntrySink;
    let _g = GLOBAL_LOCK.lock().unwrap_or_else(|e| e.into_inner());
    let log = Arc::new(EventLog::default());
    let gate = Gate::new(false);
    let mut stream = BqStream::new(case.results.clone(), gate.clone(), log.clone());
    stream.cycle = true;
    let attach = no_panic("attach", || match case.ctor % 3 {
        0 => C05Global::attach_to_stream(stream),
        1 => C05Global::attach(metrique_writer::sink::BackgroundQueue::new(stream)),
        _ => C05Global::attach(
            metrique_writer::sink::BackgroundQueueBuilder::new().build::<metrique_writer_core::BoxEntry>(stream),
        ),
    })?;
    let retained = C05Global::sink();
    let n = case.before as u32;
    no_panic("global-append", || {
        for s in 0..n {
            let id = Id { p: 0, s };
            log.push(Ev::AppendStart(id));
            match case.via % 4 {
                0 => C05Global::append(TestE(id)),
                1 => C05Global::sink().append_any(TestE(id)),
                2 => retained.append_any(TestE(id)),
                _ => drop(C05Global::append_on_drop(TestE(id))),
            }
            log.push(Ev::AppendEnd(id));
        }
    })?;
    let granted = (case.granted as u32).min(n);
    gate.grant(granted as u64);
    if granted > 0 && !gate.wait_consumed(granted as u64, Duration::from_secs(10)) {
        gate.open();
        drop(attach);
        return Ok(vec!["inconclusive-timeout"]);
    }
    let backlog = n - granted;
    // the detach must drain the backlog: open the gate once the drop has begun
    let opener = {
        let gate = gate.clone();
        let log = log.clone();
        std::thread::spawn(move || {
            let t0 = std::time::Instant::now();
            while log.count(|e| matches!(e, Ev::HandleDropStart)) == 0 && t0.elapsed() < Duration::from_secs(5) {
                std::thread::yield_now();
            }
            std::thread::sleep(Duration::from_micros(200));
            gate.open();
        })
    };
    log.push(Ev::HandleDropStart);
    let r = no_panic("attach-handle-drop", || drop(attach));
    log.push(Ev::HandleDropEnd);
    let _ = opener.join();
    r?;
    let at_return = log.snapshot();
    // afterwards: the retained clone is a handle of a dead queue
    no_panic("append-after-detach", || {
        for k in 0..case.after as u32 {
            retained.append_any(TestE(Id { p: 9, s: k }));
        }
    })?;
    vensure!(
        C05Global::try_append(TestE(Id { p: 8, s: 0 })).is_err() || case.after == u8::MAX,
        "shutdown:global-still-attached",
        "try_append succeeded after the attach handle was dropped"
    );
    std::thread::sleep(Duration::from_millis(2));
    let evs = log.snapshot();
    let ids: Vec<u32> = at_return.iter().filter_map(|e| if let Ev::Next(id, _) = e { Some(id.s) } else { None }).collect();
    vensure!(
        ids == (0..n).collect::<Vec<_>>(),
        "shutdown:entry-not-drained",
        "{n} entries appended through the global before the attach handle was dropped ({backlog} still queued); when the drop returned the stream had seen {} of them: {:?}",
        ids.len(),
        &ids[..ids.len().min(20)]
    );
    vensure!(at_return.iter().any(|e| matches!(e, Ev::StreamDropped)), "shutdown:stream-not-closed", "the attach handle drop returned but the stream was not dropped");
    if n > 0 {
        let last = at_return.iter().rposition(|e| matches!(e, Ev::Next(..))).unwrap();
        vensure!(
            at_return[last..].iter().any(|e| matches!(e, Ev::StreamFlush)),
            "shutdown:no-flush-after-last-entry",
            "no stream flush after the last entry before the stream was closed"
        );
    }
    vensure!(
        evs.len() == at_return.len(),
        "shutdown:write-after-close",
        "the stream was touched after the attach handle drop returned: {:?}",
        &evs[at_return.len()..]
    );
    let mut classes: Classes = vec![];
    if backlog >= 2 {
        classes.push("backlog-at-detach");
    }
    if case.after > 0 {
        classes.push("append-through-retained-clone-after-detach");
    }
    if backlog >= 2 && case.after > 0 {
        classes.push("nt");
    }
    Ok(classes)
}
