//! C02 — EMF output is always complete, newline-framed, valid JSON records; a validation error
//! writes nothing.

use crate::emfh::*;
use crate::engine::*;
use metrique_writer_core::format::Format as _;
use metrique_writer_core::sample::SampledFormat as _;
use crate::model::*;
use crate::{vensure, vfail};
use proptest::prelude::*;
use serde::{Deserialize, Serialize};

#[derive(Clone, Debug, Serialize, Deserialize)]
pub struct Case {
    pub cfg: EmfCfg,
    pub entry: GenEntry,
    pub sampling: Sampling,
}

pub fn arb_rate_bits() -> impl Strategy<Value = u32> {
    prop_oneof![
        4 => (0u32..=70).prop_map(|k| (2f32).powi(-(k as i32)).to_bits()),
        3 => (1u32..2000).prop_map(|k| (1.0f32 / k as f32).to_bits()),
        3 => (0.0f32..=1.0f32).prop_map(|f| f.to_bits()),
        1 => any::<u32>().prop_map(|b| b & 0x7fff_ffff),
        1 => prop::sample::select(vec![0.0f32, -0.0, -1.0, f32::NAN, f32::INFINITY, 1.0, 1.5, f32::MIN_POSITIVE, 1e-45])
            .prop_map(|f| f.to_bits()),
    ]
}

pub fn arb_sampling() -> impl Strategy<Value = Sampling> {
    prop_oneof![
        5 => Just(Sampling::None),
        1 => Just(Sampling::SampledNoRate),
        4 => (arb_rate_bits(), prop::collection::vec(any::<u64>(), 0..3))
            .prop_map(|(rate_bits, words)| Sampling::Rate { rate_bits, words }),
    ]
}

pub fn arb_case() -> impl Strategy<Value = Case> {
    (arb_cfg_any(), arb_entry(), arb_sampling()).prop_map(|(cfg, entry, sampling)| Case {
        cfg,
        entry,
        sampling,
    })
}

fn needs_escape(s: &str) -> bool {
    s.chars().any(|c| c == '"' || c == '\\' || (c as u32) < 0x20 || (c as u32) > 0x7e)
}

/// position classes of skippable observations in a metric
fn skip_classes(obs: &[Obs], out: &mut Vec<&'static str>) {
    let n = obs.len();
    for (i, o) in obs.iter().enumerate() {
        if o.is_skipped() {
            if n == 1 {
                out.push("skip-only");
            } else if i == 0 {
                out.push("skip-first");
            } else if i == n - 1 {
                out.push("skip-last");
            } else {
                out.push("skip-middle");
            }
        }
    }
}

/// root-cause signature for an invalid-output failure, computed from the input
pub fn invalid_sig(entry: &GenEntry) -> &'static str {
    for op in &entry.ops {
        if let Op::Value {
            val: Val::Metric { obs, .. },
            ..
        } = op
        {
            // a written observation followed only by skipped ones
            if let Some(last_usable) = obs.iter().rposition(|o| !o.is_skipped()) {
                if last_usable + 1 < obs.len() {
                    return "invalid-json:skipped-observation-after-written-one-at-end";
                }
            }
        }
    }
    "invalid-json:other"
}

pub fn check(case: &Case) -> CaseResult {
    let mut out: Vec<u8> = vec![];
    let mut emf = no_panic("emf-build", || case.cfg.build())?;
    let dec = no_panic("emf-format", || {
        format_once(&mut emf, &case.entry, &case.sampling, &mut out)
    })?;
    let mut classes: Classes = vec![];
    match &dec {
        Decision::Ok => {
            classes.push("ok");
            let recs = match decode_output(&out) {
                Ok(r) => r,
                Err(e) => vfail!(
                    invalid_sig(&case.entry),
                    "format returned Ok but output is not valid framed EMF JSON: {e}\noutput={:?}",
                    String::from_utf8_lossy(&out)
                ),
            };
            vensure!(!recs.is_empty(), "no-record", "Ok but zero records");
            if recs.len() >= 2 {
                classes.push("multi-record");
            }
        }
        Decision::Validation(m) => {
            classes.push("validation");
            for (pat, cls) in [
                ("duplicate field", "rej-duplicate"),
                ("multiple timestamps", "rej-timestamps"),
                ("name can't be", "rej-name"),
                ("missing dimension", "rej-missing-dimension"),
                ("per-metric dimensions", "rej-no-split"),
                ("entry dimensions", "rej-entry-dimensions"),
                ("sample rate", "rej-sample-rate"),
                ("metric in dimension", "rej-metric-in-dimension"),
            ] {
                if m.contains(pat) {
                    classes.push(cls);
                }
            }
            vensure!(
                out.is_empty(),
                "validation-error-wrote-bytes",
                "validation error but {} bytes were written: {:?}",
                out.len(),
                String::from_utf8_lossy(&out)
            );
        }
        Decision::Io(e) => vfail!("io-on-vec", "Io error on a Vec writer: {e}"),
    }
    // classification
    let mut nt = classes.contains(&"multi-record");
    for op in &case.entry.ops {
        if let Op::Value { name, val } = op {
            if needs_escape(name) {
                classes.push("escape-name");
                nt = true;
            }
            match val {
                Val::Str(s) => {
                    if needs_escape(s) {
                        classes.push("escape-string");
                        nt = true;
                    }
                }
                Val::Metric { obs, .. } => {
                    let before = classes.len();
                    skip_classes(obs, &mut classes);
                    if obs.len() >= 2 && classes.len() > before {
                        nt = true;
                    }
                    for o in obs {
                        classes.push(match o {
                            Obs::U(_) => "obs-unsigned",
                            Obs::Fl(_) => "obs-floating",
                            Obs::Rep { occ: 0, .. } => "obs-repeated-zero-occ",
                            Obs::Rep { .. } => "obs-repeated",
                        });
                    }
                    if obs.is_empty() {
                        classes.push("obs-empty");
                    }
                }
                _ => {}
            }
        }
    }
    classes.push(match case.cfg.ctor {
        Ctor::AllValidations => "ctor-all",
        Ctor::NoValidations => "ctor-none",
        Ctor::Builder => "ctor-builder",
        Ctor::BuilderSkipTrue => "ctor-skip-true",
        Ctor::BuilderSkipFalse => "ctor-skip-false",
    });
    classes.push(match case.sampling {
        Sampling::None => "sampling-none",
        Sampling::SampledNoRate => "sampling-norate",
        Sampling::Rate { .. } => "sampling-rate",
    });
    if nt && matches!(dec, Decision::Ok) {
        classes.push("nt");
    }
    classes.sort();
    classes.dedup();
    Ok(classes)
}

pub const RULE: &str = "arbitrary entry (timestamp/config/value call sequences, colliding + arbitrary Unicode names, strings with quotes/backslashes/controls/astral chars, 0-5 observations incl. NaN/inf/-0/zero-occurrence in every position, all units incl. custom, per-metric dimensions, flags) x arbitrary Emf configuration (5 constructors, 1-3 namespaces, 1-3 dimension sets, extra directives, log group, ignored-dimension mode) x sampling (none / sampled-no-rate / rate incl. invalid). Oracle: Ok => strict RFC 8259 parse of every newline-terminated line + _aws shape; Validation => zero bytes; never panics. Non-trivial = accepted entry with (a metric of >=2 observations of which >=1 is skipped) or a name/string needing escaping or >=2 records";

/// one formatter, several entries, some over faulting writers: every accepted output must
/// still be complete valid records (state left behind by a failed call must not leak)
#[derive(Clone, Debug, Serialize, Deserialize)]
pub struct SeqCase {
    pub cfg: EmfCfg,
    pub items: Vec<(GenEntry, Option<crate::iofault::WScript>, Sampling)>,
    /// the long-lived formatter is a SampledEmf (state left by sampled calls stays in it)
    #[serde(default)]
    pub sampled_formatter: bool,
}

/// the long-lived formatter of a sequence
enum SeqFmt {
    Plain(metrique_writer_format_emf::Emf),
    Sampled(metrique_writer_format_emf::SampledEmf<ScriptRng>),
}
impl SeqFmt {
    fn run(&mut self, entry: &GenEntry, sampling: &Sampling, out: &mut impl std::io::Write) -> Decision {
        match self {
            SeqFmt::Plain(emf) => format_once(emf, entry, sampling, out),
            SeqFmt::Sampled(s) => {
                let p = entry.prepare();
                match sampling {
                    Sampling::None | Sampling::SampledNoRate => decision_of(s.format(&p, out)),
                    Sampling::Rate { rate_bits, .. } => decision_of(s.format_with_sample_rate(&p, out, f32::from_bits(*rate_bits))),
                }
            }
        }
    }
    /// the same entry through a copy of the formatter in its CURRENT state into a perfect writer
    /// (SampledEmf is not Clone: no twin there)
    fn clean_twin_output(&self, entry: &GenEntry, sampling: &Sampling) -> Option<(Decision, Vec<u8>)> {
        let mut out = vec![];
        match self {
            SeqFmt::Plain(emf) => {
                let d = format_once(&mut emf.clone(), entry, sampling, &mut out);
                Some((d, out))
            }
            SeqFmt::Sampled(_) => None,
        }
    }
}

pub fn check_seq(case: &SeqCase) -> CaseResult {
    use crate::iofault::{ScriptedWriter, WStep};
    let emf = no_panic("emf-build", || case.cfg.build())?;
    let mut emf = if case.sampled_formatter {
        SeqFmt::Sampled(emf.with_sampling_and_rng(ScriptRng::new(vec![0x9e37_79b9_7f4a_7c15, 3, u64::MAX, 0])))
    } else {
        SeqFmt::Plain(emf)
    };
    let mut classes: Classes = vec![];
    if case.sampled_formatter {
        classes.push("long-lived-sampled-formatter");
    }
    let mut prev_failed = false;
    for (i, (entry, script, sampling)) in case.items.iter().enumerate() {
        // what this call would write into a perfect writer, from the formatter's present state
        // (only needed when the real writer accepts in pieces; the sampled formatter's rng is
        // cloned with it, so the weight is the same)
        // (entries without a timestamp of their own take the clock: no byte comparison for them)
        let own_timestamp = entry.ops.iter().any(|o| matches!(o, Op::Timestamp { .. }));
        let clean = match script {
            Some(_) if own_timestamp => no_panic("emf-format-clean-twin", || emf.clean_twin_output(entry, sampling))?,
            _ => None,
        };
        let (dec, bytes, faulted) = match script {
            None => {
                let mut out = vec![];
                let d = no_panic("emf-format", || emf.run(entry, sampling, &mut out))?;
                (d, out, false)
            }
            Some(sc) => {
                let w = ScriptedWriter::new(sc.clone());
                let mut wr = w.clone();
                let d = no_panic("emf-format", || emf.run(entry, sampling, &mut wr))?;
                let faulted = w.calls().iter().any(|c| matches!(c.step, WStep::Zero | WStep::Hard(_)));
                (d, w.received(), faulted)
            }
        };
        match &dec {
            Decision::Ok => {
                vensure!(!faulted, "io:fault-not-surfaced", "item {i}: writer faulted but format returned Ok");
                if let Err(e) = decode_output(&bytes) {
                    vfail!(
                        if prev_failed { "invalid-json:after-failed-call" } else { invalid_sig(entry) },
                        "item {i} (previous call failed: {prev_failed}): format returned Ok but the bytes are not complete valid EMF records: {e}\noutput={:?}",
                        String::from_utf8_lossy(&bytes[..bytes.len().min(2000)])
                    );
                }
                // short writes / retries must not change a single byte: the lines equal those of a
                // clean write from the same formatter state
                if let Some((cd, cbytes)) = &clean {
                    if *cd == Decision::Ok && lines_multiset(cbytes) != lines_multiset(&bytes) {
                        vfail!(
                            "io:torn-or-duplicated-output",
                            "item {i}: format returned Ok over a writer that accepts in pieces, but the bytes differ from a clean write of the same call\npieces={:?}\nclean ={:?}",
                            String::from_utf8_lossy(&bytes[..bytes.len().min(1500)]),
                            String::from_utf8_lossy(&cbytes[..cbytes.len().min(1500)])
                        );
                    }
                    classes.push("ok-over-piecewise-writer-compared-with-clean-write");
                }
                if prev_failed {
                    classes.push("accepted-after-failed-call");
                    classes.push("nt");
                }
                prev_failed = false;
            }
            Decision::Validation(_) => {
                vensure!(bytes.is_empty(), "validation-error-wrote-bytes", "item {i}: validation error but {} bytes written", bytes.len());
                classes.push("validation");
                prev_failed = true;
            }
            Decision::Io(_) => {
                classes.push("io-failed");
                prev_failed = true;
            }
        }
    }
    classes.sort();
    classes.dedup();
    Ok(classes)
}

/// a multi-megabyte entry on a long-lived formatter, then ordinary entries: framing must survive
/// the formatter's buffer housekeeping (buffers above 1 MiB are given back)
#[derive(Clone, Debug, Serialize, Deserialize)]
pub struct HugeSeqCase {
    pub cfg: EmfCfg,
    pub tag: u8,
    pub mb_tenths: u8,
    pub small_before: Vec<GenEntry>,
    pub small_after: Vec<GenEntry>,
    pub sampled_formatter: bool,
}

pub fn check_huge_seq(case: &HugeSeqCase) -> CaseResult {
    let emf = no_panic("emf-build", || case.cfg.build())?;
    let mut emf = if case.sampled_formatter {
        SeqFmt::Sampled(emf.with_sampling_and_rng(ScriptRng::new(vec![5, 0])))
    } else {
        SeqFmt::Plain(emf)
    };
    let huge = super::c14::huge_entry(case.mb_tenths, case.tag);
    let mut items: Vec<(&GenEntry, &'static str)> = case.small_before.iter().map(|e| (e, "before")).collect();
    items.push((&huge, "huge"));
    items.extend(case.small_after.iter().map(|e| (e, "after")));
    let mut classes: Classes = vec![];
    let mut huge_ok = false;
    for (i, (entry, what)) in items.iter().enumerate() {
        let mut out = vec![];
        let d = no_panic("emf-format", || emf.run(entry, &Sampling::None, &mut out))?;
        match d {
            Decision::Ok => {
                if let Err(e) = decode_output(&out) {
                    vfail!(
                        if *what == "after" && huge_ok { "invalid-json:after-huge-entry" } else { invalid_sig(entry) },
                        "item {i} ({what}; a {:.1} MB entry of kind {} was formatted before: {huge_ok}): format returned Ok but the bytes are not complete valid EMF records: {e}\noutput head={:?}",
                        1.1 + (case.mb_tenths % 20) as f64 / 10.0,
                        case.tag % 4,
                        String::from_utf8_lossy(&out[..out.len().min(600)])
                    );
                }
                if *what == "huge" {
                    huge_ok = true;
                }
                if *what == "after" && huge_ok {
                    classes.push("accepted-after-huge-entry");
                    classes.push("nt");
                }
            }
            Decision::Validation(_) => {
                vensure!(out.is_empty(), "validation-error-wrote-bytes", "item {i}: validation error but {} bytes written", out.len());
            }
            Decision::Io(e) => vfail!("io-error-on-vec", "item {i}: {e}"),
        }
    }
    classes.push(match case.tag % 4 {
        0 => "huge-string-property",
        1 => "huge-many-long-metric-names",
        2 => "huge-many-repeated-observations",
        _ => "huge-split-dimension-values",
    });
    classes.sort();
    classes.dedup();
    Ok(classes)
}

pub fn run(ctx: &mut Ctx) {
    ctx.assume("writer is an in-memory Vec (I/O errors are covered by C16)");
    ctx.assume("strict JSON parser in vh::json is the syntax oracle (RFC 8259, duplicate members visible, no trailing commas)");
    let cases = ctx.tier.pick(200_000, 4_000_000);
    let threads = ctx.tier.pick(8, 16);
    ctx.explore(
        SubCfg::new("emf-valid-json", RULE, cases)
            .threads(threads)
            .mandatory(&[
                "skip-only",
                "skip-first",
                "skip-middle",
                "skip-last",
                "obs-unsigned",
                "obs-floating",
                "obs-repeated",
                "obs-repeated-zero-occ",
                "obs-empty",
                "ctor-all",
                "ctor-none",
                "ctor-builder",
                "ctor-skip-true",
                "ctor-skip-false",
                "sampling-rate",
                "multi-record",
                "validation",
            ]),
        arb_case,
        check,
    );
    ctx.explore(
        SubCfg::new(
            "emf-valid-json-sequence",
            "2-8 arbitrary entries formatted by ONE formatter (an Emf, or - 35% - a long-lived SampledEmf), each into a Vec or a scripted writer (short writes incl. first-slice-only / Interrupted / Ok(0) / hard errors), with or without sampling: every call that returns Ok must have produced complete valid framed records, a validation error zero bytes - whatever the previous calls did; an Ok over a piecewise writer must equal, line for line, a clean write of the same call from a copy of the formatter. Non-trivial = an accepted entry directly after a call that failed (validation or I/O)",
            ctx.tier.pick(30_000, 1_000_000),
        )
        .threads(threads)
        .mandatory(&["accepted-after-failed-call", "io-failed", "validation", "long-lived-sampled-formatter", "ok-over-piecewise-writer-compared-with-clean-write"]),
        || {
            (
                arb_cfg_any(),
                prop::collection::vec(
                    (arb_entry(), prop::option::weighted(0.35, crate::iofault::arb_wscript()), arb_sampling()),
                    2..8,
                ),
                prop::bool::weighted(0.35),
            )
                .prop_map(|(cfg, items, sampled_formatter)| SeqCase { cfg, items, sampled_formatter })
        },
        check_seq,
    );
    ctx.explore(
        SubCfg::new(
            "emf-valid-json-after-huge-entry",
            "ONE long-lived formatter (Emf or SampledEmf), validations off: 0-2 valid entries, then a 1.1-3.0 MB entry (multi-megabyte string / thousands of long-named metrics / >100 000 repeated observations / split records with megabyte dimension values), then 1-3 valid entries. Oracle: every Ok output is complete valid framed records. Non-trivial = an entry accepted after the huge one",
            ctx.tier.pick(40, 1_200),
        )
        .threads(ctx.tier.pick(4, 8))
        .shrink_iters(10)
        .mandatory(&["accepted-after-huge-entry", "huge-string-property", "huge-many-long-metric-names", "huge-many-repeated-observations", "huge-split-dimension-values"]),
        || {
            (any::<u8>(), any::<u8>(), crate::emfgen::arb_valid_seq(2..6, true), any::<bool>(), 0usize..3).prop_map(|(tag, mb_tenths, (mut cfg, mut entries), sampled_formatter, nb)| {
                // the huge entries are written for a formatter that does not validate
                cfg.ctor = Ctor::NoValidations;
                let nb = nb.min(entries.len() - 1);
                let small_after = entries.split_off(nb);
                HugeSeqCase { cfg, tag, mb_tenths, small_before: entries, small_after, sampled_formatter }
            })
        },
        check_huge_seq,
    );
}
