use crate::engine::Ctx;

pub mod c02;

pub fn run(id: &str, ctx: &mut Ctx) -> bool {
    match id {
        "C02" => c02::run(ctx),
        _ => return false,
    }
    true
}
