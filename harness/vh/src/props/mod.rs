use crate::engine::Ctx;

pub mod c02;
pub mod c03;
pub mod c08;

pub fn run(id: &str, ctx: &mut Ctx) -> bool {
    match id {
        "C02" => c02::run(ctx),
        "C03" => c03::run(ctx),
        "C08" => c08::run(ctx),
        _ => return false,
    }
    true
}
