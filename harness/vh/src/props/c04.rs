//! C04 — a completed flush means everything appended before it is written and flushed; it
//! completes after bounded writer progress; immediately after shutdown.

use crate::bq::*;
use crate::engine::*;
use crate::iofault::SRes;
use crate::{vensure, vfail};
use proptest::prelude::*;
use serde::{Deserialize, Serialize};
use std::collections::{BTreeSet, VecDeque};
use std::sync::Arc;
use std::time::Duration;

// ---------------------------------------------------------------------------------------------
// barrier oracle over an event log (shared with C01/C05/C09 drivers)

/// For every completed flush f: each entry e with AppendEnd(e) before FlushReq(f) in the log has
/// Next(e) before FlushDone(f) -- or never reached the stream at all and may have been displaced
/// (>= capacity appends ended after its append started) -- and a StreamFlush lies between the last
/// such Next and FlushDone(f).
pub fn check_flush_barrier(evs: &[Ev], capacity: usize) -> Result<usize, Fail> {
    let pos_of = |pred: &dyn Fn(&Ev) -> bool| evs.iter().position(|e| pred(e));
    let mut checked = 0;
    for (di, ev) in evs.iter().enumerate() {
        let Ev::FlushDone(f) = ev else { continue };
        let Some(ri) = pos_of(&|e| matches!(e, Ev::FlushReq(x) if x == f)) else {
            continue;
        };
        let mut last_next: Option<usize> = None;
        for (ai, a) in evs[..ri].iter().enumerate() {
            let Ev::AppendEnd(id) = a else { continue };
            match pos_of(&|e| matches!(e, Ev::Next(x, _) if x == id)) {
                Some(ni) => {
                    vensure!(
                        ni < di,
                        "flush:completed-before-earlier-entry-was-written",
                        "flush {f} completed (log index {di}) before entry {id:?}, appended before the request (append ended at {ai} < request at {ri}), reached the stream (at {ni})"
                    );
                    last_next = Some(last_next.map_or(ni, |l: usize| l.max(ni)));
                }
                None => {
                    // never delivered: only legal if it was displaced by overflow
                    let start = pos_of(&|e| matches!(e, Ev::AppendStart(x) if x == id)).unwrap_or(ai);
                    // ... and by the time the flush completed: whatever is appended after the
                    // completion cannot have pushed this entry out before it
                    let later = evs[start..di.max(start)].iter().filter(|e| matches!(e, Ev::AppendEnd(x) if x != id)).count();
                    vensure!(
                        later >= capacity,
                        "flush:entry-neither-written-nor-displaced",
                        "flush {f} completed but entry {id:?} (appended before the request) never reached the stream and only {later} entries were appended between its append and the completion (capacity {capacity})"
                    );
                }
            }
        }
        if let Some(ln) = last_next {
            vensure!(
                evs[ln..di].iter().any(|e| matches!(e, Ev::StreamFlush)),
                "flush:stream-not-flushed-before-completion",
                "flush {f} completed without a stream flush after the last entry appended before the request (Next at {ln}, done at {di})"
            );
        }
        checked += 1;
    }
    Ok(checked)
}

// ---------------------------------------------------------------------------------------------
// level 1: the real WakerTracker driven step by step (hook H2a)

#[derive(Clone, Copy, Debug, PartialEq, Serialize, Deserialize)]
pub enum Step {
    Push(u8),
    SendFlush,
    /// pop until empty and report Drained
    DrainAll,
    /// pop 32*j entries (needs that many queued) and report HitDeadline
    DrainDeadline(u8),
    /// call handle_waiting_wakers with the pending drain result (or (Drained,0) on an empty queue)
    Handle,
    CheckS2,
}

#[derive(Clone, Debug, Serialize, Deserialize)]
pub struct SmCase {
    pub capacity: u8,
    pub steps: Vec<Step>,
}

#[cfg(metrique_verif)]
pub fn check_sm(case: &SmCase) -> CaseResult {
    use metrique_writer::sink::__verif_background::WakerTrackerDriver;
    let cap = case.capacity.max(1) as usize;
    let mut d = WakerTrackerDriver::default();
    let mut queue: VecDeque<u64> = VecDeque::new();
    let mut next_id = 0u64;
    let mut gone: BTreeSet<u64> = BTreeSet::new(); // popped or displaced
    struct Req {
        rx: tokio::sync::oneshot::Receiver<()>,
        watermark: u64,
        woken: bool,
        handles_seen: u32,
        drained_handles: u32,
        deadline_pops: u64,
    }
    let mut reqs: Vec<Req> = vec![];
    let mut pending: Option<(bool, usize)> = None;
    let mut classes: Classes = vec![];
    let closed = |rx: &mut tokio::sync::oneshot::Receiver<()>| {
        matches!(rx.try_recv(), Err(tokio::sync::oneshot::error::TryRecvError::Closed))
    };
    let mut do_handle = |d: &mut WakerTrackerDriver,
                         reqs: &mut Vec<Req>,
                         queue: &VecDeque<u64>,
                         gone: &BTreeSet<u64>,
                         drained: bool,
                         count: usize,
                         classes: &mut Classes|
     -> Result<usize, Fail> {
        let open_before: Vec<usize> = (0..reqs.len()).filter(|i| !reqs[*i].woken).collect();
        let mut flushed = false;
        let mut woke_before_flush = false;
        {
            // the flush callback must run while every waiting receiver is still open
            let reqs_ptr: *mut Vec<Req> = reqs;
            d.handle(
                cap,
                || {
                    flushed = true;
                    let reqs = unsafe { &mut *reqs_ptr };
                    for i in &open_before {
                        if matches!(
                            reqs[*i].rx.try_recv(),
                            Err(tokio::sync::oneshot::error::TryRecvError::Closed)
                        ) {
                            woke_before_flush = true;
                        }
                    }
                },
                drained,
                count,
            );
        }
        vensure!(
            !woke_before_flush,
            "flush:woken-before-stream-flush",
            "a flush waiter was woken before the stream flush ran"
        );
        let mut woken_now = 0;
        for i in open_before {
            let r = &mut reqs[i];
            r.handles_seen += 1;
            if drained {
                r.drained_handles += 1;
            } else {
                r.deadline_pops += count as u64;
            }
            if closed(&mut r.rx) {
                r.woken = true;
                woken_now += 1;
                // S1
                vensure!(
                    flushed,
                    "flush:woken-without-stream-flush",
                    "a flush waiter was woken by a handle call that did not flush the stream"
                );
                for id in 0..r.watermark {
                    vensure!(
                        gone.contains(&id) && !queue.contains(&id),
                        "flush:completed-before-earlier-entry-was-written",
                        "flush requested after entry {id} was pushed completed while that entry is still queued (capacity {cap}, queue {queue:?})"
                    );
                }
            } else {
                // L1 (by counting, never by time)
                vensure!(
                    r.drained_handles < 2,
                    "flush:not-completed-after-drained-queue",
                    "flush still pending after {} handle calls that saw a drained queue",
                    r.drained_handles
                );
                vensure!(
                    r.deadline_pops < 2 * cap as u64 + 64,
                    "flush:not-completed-after-bounded-progress",
                    "flush still pending after {} entries were written since it was requested (capacity {cap})",
                    r.deadline_pops
                );
            }
        }
        if woken_now > 0 {
            classes.push("woken");
        }
        Ok(woken_now)
    };
    for st in &case.steps {
        match *st {
            Step::Push(n) => {
                for _ in 0..n.max(1) {
                    if queue.len() == cap {
                        let old = queue.pop_front().unwrap();
                        gone.insert(old);
                        classes.push("overflow");
                    }
                    queue.push_back(next_id);
                    next_id += 1;
                }
            }
            Step::SendFlush => {
                if reqs.iter().any(|r| !r.woken) {
                    classes.push("overlapping-flushes");
                    if !queue.is_empty() {
                        classes.push("nt");
                    }
                }
                reqs.push(Req {
                    rx: d.send_flush(),
                    watermark: next_id,
                    woken: false,
                    handles_seen: 0,
                    drained_handles: 0,
                    deadline_pops: 0,
                });
            }
            Step::DrainAll => {
                if pending.is_none() {
                    let n = queue.len();
                    for id in queue.drain(..) {
                        gone.insert(id);
                    }
                    pending = Some((true, n));
                }
            }
            Step::DrainDeadline(j) => {
                let n = 32 * (j.max(1) as usize);
                // HitDeadline leaves at least... nothing required; but count must be a positive
                // multiple of 32 (the code's documented precondition)
                if pending.is_none() && queue.len() >= n {
                    for _ in 0..n {
                        gone.insert(queue.pop_front().unwrap());
                    }
                    pending = Some((false, n));
                    classes.push("hit-deadline");
                }
            }
            Step::Handle => {
                let (drained, count) = match pending.take() {
                    Some(p) => p,
                    None => {
                        if !queue.is_empty() {
                            continue; // P1: cannot claim Drained
                        }
                        (true, 0)
                    }
                };
                do_handle(&mut d, &mut reqs, &queue, &gone, drained, count, &mut classes)?;
            }
            Step::CheckS2 => {
                if pending.is_none() && queue.is_empty() && d.will_progress_on_drained_queue() {
                    let w = do_handle(&mut d, &mut reqs, &queue, &gone, true, 0, &mut classes)?;
                    vensure!(
                        w > 0,
                        "flush:busy-loop",
                        "will_progress_on_drained_queue() was true but handling a drained queue woke nobody"
                    );
                    classes.push("s2-checked");
                }
            }
        }
    }
    // wind down: two drained handles must wake everything
    for id in queue.drain(..) {
        gone.insert(id);
    }
    do_handle(&mut d, &mut reqs, &queue, &gone, true, 0, &mut classes)?;
    do_handle(&mut d, &mut reqs, &queue, &gone, true, 0, &mut classes)?;
    for r in reqs.iter_mut() {
        vensure!(
            r.woken || closed(&mut r.rx),
            "flush:not-completed-after-drained-queue",
            "flush still pending after the queue was drained and handled twice"
        );
    }
    classes.sort();
    classes.dedup();
    Ok(classes)
}

#[cfg(not(metrique_verif))]
pub fn check_sm(_case: &SmCase) -> CaseResult {
    Err(Fail::new("harness:hooks-off", "built without --cfg metrique_verif"))
}

// ---------------------------------------------------------------------------------------------
// level 2: real queue, real threads

#[derive(Clone, Debug, Serialize, Deserialize)]
pub struct ThreadCase {
    pub capacity: u8,
    pub boxed: bool,
    /// entries appended before the flush request
    pub before: u8,
    /// producer keeps appending 2 entries per consumed entry after the request
    pub busy: bool,
    /// fuel granted before the request
    pub pre_fuel: u8,
    pub second_request_after: Option<u8>,
    pub jitter: Vec<u8>,
    /// what the stream answers to every entry: 0 = Ok, 1 = Io, 2 = Validation, 3 = Ok/Io
    /// alternating, 4 = Validation/Ok/Io cycling. Bounded completion is counted in entries the
    /// writer POPPED and handed to the stream, whatever the stream said about them.
    #[serde(default)]
    pub fail_mode: u8,
    /// how the queue is built / addressed (c01::build_queue_kind; the all-defaults kind is left
    /// out because the progress bound is stated in terms of the configured capacity)
    #[serde(default)]
    pub qkind: u8,
    /// stream.flush() answers: every second call fails (waiters must still be released)
    #[serde(default)]
    pub flush_fails: bool,
}

pub fn check_thread(case: &ThreadCase) -> CaseResult {
    let cap = case.capacity.max(1) as usize;
    let log = Arc::new(EventLog::default());
    let gate = Gate::new(false);
    let results = match case.fail_mode % 5 {
        0 => vec![],
        1 => vec![SRes::Io],
        2 => vec![SRes::Validation],
        3 => vec![SRes::Ok, SRes::Io],
        _ => vec![SRes::Validation, SRes::Ok, SRes::Io],
    };
    let mut stream = BqStream::new(results, gate.clone(), log.clone());
    stream.cycle = true;
    stream.jitter = case.jitter.clone();
    if case.flush_fails {
        stream.flush_ok = vec![false, true];
    }
    // 1 us flush interval: the writer reports HitDeadline every 32 pops
    let qkind = [0u8, 1, 2, 4, 5][case.qkind as usize % 5];
    let (q, handle) = super::c01::build_queue_kind(qkind, cap, case.boxed, Duration::from_micros(1), stream);
    let mut seq = 0u32;
    let mut append = |n: usize, seq: &mut u32| {
        for _ in 0..n {
            let id = Id { p: 0, s: *seq };
            *seq += 1;
            log.push(Ev::AppendStart(id));
            q.append(TestE(id));
            log.push(Ev::AppendEnd(id));
        }
    };
    append(case.before as usize, &mut seq);
    gate.grant(case.pre_fuel as u64);
    jitter(case.jitter.first().copied().unwrap_or(0));
    log.push(Ev::FlushReq(0));
    let mut f0 = Box::pin(q.flush_async());
    let consumed_at_req = gate.consumed();
    let mut f1 = None;
    let mut classes: Classes = vec![];
    let bound = cap as u64 + 128 + 2;
    let mut done0 = false;
    let mut done1 = false;
    let mut granted = 0u64;
    // drive: one fuel unit at a time; with `busy` two appends per unit keep the queue non-empty
    if case.busy {
        loop {
            if !done0 && poll_once(f0.as_mut()).is_ready() {
                log.push(Ev::FlushDone(0));
                done0 = true;
            }
            if let Some(f) = f1.as_mut() {
                let f: &mut std::pin::Pin<Box<metrique_writer_core::sink::FlushWait>> = f;
                if !done1 && poll_once(f.as_mut()).is_ready() {
                    log.push(Ev::FlushDone(1));
                    done1 = true;
                }
            }
            if done0 && (f1.is_none() || done1) {
                break;
            }
            if gate.consumed() - consumed_at_req > 2 * bound + 64 {
                break;
            }
            append(2, &mut seq);
            if let Some(k) = case.second_request_after {
                if f1.is_none() && granted >= k as u64 {
                    log.push(Ev::FlushReq(1));
                    f1 = Some(Box::pin(q.flush_async()));
                    classes.push("second-request-while-first-pending");
                }
            }
            let before = gate.consumed();
            gate.grant(1);
            granted += 1;
            // the queue is non-empty, so the writer must take the unit
            if !gate.wait_consumed(before + 1, Duration::from_secs(20)) {
                return Ok(vec!["inconclusive-timeout"]);
            }
            // give the writer a moment to run handle_waiting_wakers after the pop
            jitter(case.jitter.get(granted as usize % case.jitter.len().max(1)).copied().unwrap_or(4));
        }
        if !done0 {
            // the bound is in written entries; allow the handle call that follows the last pop
            std::thread::sleep(Duration::from_millis(20));
            if poll_once(f0.as_mut()).is_ready() {
                log.push(Ev::FlushDone(0));
                done0 = gate.consumed() - consumed_at_req <= 2 * bound + 64 + 1;
            }
        }
    } else {
        if let Some(k) = case.second_request_after {
            gate.grant(k as u64);
            log.push(Ev::FlushReq(1));
            f1 = Some(Box::pin(q.flush_async()));
        }
        gate.grant(case.before as u64 + 4);
        if block_on_timeout(f0.as_mut(), Duration::from_secs(4)).is_some() {
            log.push(Ev::FlushDone(0));
            done0 = true;
        }
        if let Some(f) = f1.as_mut() {
            if block_on_timeout(f.as_mut(), Duration::from_secs(4)).is_some() {
                log.push(Ev::FlushDone(1));
            }
        }
        let _ = (done1, granted);
    }
    let consumed = gate.consumed() - consumed_at_req;
    if case.busy {
        vensure!(
            done0,
            "flush:not-completed-after-bounded-progress",
            "producers kept the queue non-empty; the writer wrote {consumed} entries after the flush request (capacity {cap}, bound {}) and the flush is still pending",
            2 * bound + 64
        );
        classes.push("busy-queue");
        classes.push("nt");
    } else if !done0 {
        return Ok(vec!["inconclusive-idle-flush"]);
    }
    gate.open();
    log.push(Ev::HandleDropStart);
    drop(f0);
    no_panic("queue-shutdown", || handle.shut_down())?;
    log.push(Ev::HandleDropEnd);
    // after shutdown a new flush is complete at once
    let mut after = Box::pin(q.flush_async());
    vensure!(
        poll_once(after.as_mut()).is_ready(),
        "flush:not-immediate-after-shutdown",
        "flush requested after the queue shut down is not ready on first poll"
    );
    let evs = log.snapshot();
    check_flush_barrier(&evs, cap)?;
    if case.before as usize > cap {
        classes.push("overflow-before-request");
    }
    if case.fail_mode % 5 != 0 && case.busy {
        classes.push("busy-queue-over-a-failing-stream");
    }
    classes.sort();
    classes.dedup();
    Ok(classes)
}

#[allow(dead_code)]
fn _s(_: SRes) {}

// ---------------------------------------------------------------------------------------------
// many outstanding requests, from several threads, while the writer is busy inside the stream

#[derive(Clone, Debug, Serialize, Deserialize)]
pub struct ManyCase {
    pub capacity: u8,
    pub boxed: bool,
    pub before: u8,
    pub threads: u8,
    pub per_thread: u8,
    pub jitter: Vec<u8>,
    /// 30 s flush interval: the periodic stream flush cannot fire during the case, so the only
    /// stream flush that can stand between the last entry and a completion is the one the writer
    /// performs for the waiters
    #[serde(default)]
    pub long_interval: bool,
    /// shut_down() is called while the requests are still pending; they are awaited afterwards
    #[serde(default)]
    pub shutdown_first: bool,
    #[serde(default)]
    pub qkind: u8,
    #[serde(default)]
    pub flush_fails: bool,
}

pub fn check_many(case: &ManyCase) -> CaseResult {
    let cap = case.capacity.max(1) as usize;
    let log = Arc::new(EventLog::default());
    let gate = Gate::new(false);
    let mut stream = BqStream::new(vec![], gate.clone(), log.clone());
    // every entry takes ~50 us in the stream: the drain of a backlog is slow enough for the
    // completion watcher below to see a request complete BEFORE the entries it covers were written
    stream.jitter = vec![47];
    let interval = if case.long_interval { Duration::from_secs(30) } else { Duration::from_millis(1) };
    let before = case.before.max(1) as usize + if case.shutdown_first { case.capacity as usize * 3 } else { 0 };
    if case.flush_fails {
        stream.flush_ok = vec![false, true];
        stream.cycle = true;
    }
    let qkind = [0u8, 1, 2, 4, 5][case.qkind as usize % 5];
    let (q, handle) = super::c01::build_queue_kind(qkind, cap.max(before + 1), case.boxed, interval, stream);
    for s in 0..before {
        let id = Id { p: 0, s: s as u32 };
        log.push(Ev::AppendStart(id));
        q.append(TestE(id));
        log.push(Ev::AppendEnd(id));
    }
    // the writer is now held inside stream.next() for the first entry: requests pile up unread
    if !gate.wait_blocked(Duration::from_secs(5)) {
        gate.open();
        let _ = no_panic("queue-shutdown", || handle.shut_down());
        return Ok(vec!["inconclusive-timeout"]);
    }
    let nt = (case.threads % 4 + 1) as usize;
    let per = case.per_thread as usize;
    let counter = std::sync::atomic::AtomicU32::new(0);
    let futures: Vec<(u32, std::pin::Pin<Box<metrique_writer_core::sink::FlushWait>>)> = std::thread::scope(|s| {
        let hs: Vec<_> = (0..nt)
            .map(|t| {
                let q = q.clone();
                let log = log.clone();
                let counter = &counter;
                let jit = case.jitter.clone();
                s.spawn(move || {
                    let mut mine = vec![];
                    for k in 0..per {
                        if !jit.is_empty() {
                            jitter(jit[(t + k) % jit.len()]);
                        }
                        let i = counter.fetch_add(1, std::sync::atomic::Ordering::SeqCst);
                        log.push(Ev::FlushReq(i));
                        let mut f = Box::pin(q.flush_async());
                        // nothing has been written: a request that is already complete broke the barrier
                        if poll_once(f.as_mut()).is_ready() {
                            log.push(Ev::FlushDone(i));
                        } else {
                            mine.push((i, f));
                        }
                    }
                    mine
                })
            })
            .collect();
        hs.into_iter().flat_map(|h| h.join().unwrap_or_default()).collect()
    });
    let total = counter.load(std::sync::atomic::Ordering::SeqCst) as usize;
    gate.open();
    let mut classes: Classes = vec![];
    let mut q = Some(q);
    let mut handle = Some(handle);
    // completions are logged by a watcher AS THEY HAPPEN (polling every request in turn), not when
    // the controller gets round to awaiting them: a request that completes while entries appended
    // before it are still queued is seen as such
    let n_futures = futures.len();
    let watcher = {
        let log = log.clone();
        std::thread::spawn(move || {
            let mut pending = futures;
            let t0 = std::time::Instant::now();
            while !pending.is_empty() && t0.elapsed() < Duration::from_secs(10) {
                pending.retain_mut(|(i, f)| {
                    if poll_once(f.as_mut()).is_ready() {
                        log.push(Ev::FlushDone(*i));
                        false
                    } else {
                        true
                    }
                });
                std::thread::yield_now();
            }
            pending.len()
        })
    };
    if case.shutdown_first {
        // the requests are pending (or at most being handled): shutdown drains, flushes, and
        // every one of them completes - none before its barrier
        drop(q.take());
        log.push(Ev::HandleDropStart);
        no_panic("queue-shutdown", || handle.take().unwrap().shut_down())?;
        log.push(Ev::HandleDropEnd);
        classes.push("shutdown-with-requests-pending");
        if before > 32 {
            classes.push("shutdown-with-requests-pending-and-a-backlog-over-32");
        }
    }
    let still_pending = watcher.join().unwrap_or(n_futures);
    if still_pending > 0 {
        if let Some(h) = handle.take() {
            let _ = no_panic("queue-shutdown", || h.shut_down());
            return Ok(vec!["inconclusive-timeout"]);
        }
        vfail!(
            "flush:never-completes-after-shutdown",
            "{still_pending} flush request(s) were pending when shut_down() was called; shut_down() returned and they still have not completed"
        );
    }
    check_flush_barrier(&log.snapshot(), usize::MAX)?;
    drop(q.take());
    if let Some(h) = handle.take() {
        no_panic("queue-shutdown", || h.shut_down())?;
    }
    if case.long_interval {
        classes.push("no-periodic-stream-flush-possible");
    }
    if total > 32 {
        classes.push("more-than-32-requests-outstanding");
        classes.push("nt");
    }
    if total > 128 {
        classes.push("more-than-128-requests-outstanding");
    }
    if nt > 1 {
        classes.push("requests-from-several-threads");
    }
    Ok(classes)
}

/// a flush request that arrives, with a backlog appended just before it, while the writer is
/// INSIDE the stream flush it performs for an earlier request
#[derive(Clone, Debug, Serialize, Deserialize)]
pub struct DuringFlushCase {
    pub boxed: bool,
    pub qkind: u8,
    /// entries before the first request
    pub k1: u8,
    /// entries appended while the writer is held inside stream.flush(), before the second request
    pub m: u16,
    /// spare capacity beyond k1 + m
    pub spare: u8,
    pub long_interval: bool,
    /// entries appended after the second request (they may or may not be written before it completes)
    pub after: u8,
}

pub fn check_during_flush(case: &DuringFlushCase) -> CaseResult {
    let log = Arc::new(EventLog::default());
    let gate = Gate::new(true);
    let mut stream = BqStream::new(vec![], gate.clone(), log.clone());
    // ~50 us per entry: an early completion is seen by the watcher while the backlog is still queued
    stream.jitter = vec![47];
    let hold = Arc::new(FlushHold::default());
    stream.flush_hold = Some(hold.clone());
    let k1 = case.k1.max(1) as usize;
    let m = case.m.max(1) as usize;
    let cap = k1 + m + case.after as usize + case.spare as usize + 1;
    let interval = if case.long_interval { Duration::from_secs(30) } else { Duration::from_millis(1) };
    let qkind = [0u8, 1, 2, 4, 5][case.qkind as usize % 5];
    let (q, handle) = super::c01::build_queue_kind(qkind, cap, case.boxed, interval, stream);
    let mut seq = 0u32;
    let mut append = |n: usize| {
        for _ in 0..n {
            let id = Id { p: 0, s: seq };
            seq += 1;
            log.push(Ev::AppendStart(id));
            q.append(TestE(id));
            log.push(Ev::AppendEnd(id));
        }
    };
    append(k1);
    hold.arm();
    log.push(Ev::FlushReq(1));
    let mut f1 = Box::pin(q.flush_async());
    if poll_once(f1.as_mut()).is_ready() {
        log.push(Ev::FlushDone(1));
    }
    if !hold.wait_in_flush(Duration::from_secs(5)) {
        hold.release();
        let _ = no_panic("queue-shutdown", || handle.shut_down());
        return Ok(vec!["inconclusive-timeout"]);
    }
    // the writer sits inside stream.flush() (for request 1 or a periodic flush): a backlog and a
    // second request arrive meanwhile
    append(m);
    log.push(Ev::FlushReq(2));
    let mut f2 = Box::pin(q.flush_async());
    let f2_ready = poll_once(f2.as_mut()).is_ready();
    if f2_ready {
        log.push(Ev::FlushDone(2));
    }
    append(case.after as usize);
    let watcher = {
        let log = log.clone();
        let f1_done = log.count(|e| matches!(e, Ev::FlushDone(1))) > 0;
        std::thread::spawn(move || {
            let mut pending: Vec<(u32, std::pin::Pin<Box<metrique_writer_core::sink::FlushWait>>)> = vec![];
            if !f1_done {
                pending.push((1, f1));
            }
            if !f2_ready {
                pending.push((2, f2));
            }
            let t0 = std::time::Instant::now();
            while !pending.is_empty() && t0.elapsed() < Duration::from_secs(15) {
                pending.retain_mut(|(i, f)| {
                    if poll_once(f.as_mut()).is_ready() {
                        log.push(Ev::FlushDone(*i));
                        false
                    } else {
                        true
                    }
                });
                std::thread::yield_now();
            }
            pending.len()
        })
    };
    hold.release();
    let still = watcher.join().unwrap_or(2);
    drop(q);
    no_panic("queue-shutdown", || handle.shut_down())?;
    if still > 0 {
        return Ok(vec!["inconclusive-timeout"]);
    }
    let evs = log.snapshot();
    check_flush_barrier(&evs, cap)?;
    let mut classes: Classes = vec!["request-while-writer-inside-waiter-flush"];
    if m > 32 {
        classes.push("backlog-over-32-behind-the-second-request");
        classes.push("nt");
    }
    Ok(classes)
}

pub fn run(ctx: &mut Ctx) {
    ctx.assume("level 1 drives the real WakerTracker through hook H2a under the preconditions its source documents (Drained only after the queue was empty since the last handle; HitDeadline only with a positive multiple of 32 entries)");
    ctx.assume("liveness is decided by counting entries written / handle calls, never by wall-clock time; the bound for a never-empty queue is capacity + 128 pops at thread level and 2*capacity + 64 at state-machine level");
    let q = ctx.tier == Tier::Quick;
    ctx.explore(
        SubCfg::new(
            "c04-wakertracker-state-machine",
            "stateful sequences (0-60 steps) over the REAL WakerTracker with real FlushSignals (hook H2a) and a model ring buffer of capacity 1-100: Push(n) with displacement, SendFlush, DrainAll->Drained, DrainDeadline(32j)->HitDeadline, Handle, CheckS2. Invariants after every handle: S1 a woken flush implies every entry pushed before its request is popped/displaced and the stream flush callback ran in that call and BEFORE the waiter was woken; S2 will_progress_on_drained_queue() => handling a drained queue wakes somebody; L1 a pending flush survives < 2 drained handles and < 2*capacity+64 written entries. Non-trivial = a flush requested while another is pending and the queue is non-empty",
            if q { 60_000 } else { 3_000_000 },
        )
        .threads(ctx.tier.pick(8, 16))
        .mandatory(&["woken", "overflow", "hit-deadline", "overlapping-flushes", "s2-checked"]),
        || {
            (
                prop_oneof![2 => 1u8..8, 3 => 30u8..70, 1 => 1u8..=100],
                prop::collection::vec(
                    prop_oneof![
                        4 => prop_oneof![1u8..4, 20u8..70].prop_map(Step::Push),
                        3 => Just(Step::SendFlush),
                        2 => Just(Step::DrainAll),
                        3 => (1u8..3).prop_map(Step::DrainDeadline),
                        4 => Just(Step::Handle),
                        1 => Just(Step::CheckS2),
                    ],
                    0..60,
                ),
            )
                .prop_map(|(capacity, steps)| SmCase { capacity, steps })
        },
        check_sm,
    );
    ctx.explore(
        SubCfg::new(
            "c04-thread-level",
            "real queue (typed/boxed, capacity 1-80, flush interval 1us so the writer reports HitDeadline every 32 pops), stream gated by fuel and answering every entry Ok, Io, Validation or a cycle of them: n entries appended, some fuel, flush requested, then fuel granted one unit at a time while (busy) the producer appends 2 entries per unit so the queue never becomes empty and overflows; optional second request while the first is pending. Oracle: barrier over the event log for every completed flush (entries appended before the request written or displaced, stream flushed after them), completion within capacity+128 written entries when busy, a flush after shutdown is ready on first poll. Non-trivial = busy (never-empty) queue",
            if q { 1_200 } else { 30_000 },
        )
        .threads(ctx.tier.pick(4, 8))
        .shrink_iters(100)
        .mandatory(&["busy-queue", "second-request-while-first-pending", "overflow-before-request", "busy-queue-over-a-failing-stream"]),
        || {
            (
                prop_oneof![1u8..6, 20u8..80],
                any::<bool>(),
                0u8..120,
                prop::bool::weighted(0.7),
                0u8..40,
                prop::option::of(0u8..40),
                prop::collection::vec(any::<u8>(), 0..6),
                prop_oneof![3 => Just(0u8), 4 => 1u8..5],
                prop_oneof![3 => Just(0u8), 2 => 1u8..5],
                prop::bool::weighted(0.3),
            )
                .prop_map(|(capacity, boxed, before, busy, pre_fuel, second_request_after, jitter, fail_mode, qkind, flush_fails)| ThreadCase {
                    capacity,
                    boxed,
                    before,
                    busy,
                    pre_fuel,
                    second_request_after,
                    jitter,
                    fail_mode,
                    qkind,
                    flush_fails,
                })
        },
        check_thread,
    );
    ctx.explore(
        SubCfg::new(
            "c04-many-requests",
            "real queue whose writer is held inside stream.next() for the first of 1-30 appended entries (fuel gate shut) while 1-4 threads issue 0-60 flush requests each (0-240 outstanding, none read by the writer yet); every future is polled once right away, then the gate opens and a watcher thread logs each completion as it happens - in 30% of the cases shut_down() is called with them pending and a backlog of up to 150 entries behind a stream that takes ~50 us per entry; flush interval 1 ms or 30 s (with 30 s no periodic stream flush can fire, so the stream flush the barrier asks for must be the one performed for the waiters). Oracle: the barrier over the event log for every request - none completes before the entries appended before it were written and the stream flushed after them. Non-trivial = more than 32 requests outstanding at once",
            if q { 1_000 } else { 20_000 },
        )
        .threads(ctx.tier.pick(4, 8))
        .shrink_iters(60)
        .mandatory(&["more-than-32-requests-outstanding", "more-than-128-requests-outstanding", "requests-from-several-threads", "no-periodic-stream-flush-possible", "shutdown-with-requests-pending", "shutdown-with-requests-pending-and-a-backlog-over-32"]),
        || {
            (
                1u8..40,
                any::<bool>(),
                1u8..30,
                any::<u8>(),
                prop_oneof![0u8..12, 8u8..60],
                prop::collection::vec(any::<u8>(), 0..4),
                any::<bool>(),
                prop::bool::weighted(0.3),
                prop_oneof![3 => Just(0u8), 2 => 1u8..5],
                prop::bool::weighted(0.3),
            )
                .prop_map(|(capacity, boxed, before, threads, per_thread, jitter, long_interval, shutdown_first, qkind, flush_fails)| ManyCase {
                    capacity,
                    boxed,
                    before,
                    threads,
                    per_thread,
                    jitter,
                    long_interval,
                    shutdown_first,
                    qkind,
                    flush_fails,
                })
        },
        check_many,
    );
    ctx.explore(
        SubCfg::new(
            "c04-request-during-waiter-flush",
            "real queue (all builder kinds), ungated writer, stream ~50 us per entry: 1-20 entries, flush request 1; the writer is held INSIDE the stream.flush() it performs (for the waiters, or periodically); meanwhile 1-400 more entries are appended and request 2 is issued (then 0-20 more entries); the hold is released and a watcher logs both completions as they happen. Oracle: the barrier over the event log - request 2 completes only after every entry appended before it was written and the stream flushed after them. Non-trivial = more than 32 entries behind the second request",
            if q { 400 } else { 8_000 },
        )
        .threads(ctx.tier.pick(4, 8))
        .shrink_iters(40)
        .mandatory(&["backlog-over-32-behind-the-second-request"]),
        || {
            (any::<bool>(), prop_oneof![3 => Just(0u8), 2 => 1u8..5], 1u8..20, prop_oneof![1u16..33, 33u16..400], any::<u8>(), any::<bool>(), 0u8..20)
                .prop_map(|(boxed, qkind, k1, m, spare, long_interval, after)| DuringFlushCase { boxed, qkind, k1, m, spare, long_interval, after })
        },
        check_during_flush,
    );
}
