//! Exploration engine: proptest `TestRunner` driven from a binary, with classification,
//! distinct non-trivial counting, sampling, shrinking, replay files, known findings and evidence.

use proptest::strategy::{Strategy, ValueTree};
use proptest::test_runner::{Config, RngSeed, TestCaseError, TestError, TestRunner};
use serde::{Serialize, de::DeserializeOwned};
use std::collections::{BTreeMap, HashSet};
use std::fmt::Debug;
use std::hash::{Hash, Hasher};
use std::panic::{AssertUnwindSafe, catch_unwind};
use std::sync::Mutex;
use std::sync::atomic::{AtomicBool, AtomicU64, Ordering};
use std::time::Instant;

#[derive(Clone, Copy, PartialEq, Eq, Debug)]
pub enum Tier {
    Quick,
    Thorough,
}

impl Tier {
    pub fn name(self) -> &'static str {
        match self {
            Tier::Quick => "quick",
            Tier::Thorough => "thorough",
        }
    }
    /// pick a work amount by tier
    pub fn pick<T>(self, quick: T, thorough: T) -> T {
        match self {
            Tier::Quick => quick,
            Tier::Thorough => thorough,
        }
    }
}

/// A failing case: `sig` is the root-cause signature (computed from the input, not from a stack),
/// `msg` is the observed-vs-expected text.
#[derive(Debug, Clone)]
pub struct Fail {
    pub sig: String,
    pub msg: String,
}

impl Fail {
    pub fn new(sig: impl Into<String>, msg: impl Into<String>) -> Self {
        Fail {
            sig: sig.into(),
            msg: msg.into(),
        }
    }
}

/// Classes a passing case belongs to. The tag `"nt"` marks the case non-trivial by the
/// sub-check's stated rule.
pub type Classes = Vec<&'static str>;
pub type CaseResult = Result<Classes, Fail>;

#[macro_export]
macro_rules! vfail {
    ($sig:expr, $($arg:tt)*) => {
        return Err($crate::engine::Fail::new($sig, format!($($arg)*)))
    };
}

#[macro_export]
macro_rules! vensure {
    ($cond:expr, $sig:expr, $($arg:tt)*) => {
        if !($cond) {
            return Err($crate::engine::Fail::new($sig, format!($($arg)*)));
        }
    };
}

#[derive(Debug, Clone, serde::Deserialize, Serialize)]
pub struct KnownFinding {
    pub property: String,
    pub signature: String,
    pub status: String, // "known" | "fixed"
    #[serde(default)]
    pub commit: Option<String>,
    pub what: String,
}

#[derive(Debug, Clone, Serialize)]
pub struct SubReport {
    pub name: String,
    pub rule: String,
    pub evaluations: u64,
    pub distinct_nontrivial: u64,
    pub exhaustive: bool,
    pub classes: BTreeMap<String, u64>,
    pub missing_mandatory: Vec<String>,
    pub samples: Vec<serde_json::Value>,
    pub wall_s: f64,
    pub known_finding_hits: BTreeMap<String, u64>,
    #[serde(skip_serializing_if = "Option::is_none")]
    pub note: Option<String>,
}

#[derive(Debug, Clone)]
pub struct Violation {
    pub check: String,
    pub sig: String,
    pub msg: String,
    pub replay: String,
}

pub struct Replay {
    pub check: String,
    pub case: serde_json::Value,
}

pub struct Ctx {
    pub id: String,
    pub tier: Tier,
    pub seed: u64,
    pub replay: Option<Replay>,
    pub subs: Vec<SubReport>,
    pub start: Instant,
    pub known: Vec<KnownFinding>,
    pub violations: Vec<Violation>,
    pub assumptions: Vec<String>,
    pub extra: BTreeMap<String, serde_json::Value>,
    pub inconclusive: Vec<String>,
    pub replay_ran: bool,
    pub replay_failed: bool,
    pub profile: &'static str,
}

pub fn profile_name() -> &'static str {
    if cfg!(debug_assertions) {
        "dev(debug-assertions)"
    } else {
        "verif-rel(no-debug-assertions)"
    }
}

pub fn hooks_on() -> bool {
    cfg!(metrique_verif)
}

fn fnv(s: &str) -> u64 {
    let mut h: u64 = 0xcbf29ce484222325;
    for b in s.bytes() {
        h ^= b as u64;
        h = h.wrapping_mul(0x100000001b3);
    }
    h
}

pub fn mix_seed(seed: u64, name: &str, worker: u64) -> u64 {
    let mut x = seed ^ fnv(name) ^ worker.wrapping_mul(0x9E3779B97F4A7C15);
    // splitmix64 finaliser
    x = (x ^ (x >> 30)).wrapping_mul(0xbf58476d1ce4e5b9);
    x = (x ^ (x >> 27)).wrapping_mul(0x94d049bb133111eb);
    x ^ (x >> 31)
}

thread_local! {
    static LAST_PANIC: std::cell::RefCell<Option<String>> = const { std::cell::RefCell::new(None) };
}

pub fn install_quiet_panic_hook() {
    let verbose = std::env::var("VERIF_VERBOSE").is_ok();
    let default = std::panic::take_hook();
    std::panic::set_hook(Box::new(move |info| {
        let msg = if let Some(s) = info.payload().downcast_ref::<&str>() {
            s.to_string()
        } else if let Some(s) = info.payload().downcast_ref::<String>() {
            s.clone()
        } else {
            "<non-string panic>".to_string()
        };
        let loc = info
            .location()
            .map(|l| format!("{}:{}", l.file(), l.line()))
            .unwrap_or_default();
        LAST_PANIC.with(|p| *p.borrow_mut() = Some(format!("{msg} @ {loc}")));
        if verbose {
            default(info);
        }
    }));
}

pub fn take_last_panic() -> Option<String> {
    LAST_PANIC.with(|p| p.borrow_mut().take())
}

/// Run `f`, converting a panic into a `Fail` with signature `panic:<sigprefix>`.
pub fn no_panic<T>(sig: &str, f: impl FnOnce() -> T) -> Result<T, Fail> {
    match catch_unwind(AssertUnwindSafe(f)) {
        Ok(v) => Ok(v),
        Err(_) => {
            let m = take_last_panic().unwrap_or_else(|| "<unknown panic>".into());
            Err(Fail::new(format!("panic:{sig}"), format!("panicked: {m}")))
        }
    }
}

/// drops `t` while the current thread is unwinding (`std::thread::panicking()` is true inside the
/// drop); the unwinding is started without running the panic hook and caught here
pub fn drop_while_unwinding<T>(t: T) {
    struct G<T>(Option<T>);
    impl<T> Drop for G<T> {
        fn drop(&mut self) {
            drop(self.0.take());
        }
    }
    let g = std::panic::AssertUnwindSafe(G(Some(t)));
    let _ = std::panic::catch_unwind(move || {
        let _g = g;
        std::panic::resume_unwind(Box::new("harness: unwinding on purpose"));
    });
}

pub struct SubCfg {
    pub name: &'static str,
    pub rule: &'static str,
    pub cases: u32,
    pub threads: usize,
    pub mandatory: &'static [&'static str],
    pub max_shrink_iters: u32,
}

impl SubCfg {
    pub fn new(name: &'static str, rule: &'static str, cases: u32) -> Self {
        SubCfg {
            name,
            rule,
            cases,
            threads: 1,
            mandatory: &[],
            max_shrink_iters: 4000,
        }
    }
    pub fn threads(mut self, n: usize) -> Self {
        self.threads = n.max(1);
        self
    }
    pub fn mandatory(mut self, m: &'static [&'static str]) -> Self {
        self.mandatory = m;
        self
    }
    pub fn shrink_iters(mut self, n: u32) -> Self {
        self.max_shrink_iters = n;
        self
    }
}

struct Acc {
    evaluations: u64,
    classes: BTreeMap<&'static str, u64>,
    nt_hashes: HashSet<u64>,
    samples: Vec<serde_json::Value>,
    nt_seen: u64,
    known_hits: BTreeMap<String, u64>,
}

fn truncate_json(v: serde_json::Value, budget: usize) -> serde_json::Value {
    let s = v.to_string();
    if s.len() <= budget {
        v
    } else {
        let mut end = budget;
        while !s.is_char_boundary(end) {
            end -= 1;
        }
        serde_json::Value::String(format!("{}… [{} bytes total]", &s[..end], s.len()))
    }
}

impl Ctx {
    pub fn new(id: &str, tier: Tier, seed: u64, replay: Option<Replay>) -> Self {
        let known = load_known_findings()
            .into_iter()
            .filter(|k| k.property == id)
            .collect();
        Ctx {
            id: id.to_string(),
            tier,
            seed,
            replay,
            subs: vec![],
            start: Instant::now(),
            known,
            violations: vec![],
            assumptions: vec![],
            extra: BTreeMap::new(),
            inconclusive: vec![],
            replay_ran: false,
            replay_failed: false,
            profile: profile_name(),
        }
    }

    pub fn assume(&mut self, s: impl Into<String>) {
        let s = s.into();
        if !self.assumptions.contains(&s) {
            self.assumptions.push(s);
        }
    }

    pub fn is_known(&self, sig: &str) -> bool {
        self.known
            .iter()
            .any(|k| k.status == "known" && sig_matches(&k.signature, sig))
    }

    /// Explore `strategy` for `cfg.cases` cases (split over `cfg.threads` workers with derived
    /// seeds), classify, count, and on failure shrink and emit a replay file + VIOLATION line.
    pub fn explore<S, MK, F>(&mut self, cfg: SubCfg, mk_strategy: MK, f: F)
    where
        S: Strategy,
        MK: Fn() -> S + Sync,
        S::Value: Debug + Serialize + DeserializeOwned + Clone + Send,
        F: Fn(&S::Value) -> CaseResult + Sync,
    {
        // replay mode: run only the named sub-check on the stored case, bypassing proptest
        if let Some(r) = &self.replay {
            if r.check != cfg.name {
                return;
            }
            self.replay_ran = true;
            let case: S::Value = match serde_json::from_value(r.case.clone()) {
                Ok(c) => c,
                Err(e) => {
                    eprintln!("replay: cannot decode case for {}: {e}", cfg.name);
                    self.inconclusive.push(format!("replay decode: {e}"));
                    return;
                }
            };
            let res = match catch_unwind(AssertUnwindSafe(|| f(&case))) {
                Ok(r) => r,
                Err(_) => Err(Fail::new(
                    "panic:harness",
                    format!("panic: {:?}", take_last_panic()),
                )),
            };
            match res {
                Ok(classes) => println!("REPLAY-PASS check={} classes={:?}", cfg.name, classes),
                Err(fail) => {
                    self.replay_failed = true;
                    println!(
                        "REPLAY-FAIL check={} signature={} :: {}",
                        cfg.name, fail.sig, fail.msg
                    );
                }
            }
            return;
        }

        let t0 = Instant::now();
        let acc = Mutex::new(Acc {
            evaluations: 0,
            classes: BTreeMap::new(),
            nt_hashes: HashSet::new(),
            samples: vec![],
            nt_seen: 0,
            known_hits: BTreeMap::new(),
        });
        let stop = AtomicBool::new(false);
        let threads = cfg.threads.max(1);
        let per = (cfg.cases as usize).div_ceil(threads) as u32;
        let known_sigs: Vec<String> = self
            .known
            .iter()
            .filter(|k| k.status == "known")
            .map(|k| k.signature.clone())
            .collect();
        let sample_budget = 6usize;
        let global_idx = AtomicU64::new(0);

        // result per worker: Option<(shrunk case, fail)>
        let run_worker = |worker: usize| -> Option<(S::Value, Fail)> {
            let seed = mix_seed(self.seed, cfg.name, worker as u64);
            let mut config = Config::default();
            config.cases = per;
            config.failure_persistence = None;
            config.max_shrink_iters = cfg.max_shrink_iters;
            config.rng_seed = RngSeed::Fixed(seed);
            config.max_global_rejects = 1_000_000;
            config.verbose = 0;
            let mut runner = TestRunner::new(config);
            let strategy = mk_strategy();
            let failed_here = AtomicBool::new(false);
            let last_fail: Mutex<Option<Fail>> = Mutex::new(None);
            let res = runner.run(&strategy, |case| {
                if stop.load(Ordering::Relaxed) && !failed_here.load(Ordering::Relaxed) {
                    // another worker failed: finish quickly
                    return Ok(());
                }
                let r = match catch_unwind(AssertUnwindSafe(|| f(&case))) {
                    Ok(r) => r,
                    Err(_) => Err(Fail::new(
                        "panic:harness-or-code",
                        format!(
                            "panic outside a guarded region: {}",
                            take_last_panic().unwrap_or_default()
                        ),
                    )),
                };
                let shrinking = failed_here.load(Ordering::Relaxed);
                match r {
                    Ok(classes) => {
                        if !shrinking {
                            let mut a = acc.lock().unwrap();
                            a.evaluations += 1;
                            let idx = global_idx.fetch_add(1, Ordering::Relaxed);
                            let nt = classes.contains(&"nt");
                            for c in &classes {
                                *a.classes.entry(c).or_insert(0) += 1;
                            }
                            if nt {
                                let mut h = std::collections::hash_map::DefaultHasher::new();
                                format!("{:?}", case).hash(&mut h);
                                if a.nt_hashes.insert(h.finish()) {
                                    a.nt_seen += 1;
                                    // keep the first two and then a deterministic thinning sample
                                    let n = a.nt_seen;
                                    if a.samples.len() < sample_budget
                                        && (n <= 2 || n.is_power_of_two())
                                    {
                                        let v = serde_json::to_value(&case)
                                            .unwrap_or(serde_json::Value::Null);
                                        a.samples.push(serde_json::json!({
                                            "index": idx,
                                            "classes": classes,
                                            "case": truncate_json(v, 1500),
                                        }));
                                    }
                                }
                            }
                        }
                        Ok(())
                    }
                    Err(fail) => {
                        if known_sigs.iter().any(|k| sig_matches(k, &fail.sig)) {
                            if !shrinking {
                                let mut a = acc.lock().unwrap();
                                a.evaluations += 1;
                                *a.known_hits.entry(fail.sig.clone()).or_insert(0) += 1;
                            }
                            // a listed finding is excluded from the search: treated as passing so
                            // the campaign continues (and shrinking cannot drift into it)
                            return Ok(());
                        }
                        if !shrinking {
                            failed_here.store(true, Ordering::Relaxed);
                            stop.store(true, Ordering::Relaxed);
                            acc.lock().unwrap().evaluations += 1;
                        }
                        let m = format!("{}|{}", fail.sig, fail.msg);
                        *last_fail.lock().unwrap() = Some(fail);
                        Err(TestCaseError::fail(m))
                    }
                }
            });
            match res {
                Ok(()) => None,
                Err(TestError::Fail(_reason, value)) => {
                    // re-evaluate the shrunk value to get its own signature / message
                    let fail = match catch_unwind(AssertUnwindSafe(|| f(&value))) {
                        Ok(Err(fl)) => fl,
                        Ok(Ok(_)) => last_fail.lock().unwrap().clone().unwrap_or(Fail::new(
                            "flaky",
                            "shrunk case passed on re-evaluation (non-deterministic case)",
                        )),
                        Err(_) => Fail::new(
                            "panic:harness-or-code",
                            format!("panic: {}", take_last_panic().unwrap_or_default()),
                        ),
                    };
                    Some((value, fail))
                }
                Err(TestError::Abort(reason)) => {
                    eprintln!("[{}] generator aborted: {reason}", cfg.name);
                    None
                }
            }
        };

        let worker_panics: Mutex<Vec<String>> = Mutex::new(vec![]);
        let failures: Vec<Option<(S::Value, Fail)>> = if threads == 1 {
            match catch_unwind(AssertUnwindSafe(|| run_worker(0))) {
                Ok(r) => vec![r],
                Err(_) => {
                    worker_panics.lock().unwrap().push(format!(
                        "worker of {} panicked outside a case (generator/harness bug): {:?}",
                        cfg.name,
                        take_last_panic()
                    ));
                    vec![None]
                }
            }
        } else {
            std::thread::scope(|s| {
                let hs: Vec<_> = (0..threads)
                    .map(|w| {
                        let rw = &run_worker;
                        std::thread::Builder::new()
                            .stack_size(64 << 20)
                            .spawn_scoped(s, move || rw(w))
                            .unwrap()
                    })
                    .collect();
                hs.into_iter()
                    .map(|h| match h.join() {
                        Ok(r) => r,
                        Err(_) => {
                            worker_panics.lock().unwrap().push(format!(
                                "worker of {} panicked outside a case (generator/harness bug): {:?}",
                                cfg.name,
                                take_last_panic()
                            ));
                            None
                        }
                    })
                    .collect()
            })
        };
        for m in worker_panics.into_inner().unwrap() {
            eprintln!("{m}");
            self.inconclusive.push(m);
        }

        let a = acc.into_inner().unwrap();
        let mut missing = vec![];
        for m in cfg.mandatory {
            if a.classes.get(m).copied().unwrap_or(0) == 0 {
                missing.push(m.to_string());
            }
        }
        for (sig, n) in &a.known_hits {
            let what = self
                .known
                .iter()
                .find(|k| sig_matches(&k.signature, sig))
                .map(|k| k.what.clone())
                .unwrap_or_default();
            println!(
                "KNOWN-FINDING: property={} signature={} hits={} {}",
                self.id, sig, n, what
            );
        }
        // cases that ended in an `inconclusive-*` class (a wall-clock wait ran out) decide nothing:
        // a handful is tolerated (scheduling noise), more than that makes the run inconclusive -
        // a hang must never read as "held"
        let inconcl: u64 = a.classes.iter().filter(|(k, _)| k.starts_with("inconclusive")).map(|(_, v)| *v).sum();
        if inconcl > 5 && inconcl * 200 > a.evaluations {
            let m = format!(
                "{}: {} of {} cases ended in an inconclusive class (a wait timed out) - the sub-check decided nothing for them: {:?}",
                cfg.name,
                inconcl,
                a.evaluations,
                a.classes.iter().filter(|(k, _)| k.starts_with("inconclusive")).collect::<Vec<_>>()
            );
            eprintln!("{m}");
            self.inconclusive.push(m);
        }
        let first_fail = failures.into_iter().flatten().next();
        let report = SubReport {
            name: cfg.name.to_string(),
            rule: cfg.rule.to_string(),
            evaluations: a.evaluations,
            distinct_nontrivial: a.nt_hashes.len() as u64,
            exhaustive: false,
            classes: a.classes.iter().map(|(k, v)| (k.to_string(), *v)).collect(),
            missing_mandatory: missing.clone(),
            samples: a.samples,
            wall_s: t0.elapsed().as_secs_f64(),
            known_finding_hits: a.known_hits,
            note: None,
        };
        eprintln!(
            "[{}:{}] evals={} nontrivial={} missing={:?} {:.1}s",
            self.id, cfg.name, report.evaluations, report.distinct_nontrivial, missing, report.wall_s
        );
        self.subs.push(report);
        if let Some((value, fail)) = first_fail {
            let v = serde_json::to_value(&value).unwrap_or(serde_json::Value::Null);
            self.report_violation(cfg.name, fail, v, format!("{:?}", value));
        }
    }

    /// Record a sub-check that enumerated its own (finite) space or ran a custom loop.
    pub fn push_custom(&mut self, r: SubReport) {
        eprintln!(
            "[{}:{}] evals={} nontrivial={} exhaustive={} {:.1}s",
            self.id, r.name, r.evaluations, r.distinct_nontrivial, r.exhaustive, r.wall_s
        );
        self.subs.push(r);
    }

    pub fn report_violation(
        &mut self,
        check: &str,
        fail: Fail,
        case: serde_json::Value,
        case_debug: String,
    ) {
        if self.is_known(&fail.sig) {
            println!(
                "KNOWN-FINDING: property={} signature={} {}",
                self.id, fail.sig, fail.msg
            );
            return;
        }
        let dir = format!("{}/replays/{}", verif_root(), self.id);
        let _ = std::fs::create_dir_all(&dir);
        let path = format!(
            "{}/{}-{}-{:x}.json",
            dir,
            check,
            sanitize(&fail.sig),
            fnv(&case_debug) & 0xffffff
        );
        let mut dbg = case_debug;
        if dbg.len() > 20000 {
            let mut e = 20000;
            while !dbg.is_char_boundary(e) {
                e -= 1;
            }
            dbg.truncate(e);
        }
        let doc = serde_json::json!({
            "property": self.id,
            "check": check,
            "signature": fail.sig,
            "message": fail.msg,
            "case": case,
            "case_debug": dbg,
            "seed": self.seed,
            "tier": self.tier.name(),
            "profile": self.profile,
            "hooks": hooks_on(),
            "repo_head": repo_head(),
        });
        let _ = std::fs::write(&path, serde_json::to_string_pretty(&doc).unwrap());
        println!("VIOLATION property={} replay={}", self.id, path);
        eprintln!(
            "  check={} signature={}\n  {}",
            check,
            fail.sig,
            fail.msg.chars().take(3000).collect::<String>()
        );
        self.violations.push(Violation {
            check: check.to_string(),
            sig: fail.sig,
            msg: fail.msg,
            replay: path,
        });
    }

    /// Write the evidence file and return the process exit code.
    pub fn finish(self) -> i32 {
        if self.replay.is_some() {
            if !self.replay_ran {
                eprintln!("replay: no sub-check with that name ran");
                return 2;
            }
            return if self.replay_failed { 1 } else { 0 };
        }
        let evaluations: u64 = self.subs.iter().map(|s| s.evaluations).sum();
        let nt: u64 = self.subs.iter().map(|s| s.distinct_nontrivial).sum();
        let rule = self
            .subs
            .iter()
            .map(|s| format!("[{}] {}", s.name, s.rule))
            .collect::<Vec<_>>()
            .join(" || ");
        let mut samples = vec![];
        for s in &self.subs {
            for smp in s.samples.iter().take(3) {
                samples.push(serde_json::json!({"subcheck": s.name, "sample": smp}));
            }
        }
        let exhaustive_all = !self.subs.is_empty() && self.subs.iter().all(|s| s.exhaustive);
        let mut coverage = serde_json::json!({
            "evaluations": evaluations,
            "distinct_nontrivial": nt,
            "rule": rule,
            "samples": samples,
            "exhaustive": exhaustive_all,
            "subchecks": self.subs,
            "profile": self.profile,
            "hooks_compiled_in": hooks_on(),
            "repo_head": repo_head(),
            "inconclusive": self.inconclusive,
        });
        for (k, v) in &self.extra {
            coverage[k] = v.clone();
        }
        let ev = serde_json::json!({
            "property_id": self.id,
            "tier": self.tier.name(),
            "seed": self.seed,
            "level": "exploration",
            "coverage": coverage,
            "assumptions": self.assumptions,
            "wall_s": self.start.elapsed().as_secs_f64(),
            "violations": self.violations.len(),
            "violation_details": self.violations.iter().map(|v| serde_json::json!({
                "check": v.check, "signature": v.sig, "message": v.msg.chars().take(2000).collect::<String>(), "replay": v.replay
            })).collect::<Vec<_>>(),
        });
        // several profiles of one property may run in sequence: merge if asked to
        let path = evidence_path(&self.id);
        let merged = merge_evidence(&path, ev);
        if let Some(parent) = std::path::Path::new(&path).parent() {
            let _ = std::fs::create_dir_all(parent);
        }
        std::fs::write(&path, serde_json::to_string_pretty(&merged).unwrap())
            .expect("write evidence");
        if !self.violations.is_empty() {
            return 1;
        }
        if !self.inconclusive.is_empty() {
            for m in &self.inconclusive {
                eprintln!("INCONCLUSIVE: {m}");
            }
            return 2;
        }
        if nt < 2 {
            eprintln!("INCONCLUSIVE: fewer than 2 distinct non-trivial cases were generated");
            return 2;
        }
        0
    }
}

/// When `VERIF_EVIDENCE_MERGE=1`, the new run is folded into the existing evidence file
/// (used by the driver script to run one property under two build profiles).
fn merge_evidence(path: &str, new: serde_json::Value) -> serde_json::Value {
    if std::env::var("VERIF_EVIDENCE_MERGE").ok().as_deref() != Some("1") {
        return new;
    }
    let Ok(old) = std::fs::read_to_string(path) else {
        return new;
    };
    let Ok(old): Result<serde_json::Value, _> = serde_json::from_str(&old) else {
        return new;
    };
    let mut out = new.clone();
    let oc = &old["coverage"];
    let nc = &new["coverage"];
    let add = |k: &str| oc[k].as_u64().unwrap_or(0) + nc[k].as_u64().unwrap_or(0);
    out["coverage"]["evaluations"] = add("evaluations").into();
    out["coverage"]["distinct_nontrivial"] = add("distinct_nontrivial").into();
    let mut subs = oc["subchecks"].as_array().cloned().unwrap_or_default();
    for s in subs.iter_mut() {
        s["profile"] = oc["profile"].clone();
    }
    let mut nsubs = nc["subchecks"].as_array().cloned().unwrap_or_default();
    for s in nsubs.iter_mut() {
        s["profile"] = nc["profile"].clone();
    }
    subs.extend(nsubs);
    out["coverage"]["subchecks"] = subs.into();
    let mut samples = oc["samples"].as_array().cloned().unwrap_or_default();
    samples.extend(nc["samples"].as_array().cloned().unwrap_or_default());
    out["coverage"]["samples"] = samples.into();
    out["coverage"]["profile"] = format!(
        "{} + {}",
        oc["profile"].as_str().unwrap_or(""),
        nc["profile"].as_str().unwrap_or("")
    )
    .into();
    out["coverage"]["exhaustive"] =
        (oc["exhaustive"].as_bool().unwrap_or(false) && nc["exhaustive"].as_bool().unwrap_or(false)).into();
    out["wall_s"] =
        (old["wall_s"].as_f64().unwrap_or(0.0) + new["wall_s"].as_f64().unwrap_or(0.0)).into();
    out["violations"] =
        (old["violations"].as_u64().unwrap_or(0) + new["violations"].as_u64().unwrap_or(0)).into();
    let mut vd = old["violation_details"].as_array().cloned().unwrap_or_default();
    vd.extend(new["violation_details"].as_array().cloned().unwrap_or_default());
    out["violation_details"] = vd.into();
    let mut asum = old["assumptions"].as_array().cloned().unwrap_or_default();
    for a in new["assumptions"].as_array().cloned().unwrap_or_default() {
        if !asum.contains(&a) {
            asum.push(a);
        }
    }
    out["assumptions"] = asum.into();
    out
}

pub fn sig_matches(pattern: &str, sig: &str) -> bool {
    pattern == sig
}

fn sanitize(s: &str) -> String {
    s.chars()
        .map(|c| if c.is_ascii_alphanumeric() || c == '-' { c } else { '_' })
        .take(60)
        .collect()
}

pub fn verif_root() -> String {
    std::env::var("VERIF_ROOT").unwrap_or_else(|_| "/verif".to_string())
}

pub fn evidence_path(id: &str) -> String {
    // mutation trials redirect their evidence so that the committed evidence always describes
    // a run on the unchanged tree
    if let Ok(d) = std::env::var("VERIF_EVIDENCE_DIR") {
        return format!("{d}/{id}.json");
    }
    format!("{}/evidence/{}.json", verif_root(), id)
}

pub fn repo_head() -> String {
    std::env::var("VERIF_REPO_HEAD").unwrap_or_else(|_| "unknown".into())
}

pub fn load_known_findings() -> Vec<KnownFinding> {
    let p = format!("{}/known_findings.json", verif_root());
    match std::fs::read_to_string(&p) {
        Ok(s) => serde_json::from_str::<Vec<KnownFinding>>(&s).unwrap_or_else(|e| {
            eprintln!("known_findings.json unreadable: {e}");
            vec![]
        }),
        Err(_) => vec![],
    }
}

/// Helper for custom (non-proptest) loops: accumulates the same counters as `explore`.
pub struct Tally {
    pub name: &'static str,
    pub rule: &'static str,
    pub evaluations: u64,
    pub classes: BTreeMap<&'static str, u64>,
    pub nt_hashes: HashSet<u64>,
    pub samples: Vec<serde_json::Value>,
    pub t0: Instant,
    pub exhaustive: bool,
    pub note: Option<String>,
    /// non-trivial cases that are distinct by construction (enumerations) and therefore counted
    /// without hashing
    pub nt_extra: u64,
}

impl Tally {
    pub fn new(name: &'static str, rule: &'static str) -> Self {
        Tally {
            name,
            rule,
            evaluations: 0,
            classes: BTreeMap::new(),
            nt_hashes: HashSet::new(),
            samples: vec![],
            t0: Instant::now(),
            exhaustive: false,
            note: None,
            nt_extra: 0,
        }
    }
    pub fn record(&mut self, key: u64, classes: &[&'static str], sample: impl FnOnce() -> serde_json::Value) {
        self.evaluations += 1;
        for c in classes {
            *self.classes.entry(c).or_insert(0) += 1;
        }
        if classes.contains(&"nt") && self.nt_hashes.insert(key) {
            let n = self.nt_hashes.len() as u64;
            if self.samples.len() < 6 && (n <= 2 || n.is_power_of_two()) {
                self.samples.push(truncate_json(sample(), 1500));
            }
        }
    }
    pub fn merge(&mut self, other: Tally) {
        self.evaluations += other.evaluations;
        for (k, v) in other.classes {
            *self.classes.entry(k).or_insert(0) += v;
        }
        self.nt_hashes.extend(other.nt_hashes);
        self.nt_extra += other.nt_extra;
        for s in other.samples {
            if self.samples.len() < 6 {
                self.samples.push(s);
            }
        }
    }
    pub fn finish(self, mandatory: &[&str]) -> SubReport {
        let missing = mandatory
            .iter()
            .filter(|m| self.classes.get(*m).copied().unwrap_or(0) == 0)
            .map(|m| m.to_string())
            .collect();
        SubReport {
            name: self.name.to_string(),
            rule: self.rule.to_string(),
            evaluations: self.evaluations,
            distinct_nontrivial: self.nt_hashes.len() as u64 + self.nt_extra,
            exhaustive: self.exhaustive,
            classes: self.classes.iter().map(|(k, v)| (k.to_string(), *v)).collect(),
            missing_mandatory: missing,
            samples: self.samples,
            wall_s: self.t0.elapsed().as_secs_f64(),
            known_finding_hits: BTreeMap::new(),
            note: self.note,
        }
    }
}

pub fn hash_of<T: Hash>(t: &T) -> u64 {
    let mut h = std::collections::hash_map::DefaultHasher::new();
    t.hash(&mut h);
    h.finish()
}

pub fn hash_dbg<T: Debug>(t: &T) -> u64 {
    hash_of(&format!("{:?}", t))
}

/// Generate one value from a strategy with a fixed seed (used by custom loops).
pub fn sample_strategy<S: Strategy>(s: &S, seed: u64, n: usize) -> Vec<S::Value> {
    let mut config = Config::default();
    config.rng_seed = RngSeed::Fixed(seed);
    config.failure_persistence = None;
    let mut runner = TestRunner::new(config);
    (0..n)
        .filter_map(|_| s.new_tree(&mut runner).ok().map(|t| t.current()))
        .collect()
}

static WATCHDOG_ARMED: AtomicBool = AtomicBool::new(false);
static WATCHDOG_DEADLINE: AtomicU64 = AtomicU64::new(0);

/// Wall-clock watchdog: exit code 2 ("inconclusive"), never a violation.
pub fn arm_watchdog(secs: u64) {
    WATCHDOG_DEADLINE.store(secs, Ordering::Relaxed);
    if WATCHDOG_ARMED.swap(true, Ordering::Relaxed) {
        return;
    }
    std::thread::spawn(move || {
        let t0 = Instant::now();
        loop {
            std::thread::sleep(std::time::Duration::from_millis(500));
            if t0.elapsed().as_secs() > WATCHDOG_DEADLINE.load(Ordering::Relaxed) {
                eprintln!("INCONCLUSIVE: watchdog fired after {}s", t0.elapsed().as_secs());
                std::process::exit(2);
            }
        }
    });
}

/// path for re-executing this binary as a child process: /proc/self/exe keeps working when the
/// file on disk is replaced by a rebuild while the check runs
pub fn self_exe() -> std::path::PathBuf {
    let p = std::path::PathBuf::from("/proc/self/exe");
    if p.exists() { p } else { std::env::current_exe().expect("current_exe") }
}
