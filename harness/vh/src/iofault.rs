//! Fault-scripted `io::Write` and `EntryIoStream` implementations.

use metrique_writer_core::{Entry, EntryIoStream, IoStreamError, ValidationError};
use proptest::prelude::*;
use serde::{Deserialize, Serialize};
use std::io;
use std::sync::{Arc, Mutex};

#[derive(Clone, Copy, Debug, PartialEq, Eq, Serialize, Deserialize)]
pub enum WStep {
    AcceptAll,
    /// accept min(k, offered) bytes, k >= 1
    AcceptK(u32),
    Interrupted,
    Zero,
    /// hard error with the given kind index (see `hard_kind`)
    Hard(u8),
    /// accept exactly the first non-empty slice of a vectored write - what `std::io::Write`'s
    /// default `write_vectored` does for a writer that only implements `write`
    FirstSlice,
}

pub fn hard_kind(i: u8) -> io::ErrorKind {
    match i % 5 {
        0 => io::ErrorKind::Other,
        1 => io::ErrorKind::BrokenPipe,
        2 => io::ErrorKind::PermissionDenied,
        3 => io::ErrorKind::WouldBlock,
        _ => io::ErrorKind::TimedOut,
    }
}

#[derive(Clone, Debug, PartialEq, Serialize, Deserialize)]
pub struct WScript {
    pub steps: Vec<WStep>,
    /// behaviour once the script is used up
    pub then: WStep,
    /// results of successive flush() calls: true = Ok
    pub flushes: Vec<bool>,
}

impl WScript {
    pub fn perfect() -> Self {
        WScript {
            steps: vec![],
            then: WStep::AcceptAll,
            flushes: vec![],
        }
    }
}

#[derive(Clone, Debug, PartialEq)]
pub struct WCall {
    /// lengths of the slices offered
    pub offered: Vec<usize>,
    pub step: WStep,
    pub accepted: usize,
}

#[derive(Debug, Default)]
pub struct WState {
    pub received: Vec<u8>,
    pub calls: Vec<WCall>,
    pub flush_calls: usize,
    pub pos: usize,
    pub empty_write_calls: usize,
}

/// `io::Write` whose every call follows the script. Cloneable handle to shared state so the
/// harness can inspect what arrived after the code under test dropped its writer.
#[derive(Clone)]
pub struct ScriptedWriter {
    pub script: Arc<WScript>,
    pub state: Arc<Mutex<WState>>,
}

impl ScriptedWriter {
    pub fn new(script: WScript) -> Self {
        ScriptedWriter {
            script: Arc::new(script),
            state: Arc::new(Mutex::new(WState::default())),
        }
    }
    pub fn received(&self) -> Vec<u8> {
        self.state.lock().unwrap().received.clone()
    }
    pub fn calls(&self) -> Vec<WCall> {
        self.state.lock().unwrap().calls.clone()
    }
    fn do_write(&self, bufs: &[&[u8]]) -> io::Result<usize> {
        let mut st = self.state.lock().unwrap();
        let offered: Vec<usize> = bufs.iter().map(|b| b.len()).collect();
        let total: usize = offered.iter().sum();
        if total == 0 {
            st.empty_write_calls += 1;
            return Ok(0);
        }
        let step = if st.pos < self.script.steps.len() {
            self.script.steps[st.pos]
        } else {
            self.script.then
        };
        st.pos += 1;
        let (res, accepted) = match step {
            WStep::AcceptAll => (Ok(total), total),
            WStep::AcceptK(k) => {
                let n = (k.max(1) as usize).min(total);
                (Ok(n), n)
            }
            WStep::FirstSlice => {
                let n = offered.iter().copied().find(|l| *l > 0).unwrap_or(0);
                (Ok(n), n)
            }
            WStep::Interrupted => (Err(io::ErrorKind::Interrupted.into()), 0),
            WStep::Zero => (Ok(0), 0),
            WStep::Hard(k) => (Err(io::Error::new(hard_kind(k), "scripted hard error")), 0),
        };
        let mut left = accepted;
        for b in bufs {
            let n = left.min(b.len());
            st.received.extend_from_slice(&b[..n]);
            left -= n;
            if left == 0 {
                break;
            }
        }
        st.calls.push(WCall {
            offered,
            step,
            accepted,
        });
        res
    }
}

impl io::Write for ScriptedWriter {
    fn write(&mut self, buf: &[u8]) -> io::Result<usize> {
        self.do_write(&[buf])
    }
    fn write_vectored(&mut self, bufs: &[io::IoSlice<'_>]) -> io::Result<usize> {
        let v: Vec<&[u8]> = bufs.iter().map(|b| &**b).collect();
        self.do_write(&v)
    }
    fn flush(&mut self) -> io::Result<()> {
        let mut st = self.state.lock().unwrap();
        let i = st.flush_calls;
        st.flush_calls += 1;
        if self.script.flushes.get(i).copied().unwrap_or(true) {
            Ok(())
        } else {
            Err(io::Error::other("scripted flush error"))
        }
    }
}

pub fn arb_wstep() -> impl Strategy<Value = WStep> {
    prop_oneof![
        3 => Just(WStep::AcceptAll),
        6 => prop_oneof![1u32..8, 1u32..200, 1u32..5000].prop_map(WStep::AcceptK),
        3 => Just(WStep::Interrupted),
        1 => Just(WStep::Zero),
        1 => (0u8..5).prop_map(WStep::Hard),
        3 => Just(WStep::FirstSlice),
    ]
}

pub fn arb_wscript() -> impl Strategy<Value = WScript> {
    (
        prop::collection::vec(arb_wstep(), 0..12),
        prop_oneof![
            4 => Just(WStep::AcceptAll),
            3 => (1u32..64).prop_map(WStep::AcceptK),
            2 => Just(WStep::FirstSlice),
        ],
        prop::collection::vec(prop::bool::weighted(0.7), 0..4),
    )
        .prop_map(|(steps, then, flushes)| WScript {
            steps,
            then,
            flushes,
        })
}

// ---------------------------------------------------------------------------------------------

/// scripted result of one `EntryIoStream::next` call
#[derive(Clone, Copy, Debug, PartialEq, Eq, Serialize, Deserialize)]
pub enum SRes {
    Ok,
    Validation,
    Io,
}

pub fn arb_sres() -> impl Strategy<Value = SRes> {
    prop_oneof![6 => Just(SRes::Ok), 2 => Just(SRes::Validation), 2 => Just(SRes::Io)]
}

#[derive(Debug, Default)]
pub struct StreamLog {
    /// recorded call log of every entry handed to `next`, with the scripted result
    pub nexts: Vec<(crate::reclog::RecLog, SRes)>,
    pub flushes: usize,
    pub dropped: bool,
    /// position in the global event order (filled by users that need it)
    pub events: Vec<StreamEvent>,
}

#[derive(Debug, Clone, PartialEq)]
pub enum StreamEvent {
    Next(usize),
    Flush,
    Dropped,
}

/// `EntryIoStream` that records every entry (as a `RecLog`) and answers from a script.
pub struct ScriptedStream {
    pub results: Vec<SRes>,
    pub flush_results: Vec<bool>,
    pub log: Arc<Mutex<StreamLog>>,
}

impl ScriptedStream {
    pub fn new(results: Vec<SRes>, flush_results: Vec<bool>) -> (Self, Arc<Mutex<StreamLog>>) {
        let log = Arc::new(Mutex::new(StreamLog::default()));
        (
            ScriptedStream {
                results,
                flush_results,
                log: log.clone(),
            },
            log,
        )
    }
}

impl EntryIoStream for ScriptedStream {
    fn next(&mut self, entry: &impl Entry) -> Result<(), IoStreamError> {
        let rec = crate::reclog::record(entry);
        let mut l = self.log.lock().unwrap();
        let i = l.nexts.len();
        let r = self.results.get(i).copied().unwrap_or(SRes::Ok);
        l.nexts.push((rec, r));
        l.events.push(StreamEvent::Next(i));
        match r {
            SRes::Ok => Ok(()),
            SRes::Validation => Err(IoStreamError::Validation(ValidationError::invalid(
                "scripted validation error",
            ))),
            SRes::Io => Err(IoStreamError::Io(io::Error::other("scripted io error"))),
        }
    }
    fn flush(&mut self) -> io::Result<()> {
        let mut l = self.log.lock().unwrap();
        let i = l.flushes;
        l.flushes += 1;
        l.events.push(StreamEvent::Flush);
        if self.flush_results.get(i).copied().unwrap_or(true) {
            Ok(())
        } else {
            Err(io::Error::other("scripted flush error"))
        }
    }
}

impl Drop for ScriptedStream {
    fn drop(&mut self) {
        let mut l = self.log.lock().unwrap();
        l.dropped = true;
        l.events.push(StreamEvent::Dropped);
    }
}
