//! Valid-by-construction EMF entries (the documented domain of C03/C08) and the C08 defect
//! injections.

use crate::emfh::*;
use crate::model::*;
use proptest::prelude::*;
use serde::{Deserialize, Serialize};

/// a short suffix that exercises escaping but keeps names readable
fn arb_suffix() -> impl Strategy<Value = String> {
    prop_oneof![
        6 => Just(String::new()),
        2 => "[a-z]{1,3}",
        3 => prop::collection::vec(special_char(), 1..4).prop_map(|v| v.into_iter().collect::<String>()),
    ]
}

#[derive(Clone, Debug)]
struct Ingredients {
    ctor: Ctor,
    namespaces: Vec<String>,
    cfg_dims: Vec<Vec<u8>>,
    directives: Vec<DirectiveG>,
    log_group: Option<String>,
    allow_ignored: bool,
    entry_dims: Option<Vec<Vec<u8>>>,
    suffixes: Vec<String>,
    dim_values: Vec<String>,
    strings: Vec<(u8, String)>,
    dimsets: Vec<Vec<(u8, String)>>,
    metrics: Vec<(u8, Vec<Obs>, UnitG, FlagG, u8, u8)>,
    nothings: Vec<u8>,
    timestamp: Option<(u64, u32)>,
    order: Vec<u16>,
    split_pos: u16,
    edims_pos: u16,
    split_anyway: bool,
}

fn dedup_keep_order<T: PartialEq + Clone>(v: &[T]) -> Vec<T> {
    let mut out: Vec<T> = vec![];
    for x in v {
        if !out.contains(x) {
            out.push(x.clone());
        }
    }
    out
}

fn build(ing: Ingredients, always_timestamp: bool) -> (EmfCfg, GenEntry) {
    let sfx = |i: usize| ing.suffixes[i % ing.suffixes.len()].clone();
    let dname = |i: u8| format!("D{}{}", i % 4, sfx(i as usize % 4));
    let ename = |i: u8| {
        if i % 4 == 3 {
            dname(0)
        } else {
            format!("E{}{}", i % 4, sfx(4 + i as usize % 4))
        }
    };
    let sname = |i: u8| format!("S{}{}", i % 6, sfx(8 + i as usize % 6));
    let mname = |i: u8| format!("M{}{}", i % 5, sfx(14 + i as usize % 5));
    let kname = |i: u8| format!("K{}{}", i % 4, sfx(19 + i as usize % 4));

    let cfg_dims: Vec<Vec<String>> = ing
        .cfg_dims
        .iter()
        .map(|s| dedup_keep_order(&s.iter().map(|i| dname(*i)).collect::<Vec<_>>()))
        .collect();
    let cfg = EmfCfg {
        ctor: ing.ctor,
        namespace: ing.namespaces[0].clone(),
        extra_namespaces: ing.namespaces[1..].to_vec(),
        dims: cfg_dims.clone(),
        directives: ing.directives.clone(),
        log_group: ing.log_group.clone(),
        allow_ignored: ing.allow_ignored,
    }
    .normalize();
    let entry_dims: Option<Vec<Vec<String>>> = ing.entry_dims.as_ref().map(|sets| {
        sets.iter()
            .map(|s| dedup_keep_order(&s.iter().map(|i| ename(*i)).collect::<Vec<_>>()))
            .collect()
    });

    // every declared dimension gets a string value
    let mut declared: Vec<String> = vec![];
    for s in cfg.dims.iter().chain(entry_dims.iter().flatten()) {
        for n in s {
            if !declared.contains(n) {
                declared.push(n.clone());
            }
        }
    }
    let mut items: Vec<Op> = vec![];
    for (i, n) in declared.iter().enumerate() {
        items.push(Op::Value {
            name: n.clone(),
            val: Val::Str(ing.dim_values[i % ing.dim_values.len()].clone()),
        });
    }
    let mut used_s: Vec<String> = vec![];
    for (i, v) in &ing.strings {
        let n = sname(*i);
        if !used_s.contains(&n) {
            used_s.push(n.clone());
            items.push(Op::Value {
                name: n,
                val: Val::Str(v.clone()),
            });
        }
    }
    // distinct dimension sets (distinct keys within a set)
    let mut dimsets: Vec<Vec<(String, String)>> = vec![];
    for ds in &ing.dimsets {
        let mut set: Vec<(String, String)> = vec![];
        for (k, v) in ds {
            let k = kname(*k);
            if !set.iter().any(|(k2, _)| *k2 == k) {
                set.push((k, v.clone()));
            }
        }
        if set.is_empty() {
            continue;
        }
        let mut sorted = set.clone();
        sorted.sort();
        if !dimsets.iter().any(|d| {
            let mut s2 = d.clone();
            s2.sort();
            s2 == sorted
        }) {
            dimsets.push(set);
        }
    }
    // metrics: unique (record, name); in ignored-dimension mode unique name overall
    let mut used_m: Vec<(usize, String)> = vec![];
    let mut dimensioned_items: Vec<usize> = vec![];
    for (ni, obs, unit, flags, ds, rot) in &ing.metrics {
        let name = mname(*ni);
        let rec = if dimsets.is_empty() {
            0
        } else {
            (*ds as usize) % (dimsets.len() + 1)
        };
        let key = if cfg.allow_ignored { 0 } else { rec };
        if used_m.contains(&(key, name.clone())) {
            continue;
        }
        used_m.push((key, name.clone()));
        let dims = if rec == 0 {
            vec![]
        } else {
            // present the same set in a rotated order: the formatter must still put it in the
            // same record
            let mut d = dimsets[rec - 1].clone();
            let r = (*rot as usize) % d.len();
            d.rotate_left(r);
            d
        };
        if !dims.is_empty() {
            dimensioned_items.push(items.len());
        }
        items.push(Op::Value {
            name,
            val: Val::Metric {
                obs: obs.clone(),
                unit: *unit,
                dims,
                flags: *flags,
            },
        });
    }
    for i in &ing.nothings {
        // a value that writes nothing may reuse any name
        let name = match i % 4 {
            0 => sname(*i),
            1 => mname(*i),
            2 => format!("N{i}"),
            _ => declared.first().cloned().unwrap_or_else(|| "N".into()),
        };
        items.push(Op::Value {
            name,
            val: Val::Nothing,
        });
    }
    let ts = match (ing.timestamp, always_timestamp) {
        (Some(t), _) => Some(t),
        (None, true) => Some((1_700_000_000, 123_456_789)),
        (None, false) => None,
    };
    if let Some((secs, nanos)) = ts {
        items.push(Op::Timestamp {
            secs,
            nanos,
            before_epoch: false,
        });
    }
    // deterministic shuffle driven by generated keys
    let mut keyed: Vec<(u16, usize, Op)> = items
        .into_iter()
        .enumerate()
        .map(|(i, op)| (ing.order[i % ing.order.len()].wrapping_mul(31).wrapping_add((i as u16).wrapping_mul(7919)), i, op))
        .collect();
    keyed.sort_by_key(|(k, i, _)| (*k, *i));
    let mut ops: Vec<Op> = keyed.into_iter().map(|(_, _, op)| op).collect();
    let first_dimensioned = ops.iter().position(|o| {
        matches!(o, Op::Value { val: Val::Metric { dims, .. }, .. } if !dims.is_empty())
    });
    let limit = first_dimensioned.unwrap_or(ops.len());
    if let Some(ed) = &entry_dims {
        let at = (ing.edims_pos as usize) % (limit + 1);
        ops.insert(at, Op::Config(CfgG::EntryDims(ed.clone())));
    }
    let first_dimensioned = ops.iter().position(|o| {
        matches!(o, Op::Value { val: Val::Metric { dims, .. }, .. } if !dims.is_empty())
    });
    let need_split = first_dimensioned.is_some() && !cfg.allow_ignored;
    if need_split || ing.split_anyway {
        let limit = first_dimensioned.unwrap_or(ops.len());
        let at = (ing.split_pos as usize) % (limit + 1);
        ops.insert(at, Op::Config(CfgG::AllowSplit));
    }
    (
        cfg,
        GenEntry {
            ops,
            sample_group: vec![],
        },
    )
}

fn arb_valid_obs() -> impl Strategy<Value = Vec<Obs>> {
    prop_oneof![
        1 => Just(vec![]),
        5 => prop::collection::vec(arb_obs(), 1..2),
        5 => prop::collection::vec(arb_obs(), 2..6),
    ]
}

fn arb_ingredients() -> impl Strategy<Value = Ingredients> {
    let cfgpart = (
        arb_ctor(),
        prop::collection::vec(arb_string(), 1..4),
        prop::collection::vec(prop::collection::vec(0u8..4, 0..4), 1..4),
        prop::collection::vec(arb_directive(), 0..3),
        prop::option::weighted(0.3, arb_string()),
        prop::bool::weighted(0.25),
        prop::collection::vec(arb_suffix(), 23..24),
    );
    let entrypart = (
        prop::option::weighted(0.35, prop::collection::vec(prop::collection::vec(0u8..4, 0..3), 1..3)),
        prop::collection::vec(arb_string(), 1..4),
        prop::collection::vec((0u8..6, arb_string()), 0..4),
        prop::collection::vec(prop::collection::vec((0u8..4, arb_string()), 1..4), 0..4),
        prop::collection::vec(
            (0u8..5, arb_valid_obs(), arb_unit(), arb_flag(true), 0u8..5, 0u8..4),
            0..8,
        ),
        prop::collection::vec(any::<u8>(), 0..3),
        prop::option::weighted(0.8, (prop_oneof![6 => 0u64..4_000_000_000, 1 => 4_000_000_000u64..253_402_300_800, 1 => Just(1u64 << 40), 1 => Just(0u64)], prop_oneof![4 => 0u32..1_000_000_000, 1 => Just(999_999_999u32), 1 => Just(999_999u32), 1 => Just(1_000_000u32)])),
    );
    let orderpart = (
        prop::collection::vec(any::<u16>(), 8..24),
        any::<u16>(),
        any::<u16>(),
        prop::bool::weighted(0.2),
    );
    (cfgpart, entrypart, orderpart).prop_map(|(c, e, o)| Ingredients {
        ctor: c.0,
        namespaces: c.1,
        cfg_dims: c.2,
        directives: c.3,
        log_group: c.4,
        allow_ignored: c.5,
        entry_dims: e.0,
        suffixes: c.6,
        dim_values: e.1,
        strings: e.2,
        dimsets: e.3,
        metrics: e.4,
        nothings: e.5,
        timestamp: e.6,
        order: o.0,
        split_pos: o.1,
        edims_pos: o.2,
        split_anyway: o.3,
    })
}

/// one configuration with several entries that are all valid for it
pub fn arb_valid_seq(
    n: std::ops::Range<usize>,
    always_timestamp: bool,
) -> impl Strategy<Value = (EmfCfg, Vec<GenEntry>)> {
    prop::collection::vec(arb_ingredients(), n).prop_map(move |ings| {
        let first = ings[0].clone();
        let mut cfg = None;
        let mut entries = vec![];
        for mut ing in ings {
            // same configuration part for every entry of the sequence
            ing.ctor = first.ctor;
            ing.namespaces = first.namespaces.clone();
            ing.cfg_dims = first.cfg_dims.clone();
            ing.directives = first.directives.clone();
            ing.log_group = first.log_group.clone();
            ing.allow_ignored = first.allow_ignored;
            ing.suffixes = first.suffixes.clone();
            let (c, e) = build(ing, always_timestamp);
            cfg = Some(c);
            entries.push(e);
        }
        (cfg.unwrap(), entries)
    })
}

/// (configuration, entry) pairs inside the documented domain: unique names per record, declared
/// dimensions written as strings, split / entry-dimension configuration before the first
/// dimensioned metric, at most one timestamp.
pub fn arb_valid(always_timestamp: bool) -> impl Strategy<Value = (EmfCfg, GenEntry)> {
    arb_ingredients().prop_map(move |ing| build(ing, always_timestamp))
}

// ---------------------------------------------------------------------------------------------
// defect injection (C08)

#[derive(Clone, Copy, Debug, PartialEq, Eq, Serialize, Deserialize)]
pub enum Defect {
    DupStringString,
    DupMetricMetric,
    DupMetricEmpty,
    DupMetricAllNan,
    DupStringThenMetric,
    DupMetricThenString,
    SecondTimestamp,
    EmptyName,
    AwsName,
    MetricUnderDimensionName,
    MissingDimension,
    DimsWithoutSplit,
    EmptyEntryDims,
    RepeatedEntryDims,
    LateEntryDims,
}

pub const ALL_DEFECTS: &[Defect] = &[
    Defect::DupStringString,
    Defect::DupMetricMetric,
    Defect::DupMetricEmpty,
    Defect::DupMetricAllNan,
    Defect::DupStringThenMetric,
    Defect::DupMetricThenString,
    Defect::SecondTimestamp,
    Defect::EmptyName,
    Defect::AwsName,
    Defect::MetricUnderDimensionName,
    Defect::MissingDimension,
    Defect::DimsWithoutSplit,
    Defect::EmptyEntryDims,
    Defect::RepeatedEntryDims,
    Defect::LateEntryDims,
];

impl Defect {
    pub fn name(self) -> &'static str {
        match self {
            Defect::DupStringString => "dup-string-string",
            Defect::DupMetricMetric => "dup-metric-metric",
            Defect::DupMetricEmpty => "dup-metric-empty",
            Defect::DupMetricAllNan => "dup-metric-allnan",
            Defect::DupStringThenMetric => "dup-string-then-metric",
            Defect::DupMetricThenString => "dup-metric-then-string",
            Defect::SecondTimestamp => "second-timestamp",
            Defect::EmptyName => "empty-name",
            Defect::AwsName => "aws-name",
            Defect::MetricUnderDimensionName => "metric-under-dimension-name",
            Defect::MissingDimension => "missing-dimension",
            Defect::DimsWithoutSplit => "dims-without-split",
            Defect::EmptyEntryDims => "empty-entry-dims",
            Defect::RepeatedEntryDims => "repeated-entry-dims",
            Defect::LateEntryDims => "late-entry-dims",
        }
    }
    /// rejected whatever the validation setting (not gated by the skip flags)
    pub fn unconditional(self) -> bool {
        matches!(
            self,
            Defect::SecondTimestamp
                | Defect::DimsWithoutSplit
                | Defect::EmptyEntryDims
                | Defect::RepeatedEntryDims
                | Defect::LateEntryDims
        )
    }
}

fn idx(seed: u32, len: usize) -> usize {
    // monotone index mapping (shrinks towards 0)
    ((seed as u64 * len as u64) >> 32) as usize
}

fn is_dimensioned(o: &Op) -> bool {
    matches!(o, Op::Value { val: Val::Metric { dims, .. }, .. } if !dims.is_empty())
}

fn one_obs() -> Vec<Obs> {
    vec![Obs::U(7)]
}

/// Apply one defect to a valid entry. `None` when the entry has nothing the defect can attach to.
pub fn inject(cfg: &EmfCfg, e: &GenEntry, d: Defect, seed: u32, pos: u32) -> Option<GenEntry> {
    let mut ops = e.ops.clone();
    let strings: Vec<usize> = ops
        .iter()
        .enumerate()
        .filter(|(_, o)| matches!(o, Op::Value { val: Val::Str(_), .. }))
        .map(|(i, _)| i)
        .collect();
    let metrics: Vec<usize> = ops
        .iter()
        .enumerate()
        .filter(|(_, o)| matches!(o, Op::Value { val: Val::Metric { .. }, .. }))
        .map(|(i, _)| i)
        .collect();
    let name_of = |ops: &Vec<Op>, i: usize| match &ops[i] {
        Op::Value { name, .. } => name.clone(),
        _ => unreachable!(),
    };
    let dims_of = |ops: &Vec<Op>, i: usize| match &ops[i] {
        Op::Value {
            val: Val::Metric { dims, .. },
            ..
        } => dims.clone(),
        _ => vec![],
    };
    // a metric written with dimensions needs the split config to be before it
    let first_split = ops
        .iter()
        .position(|o| matches!(o, Op::Config(CfgG::AllowSplit)));
    let insert_after = |ops: &mut Vec<Op>, min: usize, op: Op| {
        let at = min + idx(pos, ops.len() - min + 1);
        ops.insert(at.min(ops.len()), op);
    };
    match d {
        Defect::DupStringString => {
            let i = *strings.get(idx(seed, strings.len().max(1)))?;
            let n = name_of(&ops, i);
            insert_after(&mut ops, 0, Op::Value { name: n, val: Val::Str("dup".into()) });
        }
        Defect::DupMetricMetric | Defect::DupMetricEmpty | Defect::DupMetricAllNan => {
            let i = *metrics.get(idx(seed, metrics.len().max(1)))?;
            let n = name_of(&ops, i);
            let dims = if cfg.allow_ignored { vec![] } else { dims_of(&ops, i) };
            let obs = match d {
                Defect::DupMetricMetric => one_obs(),
                Defect::DupMetricEmpty => vec![],
                _ => vec![Obs::Fl(F(f64::NAN))],
            };
            let min = if dims.is_empty() { 0 } else { first_split.map(|s| s + 1).unwrap_or(0) };
            insert_after(
                &mut ops,
                min,
                Op::Value {
                    name: n,
                    val: Val::Metric { obs, unit: UnitG(0), dims, flags: FlagG::None },
                },
            );
        }
        Defect::DupStringThenMetric => {
            let i = *strings.get(idx(seed, strings.len().max(1)))?;
            let n = name_of(&ops, i);
            // a declared dimension written as a metric is the separate defect below
            if cfg.dims.iter().flatten().any(|x| *x == n) {
                return None;
            }
            if e.ops.iter().any(|o| matches!(o, Op::Config(CfgG::EntryDims(s)) if s.iter().flatten().any(|x| *x == n))) {
                return None;
            }
            insert_after(
                &mut ops,
                0,
                Op::Value {
                    name: n,
                    val: Val::Metric { obs: one_obs(), unit: UnitG(0), dims: vec![], flags: FlagG::None },
                },
            );
        }
        Defect::DupMetricThenString => {
            let i = *metrics.get(idx(seed, metrics.len().max(1)))?;
            let n = name_of(&ops, i);
            insert_after(&mut ops, 0, Op::Value { name: n, val: Val::Str("dup".into()) });
        }
        Defect::SecondTimestamp => {
            if !ops.iter().any(|o| matches!(o, Op::Timestamp { .. })) {
                ops.push(Op::Timestamp { secs: 5, nanos: 0, before_epoch: false });
            }
            // "more than one timestamp" - also when the second one repeats the first exactly
            let second = if seed % 2 == 0 {
                ops.iter().find(|o| matches!(o, Op::Timestamp { .. })).cloned().unwrap()
            } else {
                Op::Timestamp { secs: 6, nanos: 1, before_epoch: false }
            };
            insert_after(&mut ops, 0, second);
        }
        Defect::EmptyName | Defect::AwsName => {
            let name = if d == Defect::EmptyName { "" } else { "_aws" }.to_string();
            let val = match seed % 3 {
                0 => Val::Str("x".into()),
                1 => Val::Metric { obs: one_obs(), unit: UnitG(0), dims: vec![], flags: FlagG::None },
                _ => Val::Metric { obs: vec![], unit: UnitG(0), dims: vec![], flags: FlagG::None },
            };
            insert_after(&mut ops, 0, Op::Value { name, val });
        }
        Defect::MetricUnderDimensionName => {
            let mut declared: Vec<String> = cfg.dims.iter().flatten().cloned().collect();
            for o in &e.ops {
                if let Op::Config(CfgG::EntryDims(s)) = o {
                    declared.extend(s.iter().flatten().cloned());
                }
            }
            if declared.is_empty() {
                return None;
            }
            let n = declared[idx(seed, declared.len())].clone();
            let m = Op::Value {
                name: n.clone(),
                val: Val::Metric { obs: one_obs(), unit: UnitG(0), dims: vec![], flags: FlagG::None },
            };
            if pos % 2 == 0 {
                // replace the string by a metric
                let i = ops.iter().position(|o| matches!(o, Op::Value { name, val: Val::Str(_) } if *name == n))?;
                ops[i] = m;
            } else {
                insert_after(&mut ops, 0, m);
            }
        }
        Defect::MissingDimension => {
            let mut declared: Vec<String> = cfg.dims.iter().flatten().cloned().collect();
            for o in &e.ops {
                if let Op::Config(CfgG::EntryDims(s)) = o {
                    declared.extend(s.iter().flatten().cloned());
                }
            }
            if declared.is_empty() {
                return None;
            }
            let n = declared[idx(seed, declared.len())].clone();
            let before = ops.len();
            ops.retain(|o| !matches!(o, Op::Value { name, val: Val::Str(_) } if *name == n));
            if ops.len() == before {
                return None;
            }
        }
        Defect::DimsWithoutSplit => {
            if cfg.allow_ignored || !ops.iter().any(is_dimensioned) {
                return None;
            }
            ops.retain(|o| !matches!(o, Op::Config(CfgG::AllowSplit)));
        }
        Defect::EmptyEntryDims => {
            if ops.iter().any(|o| matches!(o, Op::Config(CfgG::EntryDims(_)))) {
                return None;
            }
            let limit = ops.iter().position(is_dimensioned).unwrap_or(ops.len());
            let at = idx(pos, limit + 1);
            ops.insert(at, Op::Config(CfgG::EntryDims(vec![])));
        }
        Defect::RepeatedEntryDims => {
            let limit = ops.iter().position(is_dimensioned).unwrap_or(ops.len());
            let at = idx(pos, limit + 1);
            match ops.iter().position(|o| matches!(o, Op::Config(CfgG::EntryDims(_)))) {
                Some(i) => {
                    // the repetition is an identical copy, the neutral set list [[]] (one set naming
                    // no dimension: it changes nothing, it is still a second configuration), or the
                    // same list with its sets in reverse order
                    let c = match (&ops[i], seed % 3) {
                        (_, 1) => Op::Config(CfgG::EntryDims(vec![vec![]])),
                        (Op::Config(CfgG::EntryDims(sets)), 2) => Op::Config(CfgG::EntryDims(sets.iter().rev().cloned().collect())),
                        (c, _) => c.clone(),
                    };
                    ops.insert(at, c);
                }
                None => {
                    // an entry without entry dimensions: the neutral list given twice, or the
                    // neutral list followed by one naming a dimension the entry does write
                    let second = match (seed % 2, cfg.dims.iter().flatten().next()) {
                        (1, Some(n)) => vec![vec![n.clone()]],
                        _ => vec![vec![]],
                    };
                    ops.insert(at, Op::Config(CfgG::EntryDims(second)));
                    ops.insert(at, Op::Config(CfgG::EntryDims(vec![vec![]])));
                }
            }
        }
        Defect::LateEntryDims => {
            if cfg.allow_ignored {
                return None;
            }
            let first = ops.iter().position(is_dimensioned)?;
            let c = match ops.iter().position(|o| matches!(o, Op::Config(CfgG::EntryDims(_)))) {
                Some(i) => ops.remove(i),
                None => {
                    // only names that are already written as strings, so that lateness is the
                    // only defect
                    let n: Vec<String> = cfg.dims.iter().flatten().take(1).cloned().collect();
                    Op::Config(CfgG::EntryDims(vec![n]))
                }
            };
            let first = ops.iter().position(is_dimensioned).unwrap_or(first);
            let at = first + 1 + idx(pos, ops.len() - first);
            ops.insert(at.min(ops.len()), c);
        }
    }
    Some(GenEntry {
        ops,
        sample_group: e.sample_group.clone(),
    })
}

pub fn arb_defect() -> impl Strategy<Value = Defect> {
    prop::sample::select(ALL_DEFECTS.to_vec())
}
