use vh::engine::{self, Ctx, Replay, Tier};

fn main() {
    let args: Vec<String> = std::env::args().collect();
    if args.len() < 2 {
        eprintln!("usage: vcheck <ID> [quick|thorough] [--replay <file>]");
        std::process::exit(2);
    }
    let id = args[1].clone();
    if args.len() >= 4 && args[2] == "--child" {
        // single-history child processes (state that cannot be undone in-process)
        engine::install_quiet_panic_hook();
        let rc = match id.as_str() {
            "C17" => vh::props::c17::child_forget(&args[3]),
            "C01" => vh::props::c01::child_subscriber(&args[3]),
            _ => 2,
        };
        std::process::exit(rc);
    }
    let mut tier = match std::env::var("VERIF_TIER").ok().as_deref() {
        Some("thorough") => Tier::Thorough,
        _ => Tier::Quick,
    };
    let mut replay = None;
    let mut i = 2;
    while i < args.len() {
        match args[i].as_str() {
            "quick" => tier = Tier::Quick,
            "thorough" => tier = Tier::Thorough,
            "--replay" => {
                i += 1;
                let txt = std::fs::read_to_string(&args[i]).expect("read replay file");
                let doc: serde_json::Value = serde_json::from_str(&txt).expect("replay json");
                replay = Some(Replay {
                    check: doc["check"].as_str().expect("check").to_string(),
                    case: doc["case"].clone(),
                });
            }
            other => {
                eprintln!("unknown argument {other}");
                std::process::exit(2);
            }
        }
        i += 1;
    }
    let seed = std::env::var("VERIF_SEED")
        .ok()
        .and_then(|s| {
            let s = s.trim();
            if let Some(h) = s.strip_prefix("0x") {
                u64::from_str_radix(h, 16).ok()
            } else {
                s.parse::<u64>().ok().or_else(|| s.parse::<i64>().ok().map(|v| v as u64))
            }
        })
        .unwrap_or(0x5EED);
    engine::install_quiet_panic_hook();
    let budget = std::env::var("VERIF_WATCHDOG_S")
        .ok()
        .and_then(|s| s.parse().ok())
        .unwrap_or(match tier {
            Tier::Quick => 1500,
            Tier::Thorough => 4 * 3600,
        });
    engine::arm_watchdog(budget);
    // regression tier: every stored replay of this property runs first, bypassing proptest
    let mut regress_failed = false;
    let mut regress_n = 0u64;
    if replay.is_none() {
        let dir = format!("{}/replays/regress/{}", engine::verif_root(), id);
        let mut files: Vec<_> = std::fs::read_dir(&dir)
            .map(|d| d.filter_map(|e| e.ok()).map(|e| e.path()).collect())
            .unwrap_or_default();
        files.sort();
        for f in files {
            let Ok(txt) = std::fs::read_to_string(&f) else { continue };
            let Ok(doc) = serde_json::from_str::<serde_json::Value>(&txt) else { continue };
            let Some(check) = doc["check"].as_str() else { continue };
            let mut rctx = Ctx::new(
                &id,
                tier,
                seed,
                Some(Replay {
                    check: check.to_string(),
                    case: doc["case"].clone(),
                }),
            );
            vh::props::run(&id, &mut rctx);
            regress_n += 1;
            if rctx.replay_failed {
                regress_failed = true;
                println!("VIOLATION property={} replay={}", id, f.display());
            }
        }
    }
    let mut ctx = Ctx::new(&id, tier, seed, replay);
    ctx.extra.insert("regression_replays_run".into(), regress_n.into());
    // safety net: a panic that escapes a sub-check (library code called outside `explore` /
    // `no_panic`) must not take the report with it - what was found before it stands (exit 1 if
    // a violation was reported), the rest of the run is inconclusive (exit 2), never a pass
    let known = match std::panic::catch_unwind(std::panic::AssertUnwindSafe(|| vh::props::run(&id, &mut ctx))) {
        Ok(k) => k,
        Err(_) => {
            let m = engine::take_last_panic().unwrap_or_else(|| "<unknown panic>".into());
            ctx.inconclusive.push(format!("a panic escaped a sub-check, the remaining sub-checks did not run: {m}"));
            true
        }
    };
    if !known {
        eprintln!("unknown property {id}");
        std::process::exit(2);
    }
    let rc = ctx.finish();
    std::process::exit(if regress_failed { 1 } else { rc });
}
