//! Generator of `#[metrics]` programs (C07): trees of type definitions, the Rust source for them,
//! and the reference interpreter of the documented naming rules.

use inflector::Inflector;
use proptest::prelude::*;
use serde::{Deserialize, Serialize};

#[derive(Clone, Copy, Debug, PartialEq, Eq, Serialize, Deserialize)]
pub enum Style {
    Pascal,
    Snake,
    Kebab,
}
impl Style {
    pub fn attr(self) -> &'static str {
        match self {
            Style::Pascal => "PascalCase",
            Style::Snake => "snake_case",
            Style::Kebab => "kebab-case",
        }
    }
}

/// effective style: None = identity (no rename_all on the path)
pub fn apply(style: Option<Style>, s: &str) -> String {
    match style {
        None => s.to_string(),
        Some(Style::Pascal) => s.to_pascal_case(),
        Some(Style::Snake) => s.to_snake_case(),
        Some(Style::Kebab) => s.to_kebab_case(),
    }
}
/// documented behaviour of an inflectable *flatten* prefix: inflected, delimiter appended in
/// snake / kebab styles
pub fn apply_prefix(style: Option<Style>, p: &str) -> String {
    match style {
        None => p.to_string(),
        Some(Style::Pascal) => p.to_pascal_case(),
        Some(Style::Snake) => {
            let mut r = p.to_snake_case();
            if !r.ends_with('_') {
                r.push('_');
            }
            r
        }
        Some(Style::Kebab) => {
            let mut r = p.to_kebab_case();
            if !r.ends_with('-') {
                r.push('-');
            }
            r
        }
    }
}

#[derive(Clone, Debug, PartialEq, Serialize, Deserialize)]
pub enum Pfx {
    Inflect(String),
    Exact(String),
}

#[derive(Clone, Copy, Debug, PartialEq, Serialize, Deserialize)]
pub enum Ty {
    U64,
    U32,
    F64,
    Bool,
    Duration,
    String,
    StaticStr,
}

#[derive(Clone, Copy, Debug, PartialEq, Serialize, Deserialize)]
pub enum Opt {
    No,
    Some,
    None,
}

#[derive(Clone, Debug, PartialEq, Serialize, Deserialize)]
pub enum FKind {
    Plain {
        ty: Ty,
        name: Option<String>,
        /// unit tag type name in metrique::unit
        unit: Option<String>,
        opt: Opt,
        sample_group: bool,
    },
    Ignore,
    Flatten {
        child: Box<Node>,
        prefix: Option<Pfx>,
    },
    /// `#[metrics(value)] struct V(u64)` newtype
    ValueStruct {
        type_name: String,
        unit: Option<String>,
    },
    /// `#[metrics(value(string))] enum`
    StrEnum {
        type_name: String,
        rename_all: Option<Style>,
        variants: Vec<(String, Option<String>)>,
        active: usize,
        sample_group: bool,
    },
}

#[derive(Clone, Debug, PartialEq, Serialize, Deserialize)]
pub struct Field {
    pub ident: String,
    pub kind: FKind,
    pub val: u32,
}

#[derive(Clone, Debug, PartialEq, Serialize, Deserialize)]
pub enum VData {
    Unit,
    Tuple { child: Box<Node>, prefix: Option<Pfx> },
    Struct(Vec<Field>),
}

#[derive(Clone, Debug, PartialEq, Serialize, Deserialize)]
pub struct Variant {
    pub ident: String,
    pub name: Option<String>,
    pub data: VData,
}

#[derive(Clone, Debug, PartialEq, Serialize, Deserialize)]
pub enum Tag {
    Name(String),
    NameExact(String),
}

#[derive(Clone, Copy, Debug, PartialEq, Serialize, Deserialize)]
pub enum Mode {
    Root,
    Subfield,
    SubfieldOwned,
}

#[derive(Clone, Debug, PartialEq, Serialize, Deserialize)]
pub struct Node {
    pub type_name: String,
    pub rename_all: Option<Style>,
    pub cprefix: Option<Pfx>,
    pub mode: Mode,
    /// struct fields; for enums the variants are used
    pub fields: Vec<Field>,
    pub variants: Vec<Variant>,
    pub active: usize,
    pub tag: Option<(Tag, bool)>,
}

impl Node {
    pub fn is_enum(&self) -> bool {
        !self.variants.is_empty()
    }
}

// ---------------------------------------------------------------------------------------------
// reference interpreter

#[derive(Clone, Debug, PartialEq)]
pub struct Exp {
    pub name: String,
    pub kind: &'static str,
    pub value: String,
    pub unit: String,
}

pub struct NameCtx {
    pub style: Option<Style>,
    pub chain: String,
    /// compute what known finding D9 produces instead of the documented names: flatten prefixes
    /// (field-level and tuple-variant-level) are NOT added to the chain. Only the sample-group
    /// output of such a run is meaningful.
    pub d9_sample_group_names: bool,
}

fn unit_name(tag: &str) -> &'static str {
    match tag {
        "Count" => "Count",
        "Percent" => "Percent",
        "Second" => "Seconds",
        "Millisecond" => "Milliseconds",
        "Microsecond" => "Microseconds",
        "Byte" => "Bytes",
        "Kilobyte" => "Kilobytes",
        "Megabyte" => "Megabytes",
        "Gigabit" => "Gigabits",
        "BitPerSecond" => "Bits/Second",
        "TerabytePerSecond" => "Terabytes/Second",
        _ => "None",
    }
}

fn plain_value(ty: Ty, val: u32, unit: &Option<String>) -> (&'static str, String, String) {
    match ty {
        Ty::U64 | Ty::U32 => ("M", format!("{}", val), unit.as_deref().map(unit_name).unwrap_or("None").to_string()),
        Ty::F64 => ("M", format!("{}", val as f64 + 0.5), unit.as_deref().map(unit_name).unwrap_or("None").to_string()),
        Ty::Bool => ("M", format!("{}", val % 2), "None".to_string()),
        Ty::Duration => {
            // Duration::from_secs(val): milliseconds by default
            let secs = val as f64;
            match unit.as_deref() {
                Some("Second") => ("M", format!("{}", secs), "Seconds".to_string()),
                Some("Microsecond") => ("M", format!("{}", secs * 1e6), "Microseconds".to_string()),
                _ => ("M", format!("{}", secs * 1e3), "Milliseconds".to_string()),
            }
        }
        Ty::String | Ty::StaticStr => ("S", format!("v{val}"), String::new()),
    }
}

/// local (un-chained) name of a field-like identifier in container `n` under effective `style`
fn local_name(n: &Node, style: Option<Style>, ident: &str, name_override: &Option<String>) -> String {
    if let Some(o) = name_override {
        return o.clone();
    }
    match &n.cprefix {
        Some(Pfx::Exact(p)) => format!("{p}{}", apply(style, ident)),
        Some(Pfx::Inflect(p)) => apply(style, &format!("{p}{ident}")),
        None => apply(style, ident),
    }
}

/// how a flattened child is held, decided by the field's value and the child's close mode: 0 =
/// bare, 1 = `Option<Child>` holding Some, 2 = `Option<Child>` holding None (contributes nothing),
/// 4 = `Arc<Child>` (needs a child closeable by reference), 5 = `Cow<'static, ChildEntry>` holding
/// the child's closed entry
pub fn flatten_wrap(val: u32, child: &Node) -> u8 {
    match val % 7 {
        0 => 1,
        1 => 2,
        2 if child.mode == Mode::Subfield => 4,
        // the child's CLOSED entry held in a Cow (a pre-closed, shared context entry); a Cow is
        // closed by value only, i.e. the parent must be - which an owned child guarantees
        3 if child.mode == Mode::SubfieldOwned => 5,
        _ => 0,
    }
}

fn child_ctx(style: Option<Style>, chain: &str, prefix: &Option<Pfx>, d9: bool) -> String {
    if d9 {
        return chain.to_string();
    }
    match prefix {
        None => chain.to_string(),
        Some(Pfx::Exact(p)) => format!("{chain}{p}"),
        Some(Pfx::Inflect(p)) => format!("{chain}{}", apply_prefix(style, p)),
    }
}

fn fields_expected(n: &Node, style: Option<Style>, chain: &str, d9: bool, fields: &[Field], out: &mut Vec<Exp>, sg: &mut Vec<(String, String)>) {
    for f in fields {
        match &f.kind {
            FKind::Ignore => {}
            FKind::Plain {
                ty,
                name,
                unit,
                opt,
                sample_group,
            } => {
                if *opt == Opt::None {
                    continue;
                }
                let (kind, value, unit) = plain_value(*ty, f.val, unit);
                let full = format!("{chain}{}", local_name(n, style, &f.ident, name));
                if *sample_group {
                    sg.push((full.clone(), value.clone()));
                }
                out.push(Exp {
                    name: full,
                    kind,
                    value,
                    unit,
                });
            }
            FKind::ValueStruct { unit, .. } => {
                let full = format!("{chain}{}", local_name(n, style, &f.ident, &None));
                out.push(Exp {
                    name: full,
                    kind: "M",
                    value: format!("{}", f.val),
                    unit: unit.as_deref().map(unit_name).unwrap_or("None").to_string(),
                });
            }
            FKind::StrEnum {
                rename_all,
                variants,
                active,
                sample_group,
                ..
            } => {
                let (vi, vn) = &variants[*active % variants.len()];
                // a value enum names its variants by its OWN rename_all (never prefixed)
                let value = match vn {
                    Some(n) => n.clone(),
                    None => apply(*rename_all, vi),
                };
                let full = format!("{chain}{}", local_name(n, style, &f.ident, &None));
                if *sample_group {
                    sg.push((full.clone(), value.clone()));
                }
                out.push(Exp {
                    name: full,
                    kind: "S",
                    value,
                    unit: String::new(),
                });
            }
            FKind::Flatten { child, prefix } => {
                if flatten_wrap(f.val, child) == 2 {
                    // an absent flattened Option contributes no item and no sample-group pair
                    continue;
                }
                let c = child_ctx(style, chain, prefix, d9);
                expected(child, &NameCtx { style, chain: c, d9_sample_group_names: d9 }, out, sg);
            }
        }
    }
}

/// expected ordered items + sample group of `n` reached with context `ctx`
pub fn expected(n: &Node, ctx: &NameCtx, out: &mut Vec<Exp>, sg: &mut Vec<(String, String)>) {
    let style = n.rename_all.or(ctx.style);
    if !n.is_enum() {
        fields_expected(n, style, &ctx.chain, ctx.d9_sample_group_names, &n.fields, out, sg);
        return;
    }
    let v = &n.variants[n.active % n.variants.len()];
    if let Some((tag, tag_sg)) = &n.tag {
        let tag_name = match tag {
            // documented: like a field (respects prefix and rename_all)
            Tag::Name(t) => local_name(n, style, t, &None),
            // documented: exact, not affected by prefix or rename_all
            Tag::NameExact(t) => t.clone(),
        };
        // tag value: variant `name`, else the variant identifier in the enum's OWN rename_all
        // (exactly like a value(string) enum names its variants); never prefixed, and - being a
        // value, not a name - not subject to a style inherited from a parent
        let value = match &v.name {
            Some(n) => n.clone(),
            None => apply(n.rename_all, &v.ident),
        };
        let full = format!("{}{}", ctx.chain, tag_name);
        if *tag_sg {
            sg.push((full.clone(), value.clone()));
        }
        out.push(Exp {
            name: full,
            kind: "S",
            value,
            unit: String::new(),
        });
    }
    match &v.data {
        VData::Unit => {}
        VData::Tuple { child, prefix } => {
            let c = child_ctx(style, &ctx.chain, prefix, ctx.d9_sample_group_names);
            expected(child, &NameCtx { style, chain: c, d9_sample_group_names: ctx.d9_sample_group_names }, out, sg);
        }
        VData::Struct(fields) => fields_expected(n, style, &ctx.chain, ctx.d9_sample_group_names, fields, out, sg),
    }
}

// ---------------------------------------------------------------------------------------------
// source emission

fn pfx_attr(p: &Option<Pfx>) -> String {
    match p {
        None => String::new(),
        Some(Pfx::Inflect(s)) => format!(", prefix = {:?}", s),
        Some(Pfx::Exact(s)) => format!(", exact_prefix = {:?}", s),
    }
}

fn ty_src(ty: Ty) -> &'static str {
    match ty {
        Ty::U64 => "u64",
        Ty::U32 => "u32",
        Ty::F64 => "f64",
        Ty::Bool => "bool",
        Ty::Duration => "std::time::Duration",
        Ty::String => "String",
        Ty::StaticStr => "&'static str",
    }
}

fn val_src(ty: Ty, val: u32) -> String {
    match ty {
        Ty::U64 => format!("{val}u64"),
        Ty::U32 => format!("{val}u32"),
        Ty::F64 => format!("{}f64", val as f64 + 0.5),
        Ty::Bool => format!("{}", val % 2 == 1),
        Ty::Duration => format!("std::time::Duration::from_secs({val})"),
        Ty::String => format!("String::from(\"v{val}\")"),
        Ty::StaticStr => format!("\"v{val}\""),
    }
}

fn field_decl(f: &Field, defs: &mut Vec<String>, named: bool) -> String {
    let id = if named { format!("{}: ", f.ident) } else { String::new() };
    match &f.kind {
        FKind::Ignore => format!("    #[metrics(ignore)]\n    {id}u8,\n"),
        FKind::Plain {
            ty,
            name,
            unit,
            opt,
            sample_group,
        } => {
            let mut attrs: Vec<String> = vec![];
            if let Some(n) = name {
                attrs.push(format!("name = {:?}", n));
            }
            if let Some(u) = unit {
                attrs.push(format!("unit = metrique::unit::{u}"));
            }
            if *sample_group {
                attrs.push("sample_group".into());
            }
            let a = if attrs.is_empty() {
                String::new()
            } else {
                format!("    #[metrics({})]\n", attrs.join(", "))
            };
            let t = if *opt == Opt::No {
                ty_src(*ty).to_string()
            } else {
                format!("Option<{}>", ty_src(*ty))
            };
            format!("{a}    {id}{t},\n")
        }
        FKind::ValueStruct { type_name, unit } => {
            let inner = match unit {
                Some(u) => format!("#[metrics(unit = metrique::unit::{u})] u64"),
                None => "u64".to_string(),
            };
            defs.push(format!("#[metrics(value)]\n#[derive(Clone)]\npub struct {type_name}({inner});\n"));
            format!("    {id}{type_name},\n")
        }
        FKind::StrEnum {
            type_name,
            rename_all,
            variants,
            sample_group,
            ..
        } => {
            let ra = rename_all.map(|s| format!(", rename_all = {:?}", s.attr())).unwrap_or_default();
            let mut d = format!("#[metrics(value(string){ra})]\n#[derive(Clone, Copy)]\npub enum {type_name} {{\n");
            for (vi, vn) in variants {
                if let Some(n) = vn {
                    d.push_str(&format!("    #[metrics(name = {:?})]\n", n));
                }
                d.push_str(&format!("    {vi},\n"));
            }
            d.push_str("}\n");
            defs.push(d);
            let a = if *sample_group { "    #[metrics(sample_group)]\n" } else { "" };
            format!("{a}    {id}{type_name},\n")
        }
        FKind::Flatten { child, prefix } => {
            emit_type(child, defs);
            let t = match flatten_wrap(f.val, child) {
                1 | 2 => format!("Option<{}>", child.type_name),
                4 => format!("std::sync::Arc<{}>", child.type_name),
                5 => format!("std::borrow::Cow<'static, <{} as metrique::CloseValue>::Closed>", child.type_name),
                _ => child.type_name.clone(),
            };
            format!("    #[metrics(flatten{})]\n    {id}{t},\n", pfx_attr(prefix))
        }
    }
}

fn field_init(f: &Field, named: bool) -> String {
    let id = if named { format!("{}: ", f.ident) } else { String::new() };
    match &f.kind {
        FKind::Ignore => format!("{id}0u8"),
        FKind::Plain { ty, opt, .. } => match opt {
            Opt::No => format!("{id}{}", val_src(*ty, f.val)),
            Opt::Some => format!("{id}Some({})", val_src(*ty, f.val)),
            Opt::None => format!("{id}None"),
        },
        FKind::ValueStruct { type_name, .. } => format!("{id}{type_name}({}u64)", f.val),
        FKind::StrEnum {
            type_name,
            variants,
            active,
            ..
        } => format!("{id}{type_name}::{}", variants[*active % variants.len()].0),
        FKind::Flatten { child, .. } => match flatten_wrap(f.val, child) {
            1 => format!("{id}Some({})", instance(child)),
            2 => format!("{id}None"),
            4 => format!("{id}std::sync::Arc::new({})", instance(child)),
            5 => format!("{id}std::borrow::Cow::Owned(metrique::CloseValue::close({}))", instance(child)),
            _ => format!("{id}{}", instance(child)),
        },
    }
}

/// Rust expression constructing the instance of `n`
pub fn instance(n: &Node) -> String {
    if !n.is_enum() {
        let inits: Vec<String> = n.fields.iter().map(|f| field_init(f, true)).collect();
        return format!("{} {{ {} }}", n.type_name, inits.join(", "));
    }
    let v = &n.variants[n.active % n.variants.len()];
    match &v.data {
        VData::Unit => format!("{}::{}", n.type_name, v.ident),
        VData::Tuple { child, .. } => format!("{}::{}({})", n.type_name, v.ident, instance(child)),
        VData::Struct(fields) => {
            let inits: Vec<String> = fields.iter().map(|f| field_init(f, true)).collect();
            format!("{}::{} {{ {} }}", n.type_name, v.ident, inits.join(", "))
        }
    }
}

/// emit the type definition of `n` (children first) into `defs`
pub fn emit_type(n: &Node, defs: &mut Vec<String>) {
    let mut attrs: Vec<String> = vec![];
    match n.mode {
        Mode::Root => {}
        Mode::Subfield => attrs.push("subfield".into()),
        Mode::SubfieldOwned => attrs.push("subfield_owned".into()),
    }
    if let Some(s) = n.rename_all {
        attrs.push(format!("rename_all = {:?}", s.attr()));
    }
    match &n.cprefix {
        Some(Pfx::Inflect(p)) => attrs.push(format!("prefix = {:?}", p)),
        Some(Pfx::Exact(p)) => attrs.push(format!("exact_prefix = {:?}", p)),
        None => {}
    }
    if let Some((t, sg)) = &n.tag {
        let sgs = if *sg { ", sample_group" } else { "" };
        match t {
            Tag::Name(x) => attrs.push(format!("tag(name = {:?}{sgs})", x)),
            Tag::NameExact(x) => attrs.push(format!("tag(name_exact = {:?}{sgs})", x)),
        }
    }
    let head = if attrs.is_empty() {
        "#[metrics]".to_string()
    } else {
        format!("#[metrics({})]", attrs.join(", "))
    };
    let mut body = String::new();
    if !n.is_enum() {
        for f in &n.fields {
            body.push_str(&field_decl(f, defs, true));
        }
        defs.push(format!("{head}\n#[derive(Clone)]\npub struct {} {{\n{body}}}\n", n.type_name));
    } else {
        for v in &n.variants {
            if let Some(name) = &v.name {
                body.push_str(&format!("    #[metrics(name = {:?})]\n", name));
            }
            match &v.data {
                VData::Unit => body.push_str(&format!("    {},\n", v.ident)),
                VData::Tuple { child, prefix } => {
                    emit_type(child, defs);
                    body.push_str(&format!(
                        "    {}(#[metrics(flatten{})] {}),\n",
                        v.ident,
                        pfx_attr(prefix),
                        child.type_name
                    ));
                }
                VData::Struct(fields) => {
                    body.push_str(&format!("    {} {{\n", v.ident));
                    for f in fields {
                        let d = field_decl(f, defs, true);
                        for line in d.lines() {
                            body.push_str(&format!("    {line}\n"));
                        }
                    }
                    body.push_str("    },\n");
                }
            }
        }
        defs.push(format!("{head}\n#[derive(Clone)]\npub enum {} {{\n{body}}}\n", n.type_name));
    }
}

fn lit(s: &str) -> String {
    format!("{:?}", s)
}

/// one generated `main.rs` for a list of roots
pub fn program(roots: &[Node]) -> String {
    let mut src = String::from(
        "// generated by vh::c07gen -- do not edit\n#![allow(non_snake_case, non_camel_case_types, dead_code, unused)]\nuse metrique::unit_of_work::metrics;\nuse metrique::CloseValue;\n\n",
    );
    let mut main = String::from("fn main() {\n");
    for (i, r) in roots.iter().enumerate() {
        let mut defs = vec![];
        emit_type(r, &mut defs);
        src.push_str(&format!("mod r{i} {{\n    use super::*;\n"));
        for d in defs {
            for line in d.lines() {
                src.push_str(&format!("    {line}\n"));
            }
        }
        let mut exp = vec![];
        let mut sg = vec![];
        expected(
            r,
            &NameCtx {
                style: None,
                chain: String::new(),
                d9_sample_group_names: false,
            },
            &mut exp,
            &mut sg,
        );
        let exp_src: Vec<String> = exp
            .iter()
            .map(|e| format!("({}, {}, {}, {})", lit(&e.name), lit(e.kind), lit(&e.value), lit(&e.unit)))
            .collect();
        let sg_src: Vec<String> = sg.iter().map(|(a, b)| format!("({}, {})", lit(a), lit(b))).collect();
        src.push_str(&format!(
            "    pub fn run() {{\n        let v = {};\n        let closed = metrique::RootEntry::new(v.close());\n        c07rt::check({}, c07rt::record(&closed), &[{}], &[{}]);\n    }}\n}}\n\n",
            instance(r),
            lit(&r.type_name),
            exp_src.join(", "),
            sg_src.join(", ")
        ));
        main.push_str(&format!("    c07rt::guard({:?}, r{i}::run);\n", r.type_name));
    }
    main.push_str("}\n");
    src.push_str(&main);
    src
}

// ---------------------------------------------------------------------------------------------
// strategies

const IDENTS: &[&str] = &[
    "count", "request_id", "http2_request", "IOps", "a__b", "bytes_in", "x1", "latency_p99", "isOK", "retry_count2",
    "user_agent", "ttl",
    // words that are also flatten-prefix stems: somewhere in the same crate (= the same macro
    // process) the word is a field name in one type and a prefix, with or without its trailing
    // delimiter, in another - each use must be named by its own rule whatever was expanded before
    "alpha", "q", "zeta_9", "beta_two",
];
const STEMS: &[&str] = &["alpha", "beta_two", "Gamma", "delta2x", "IoT", "web-api", "q", "zeta_9"];
const EXACT: &[&str] = &["API:", "x.", "Q-", "Mixed_Case:", ""];
const VARIANT_IDENTS: &[&str] = &["ReadData", "Write", "HTTPGet", "idle2", "Delete_All"];
const UNITS_NUM: &[&str] = &["Count", "Percent", "Byte", "Kilobyte", "Megabyte", "Gigabit", "BitPerSecond", "TerabytePerSecond", "Millisecond"];
const LONG_EXACT: &str = "ThisIsAVeryLongExactPrefixThatIsMeantToCrossTheConstStringLimit_0123456789_abcdefghijklmnopqrstuvwxyz_ABCDEFGHIJKLMNOPQRSTUVWXYZ_9876543210";

fn arb_style() -> impl Strategy<Value = Option<Style>> {
    prop_oneof![
        3 => Just(None),
        2 => Just(Some(Style::Pascal)),
        2 => Just(Some(Style::Snake)),
        2 => Just(Some(Style::Kebab)),
    ]
}

fn arb_flatten_prefix() -> impl Strategy<Value = Option<(bool, u8)>> {
    // (exact?, stem selector); resolved to distinct stems per container by `fix`
    prop_oneof![
        3 => Just(None),
        3 => any::<u8>().prop_map(|s| Some((false, s))),
        2 => any::<u8>().prop_map(|s| Some((true, s))),
    ]
}

fn arb_cprefix() -> impl Strategy<Value = Option<Pfx>> {
    prop_oneof![
        5 => Just(None),
        2 => prop::sample::select(vec!["api_", "Web-", "v2_", "IO_"]).prop_map(|s| Some(Pfx::Inflect(s.to_string()))),
        2 => prop::sample::select(vec!["API:", "x.", "K_", "Mixed-Case/"]).prop_map(|s| Some(Pfx::Exact(s.to_string()))),
    ]
}

fn arb_plain() -> impl Strategy<Value = FKind> {
    (
        prop::sample::select(vec![Ty::U64, Ty::U32, Ty::F64, Ty::Bool, Ty::Duration, Ty::String, Ty::StaticStr]),
        prop::option::weighted(0.25, prop::sample::select(vec!["NDucks", "custom-Name", "x_Y", "Älpha", "with.dot"])),
        any::<u8>(),
        prop_oneof![4 => Just(Opt::No), 2 => Just(Opt::Some), 1 => Just(Opt::None)],
        prop::bool::weighted(0.3),
        prop::bool::weighted(0.3),
    )
        .prop_map(|(ty, name, u, opt, with_unit, sg)| {
            let unit = if !with_unit {
                None
            } else {
                match ty {
                    Ty::U64 | Ty::U32 | Ty::F64 => Some(UNITS_NUM[u as usize % (UNITS_NUM.len() - 1)].to_string()),
                    Ty::Duration => Some(["Second", "Millisecond", "Microsecond"][u as usize % 3].to_string()),
                    _ => None,
                }
            };
            FKind::Plain {
                ty,
                name: name.map(|s| s.to_string()),
                unit,
                opt,
                sample_group: sg && ty == Ty::StaticStr && opt == Opt::No,
            }
        })
}

fn arb_leaf_field() -> impl Strategy<Value = FKind> {
    prop_oneof![
        8 => arb_plain(),
        1 => Just(FKind::Ignore),
        1 => prop::option::of(prop::sample::select(vec!["Count", "Megabyte"])).prop_map(|u| FKind::ValueStruct {
            type_name: String::new(),
            unit: u.map(|s| s.to_string()),
        }),
        2 => (
            arb_style(),
            prop::collection::vec(prop::option::weighted(0.3, prop::sample::select(vec!["custom_read", "X-1"])), 2..6),
            any::<u8>(),
            any::<bool>()
        )
            .prop_map(|(rename_all, names, active, sample_group)| FKind::StrEnum {
                type_name: String::new(),
                rename_all,
                variants: names
                    .into_iter()
                    .enumerate()
                    .map(|(i, n)| (VARIANT_IDENTS[i % VARIANT_IDENTS.len()].to_string(), n.map(|s| s.to_string())))
                    .collect(),
                active: active as usize,
                sample_group,
            }),
    ]
}

#[derive(Clone, Debug)]
struct RawNode {
    is_enum: bool,
    rename_all: Option<Style>,
    cprefix: Option<Pfx>,
    owned: bool,
    fields: Vec<(FKind, Option<(RawChild, Option<(bool, u8)>)>)>,
    nvariants: u8,
    active: u8,
    variant_kinds: Vec<u8>,
    variant_names: Vec<Option<String>>,
    tag: Option<(bool, String, bool)>,
}
#[derive(Clone, Debug)]
struct RawChild(Box<RawNode>);

fn arb_raw(depth: u32) -> BoxedStrategy<RawNode> {
    let child: BoxedStrategy<Option<(RawChild, Option<(bool, u8)>)>> = if depth == 0 {
        Just(None).boxed()
    } else {
        prop_oneof![
            3 => Just(None),
            2 => (arb_raw(depth - 1), arb_flatten_prefix()).prop_map(|(c, p)| Some((RawChild(Box::new(c)), p))),
        ]
        .boxed()
    };
    (
        prop::bool::weighted(0.3),
        arb_style(),
        arb_cprefix(),
        any::<bool>(),
        prop::collection::vec((arb_leaf_field(), child), 1..5),
        1u8..6,
        any::<u8>(),
        prop::collection::vec(0u8..3, 5..6),
        prop::collection::vec(prop::option::weighted(0.3, prop::sample::select(vec!["custom_variant", "V-2"]).prop_map(|s| s.to_string())), 5..6),
        prop::option::weighted(
            0.6,
            (any::<bool>(), prop::sample::select(vec!["op", "OpName", "request_kind", "K2x"]).prop_map(|s| s.to_string()), any::<bool>()),
        ),
    )
        .prop_map(
            |(is_enum, rename_all, cprefix, owned, fields, nvariants, active, variant_kinds, variant_names, tag)| RawNode {
                is_enum,
                rename_all,
                cprefix,
                owned,
                fields,
                nvariants,
                active,
                variant_kinds,
                variant_names,
                tag,
            },
        )
        .boxed()
}

struct Namer {
    n: usize,
    tag: String,
}
impl Namer {
    fn next(&mut self, base: &str) -> String {
        self.n += 1;
        format!("{base}{}{}", self.tag, self.n)
    }
}

fn resolve_prefix(p: Option<(bool, u8)>, used: &mut Vec<usize>, long: &mut bool) -> Option<Pfx> {
    let (exact, sel) = p?;
    // distinct stems per container (the macro derives helper type names from the Pascal form)
    let mut i = sel as usize % STEMS.len();
    let mut tries = 0;
    while used.contains(&i) {
        i = (i + 1) % STEMS.len();
        tries += 1;
        if tries > STEMS.len() {
            return None;
        }
    }
    used.push(i);
    let stem = STEMS[i];
    if exact {
        if sel % 3 == 0 && !*long {
            // long exact prefixes of varying length so that final names land on both sides of
            // (and inside any band around) the 100-byte const-concatenation limit
            *long = true;
            let keep = 40 + (sel as usize * 7) % (LONG_EXACT.len() - 40);
            Some(Pfx::Exact(format!("{stem}{}:", &LONG_EXACT[..keep])))
        } else {
            Some(Pfx::Exact(format!("{stem}{}", EXACT[sel as usize % EXACT.len()])))
        }
    } else {
        Some(Pfx::Inflect(
            match sel % 3 {
                0 => format!("{stem}_"),
                1 => format!("{stem}-"),
                _ => stem.to_string(),
            }
            .replace("web-api", "web-api"),
        ))
    }
}

fn build_fields(
    raw: Vec<(FKind, Option<(RawChild, Option<(bool, u8)>)>)>,
    namer: &mut Namer,
    counter: &mut u32,
    used_stems: &mut Vec<usize>,
    long: &mut bool,
    by_ref: bool,
    in_variant: bool,
) -> Vec<Field> {
    let mut out = vec![];
    let mut used_idents: Vec<String> = vec![];
    for (k, child) in raw {
        let mut ident = IDENTS[(*counter as usize * 5 + out.len()) % IDENTS.len()].to_string();
        while used_idents.contains(&ident) {
            ident = format!("{ident}_{}", out.len());
        }
        used_idents.push(ident.clone());
        *counter += 1;
        let val = 1 + (*counter * 7) % 90;
        let kind = match (k, child) {
            (_, Some((RawChild(c), p))) => FKind::Flatten {
                child: Box::new(build(*c, namer, counter, false, by_ref)),
                prefix: resolve_prefix(p, used_stems, long),
            },
            (FKind::ValueStruct { unit, .. }, None) => FKind::ValueStruct {
                type_name: namer.next("Val"),
                unit,
            },
            (
                FKind::StrEnum {
                    rename_all,
                    variants,
                    active,
                    sample_group,
                    ..
                },
                None,
            ) => FKind::StrEnum {
                type_name: namer.next("Se"),
                rename_all,
                variants,
                active,
                sample_group,
            },
            (k, None) => k,
        };
        // implicit preconditions of the macro learnt from its compile errors: String is not
        // closeable by reference (no String in `subfield` containers); `ignore` inside an enum
        // struct variant does not compile
        let kind = match kind {
            FKind::Plain { ty: Ty::String, name, unit, opt, sample_group } if by_ref => FKind::Plain {
                ty: Ty::StaticStr,
                name,
                unit,
                opt,
                sample_group,
            },
            FKind::Ignore if in_variant => FKind::Plain {
                ty: Ty::U32,
                name: None,
                unit: None,
                opt: Opt::No,
                sample_group: false,
            },
            k => k,
        };
        out.push(Field { ident, kind, val });
    }
    out
}

fn build(raw: RawNode, namer: &mut Namer, counter: &mut u32, root: bool, parent_by_ref: bool) -> Node {
    let type_name = namer.next(if raw.is_enum { "En" } else { "St" });
    let mut used_stems = vec![];
    let mut long = false;
    // a `subfield` container is also closed by reference, so everything below it must be
    // closeable by reference too (i.e. `subfield`, never `subfield_owned`)
    let mode = if root {
        Mode::Root
    } else if raw.owned && !parent_by_ref {
        Mode::SubfieldOwned
    } else {
        Mode::Subfield
    };
    let by_ref = mode == Mode::Subfield;
    if !raw.is_enum {
        let fields = build_fields(raw.fields, namer, counter, &mut used_stems, &mut long, by_ref, false);
        return Node {
            type_name,
            rename_all: raw.rename_all,
            cprefix: raw.cprefix,
            mode,
            fields,
            variants: vec![],
            active: 0,
            tag: None,
        };
    }
    // enum: distribute the raw fields over variants
    let nv = raw.nvariants.max(1) as usize;
    let mut variants = vec![];
    let mut raw_fields = raw.fields;
    for vi in 0..nv {
        let ident = VARIANT_IDENTS[vi % VARIANT_IDENTS.len()].to_string();
        let name = raw.variant_names.get(vi).cloned().flatten();
        let kind = raw.variant_kinds.get(vi).copied().unwrap_or(0);
        let data = match kind {
            0 => VData::Unit,
            1 => {
                // tuple variant: needs a flatten child
                let pos = raw_fields.iter().position(|(_, c)| c.is_some());
                match pos {
                    Some(p) => {
                        let (_, c) = raw_fields.remove(p);
                        let (RawChild(c), pf) = c.unwrap();
                        VData::Tuple {
                            child: Box::new(build(*c, namer, counter, false, by_ref)),
                            prefix: resolve_prefix(pf, &mut used_stems, &mut long),
                        }
                    }
                    None => VData::Unit,
                }
            }
            _ => {
                let take = raw_fields.len().min(2);
                let part: Vec<_> = raw_fields.drain(..take).collect();
                if part.is_empty() {
                    VData::Unit
                } else {
                    // helper const-string types of one variant live in that variant's match arm
                    let mut stems = vec![];
                    VData::Struct(build_fields(part, namer, counter, &mut stems, &mut long, by_ref, true))
                }
            }
        };
        variants.push(Variant { ident, name, data });
    }
    Node {
        type_name,
        rename_all: raw.rename_all,
        cprefix: raw.cprefix,
        mode,
        fields: vec![],
        variants,
        active: raw.active as usize,
        tag: raw.tag.map(|(exact, name, sg)| (if exact { Tag::NameExact(name) } else { Tag::Name(name) }, sg)),
    }
}

/// well-formed root trees of depth <= `depth`
pub fn arb_root(depth: u32, tag: &'static str) -> impl Strategy<Value = Node> {
    (arb_raw(depth), any::<u16>()).prop_map(move |(raw, salt)| {
        let mut namer = Namer {
            n: 0,
            tag: format!("{tag}{salt}x"),
        };
        let mut counter = salt as u32;
        build(raw, &mut namer, &mut counter, true, false)
    })
}

// ---------------------------------------------------------------------------------------------
// classification

pub fn features(n: &Node, depth: usize, acc: &mut Vec<&'static str>, styles: &mut Vec<Style>, chain_len: usize, max_chain: &mut usize) {
    if let Some(s) = n.rename_all {
        if !styles.contains(&s) {
            styles.push(s);
        }
        acc.push(match s {
            Style::Pascal => "style-pascal",
            Style::Snake => "style-snake",
            Style::Kebab => "style-kebab",
        });
    }
    match &n.cprefix {
        Some(Pfx::Inflect(_)) => acc.push("container-prefix"),
        Some(Pfx::Exact(_)) => acc.push("container-exact-prefix"),
        None => {}
    }
    if depth >= 2 {
        acc.push("depth-3");
    }
    *max_chain = (*max_chain).max(chain_len);
    let mut visit_fields = |fields: &[Field], acc: &mut Vec<&'static str>, styles: &mut Vec<Style>, max_chain: &mut usize| {
        for f in fields {
            match &f.kind {
                FKind::Plain { name, unit, opt, sample_group, .. } => {
                    if name.is_some() {
                        acc.push("name-override");
                    }
                    if unit.is_some() {
                        acc.push("unit-attr");
                    }
                    if *opt == Opt::None {
                        acc.push("option-none");
                    }
                    if *sample_group {
                        acc.push("sample-group-field");
                    }
                }
                FKind::Ignore => acc.push("ignore"),
                FKind::ValueStruct { .. } => acc.push("value-struct"),
                FKind::StrEnum { .. } => acc.push("value-string-enum"),
                FKind::Flatten { child, prefix } => {
                    match flatten_wrap(f.val, child) {
                        1 => acc.push("flatten-option-some"),
                        2 => acc.push("flatten-option-none"),
                        4 => acc.push("flatten-arc"),
                        5 => acc.push("flatten-cow-of-closed-entry"),
                        _ => {}
                    }
                    let add = match prefix {
                        Some(Pfx::Inflect(_)) => {
                            acc.push("flatten-prefix");
                            1
                        }
                        Some(Pfx::Exact(p)) => {
                            acc.push("flatten-exact-prefix");
                            if p.len() > 60 {
                                acc.push("long-prefix-chain");
                            }
                            1
                        }
                        None => 0,
                    };
                    features(child, depth + 1, acc, styles, chain_len + add, max_chain);
                }
            }
        }
    };
    if !n.is_enum() {
        visit_fields(&n.fields, acc, styles, max_chain);
    } else {
        acc.push("entry-enum");
        match &n.tag {
            Some((Tag::Name(_), sg)) => {
                acc.push("tag-name");
                if *sg {
                    acc.push("tag-sample-group");
                }
            }
            Some((Tag::NameExact(_), _)) => acc.push("tag-name-exact"),
            None => {}
        }
        let v = &n.variants[n.active % n.variants.len()];
        match &v.data {
            VData::Unit => acc.push("unit-variant"),
            VData::Tuple { child, prefix } => {
                acc.push("tuple-variant");
                let add = if prefix.is_some() { 1 } else { 0 };
                features(child, depth + 1, acc, styles, chain_len + add, max_chain);
            }
            VData::Struct(fields) => {
                acc.push("struct-variant");
                visit_fields(fields, acc, styles, max_chain);
            }
        }
    }
}
