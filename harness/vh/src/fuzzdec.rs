//! Hand-written `arbitrary::Unstructured` decoders so that libFuzzer targets reach formatter
//! logic instead of dying in input decoding.

use crate::emfh::*;
use crate::iofault::{WScript, WStep};
use crate::model::*;
use crate::props::c02;
use arbitrary::Unstructured;

const SPECIALS: &[&str] = &["\"", "\\", "\u{0}", "\u{1}", "\u{1f}", "\n", "\u{7f}", "é", "\u{2028}", "😀", "/", " ", "{", "}", "a", "Z", "_", "0"];

fn string(u: &mut Unstructured) -> Option<String> {
    let n = u.int_in_range(0..=6).ok()?;
    let mut s = String::new();
    for _ in 0..n {
        let i: u8 = u.arbitrary().ok()?;
        if i < 200 {
            s.push_str(SPECIALS[i as usize % SPECIALS.len()]);
        } else {
            s.push(char::from_u32(u.int_in_range(0..=0x10ffffu32).ok()?).unwrap_or('x'));
        }
    }
    Some(s)
}

fn name(u: &mut Unstructured) -> Option<String> {
    let i: u8 = u.arbitrary().ok()?;
    if i < 200 {
        Some(NAME_POOL[i as usize % NAME_POOL.len()].to_string())
    } else {
        string(u)
    }
}

fn f64v(u: &mut Unstructured) -> Option<F> {
    const POOL: &[f64] = &[f64::NAN, f64::INFINITY, f64::NEG_INFINITY, 0.0, -0.0, 1.0, -1.5, 5e-324, f64::MAX, 9007199254740993.0, 0.1];
    let i: u8 = u.arbitrary().ok()?;
    Some(F(if i < 160 { POOL[i as usize % POOL.len()] } else { f64::from_bits(u.arbitrary().ok()?) }))
}

fn obs(u: &mut Unstructured) -> Option<Obs> {
    Some(match u.int_in_range(0..=2u8).ok()? {
        0 => Obs::U(match u.int_in_range(0..=3u8).ok()? {
            0 => 0,
            1 => u64::MAX,
            2 => (1 << 53) + 1,
            _ => u.arbitrary().ok()?,
        }),
        1 => Obs::Fl(f64v(u)?),
        _ => Obs::Rep {
            total: f64v(u)?,
            occ: match u.int_in_range(0..=3u8).ok()? {
                0 => 0,
                1 => 1,
                2 => u64::MAX,
                _ => u.int_in_range(0..=50u64).ok()?,
            },
        },
    })
}

fn val(u: &mut Unstructured) -> Option<Val> {
    Some(match u.int_in_range(0..=9u8).ok()? {
        0 | 1 => Val::Str(string(u)?),
        2 => Val::Nothing,
        3 => Val::Error("e".into()),
        _ => {
            let n = u.int_in_range(0..=5usize).ok()?;
            let mut o = vec![];
            for _ in 0..n {
                o.push(obs(u)?);
            }
            let nd = u.int_in_range(0..=2usize).ok()?;
            let mut dims = vec![];
            for _ in 0..nd {
                dims.push((name(u)?, string(u)?));
            }
            Val::Metric {
                obs: o,
                unit: UnitG(u.int_in_range(0..=UnitG::COUNT - 1).ok()?),
                dims,
                flags: [FlagG::None, FlagG::HighRes, FlagG::NoMetric, FlagG::HighResNoMetric, FlagG::Foreign][u.int_in_range(0..=4usize).ok()?],
            }
        }
    })
}

pub fn entry(u: &mut Unstructured) -> Option<GenEntry> {
    let n = u.int_in_range(0..=8usize).ok()?;
    let mut ops = vec![];
    if u.ratio(3u8, 5u8).ok()? {
        ops.push(Op::Config(CfgG::AllowSplit));
    }
    for _ in 0..n {
        ops.push(match u.int_in_range(0..=11u8).ok()? {
            0 => Op::Timestamp {
                secs: u.int_in_range(0..=4_000_000_000u64).ok()?,
                nanos: u.int_in_range(0..=999_999_999u32).ok()?,
                before_epoch: u.ratio(1u8, 20u8).ok()?,
            },
            1 => Op::Config(CfgG::AllowSplit),
            2 => {
                let ns = u.int_in_range(0..=2usize).ok()?;
                let mut sets = vec![];
                for _ in 0..ns {
                    let k = u.int_in_range(0..=2usize).ok()?;
                    let mut s = vec![];
                    for _ in 0..k {
                        s.push(name(u)?);
                    }
                    sets.push(s);
                }
                Op::Config(CfgG::EntryDims(sets))
            }
            3 => Op::ErrorReport("r".into()),
            _ => Op::Value {
                name: name(u)?,
                val: val(u)?,
            },
        });
    }
    Some(GenEntry {
        ops,
        sample_group: vec![],
    })
}

pub fn cfg(u: &mut Unstructured) -> Option<EmfCfg> {
    let ctor = [Ctor::AllValidations, Ctor::NoValidations, Ctor::Builder, Ctor::BuilderSkipTrue, Ctor::BuilderSkipFalse][u.int_in_range(0..=4usize).ok()?];
    let nns = u.int_in_range(0..=2usize).ok()?;
    let mut extra = vec![];
    for _ in 0..nns {
        extra.push(string(u)?);
    }
    let nsets = u.int_in_range(1..=3usize).ok()?;
    let mut dims = vec![];
    for _ in 0..nsets {
        let k = u.int_in_range(0..=2usize).ok()?;
        let mut s = vec![];
        for _ in 0..k {
            s.push(["Dim1", "Dim2", "A"][u.int_in_range(0..=2usize).ok()?].to_string());
        }
        dims.push(s);
    }
    let ndir = u.int_in_range(0..=1usize).ok()?;
    let mut directives = vec![];
    for _ in 0..ndir {
        directives.push(DirectiveG {
            namespace: string(u)?,
            dims: vec![vec![name(u)?]],
            metrics: vec![(name(u)?, UnitG(u.int_in_range(0..=UnitG::COUNT - 1).ok()?), None)],
        });
    }
    Some(
        EmfCfg {
            ctor,
            namespace: string(u)?,
            extra_namespaces: extra,
            dims,
            directives,
            log_group: if u.ratio(1u8, 4u8).ok()? { Some(string(u)?) } else { None },
            allow_ignored: u.ratio(1u8, 4u8).ok()?,
        }
        .normalize(),
    )
}

pub fn sampling(u: &mut Unstructured) -> Option<Sampling> {
    Some(match u.int_in_range(0..=3u8).ok()? {
        0 | 1 => Sampling::None,
        2 => Sampling::SampledNoRate,
        _ => Sampling::Rate {
            rate_bits: u.arbitrary().ok()?,
            words: vec![u.arbitrary().ok()?],
        },
    })
}

pub fn decode_c02_case(u: &mut Unstructured) -> Option<c02::Case> {
    Some(c02::Case {
        cfg: cfg(u)?,
        entry: entry(u)?,
        sampling: sampling(u)?,
    })
}

fn wscript(u: &mut Unstructured) -> Option<WScript> {
    let n = u.int_in_range(0..=6usize).ok()?;
    let mut steps = vec![];
    for _ in 0..n {
        steps.push(match u.int_in_range(0..=6u8).ok()? {
            6 => WStep::FirstSlice,
            0 => WStep::AcceptAll,
            1 | 2 => WStep::AcceptK(u.int_in_range(1..=300u32).ok()?),
            3 => WStep::Interrupted,
            4 => WStep::Zero,
            _ => WStep::Hard(u.int_in_range(0..=4u8).ok()?),
        });
    }
    Some(WScript {
        steps,
        then: if u.arbitrary().ok()? { WStep::AcceptAll } else { WStep::AcceptK(u.int_in_range(1..=64u32).ok()?) },
        flushes: vec![],
    })
}

/// C16 compares with a reference formatting made at another moment: the entry must carry its own
/// timestamp (the proptest generator of C16 guarantees the same)
fn with_timestamp(mut e: GenEntry) -> GenEntry {
    if !e.ops.iter().any(|o| matches!(o, Op::Timestamp { .. })) {
        e.ops.insert(0, Op::Timestamp { secs: 1_700_000_000, nanos: 0, before_epoch: false });
    }
    e
}

pub fn decode_fmt_case(u: &mut Unstructured) -> Option<crate::props::c16::FmtCase> {
    Some(crate::props::c16::FmtCase {
        cfg: cfg(u)?,
        entry: with_timestamp(entry(u)?),
        script: wscript_flushes(u)?,
    })
}

pub fn decode_sink_fmt_case(u: &mut Unstructured) -> Option<crate::props::c16::SinkFmtCase> {
    let c = cfg(u)?;
    let n = u.int_in_range(1..=4usize).ok()?;
    let mut entries = vec![];
    for _ in 0..n {
        entries.push(with_timestamp(entry(u)?));
    }
    Some(crate::props::c16::SinkFmtCase {
        cfg: c,
        entries,
        script: wscript_flushes(u)?,
        kind: match u.int_in_range(0..=2u8).ok()? {
            0 => crate::props::c16::SinkKind::Typed,
            1 => crate::props::c16::SinkKind::Any,
            _ => crate::props::c16::SinkKind::Boxed,
        },
        makewriter: u.int_in_range(0..=3u8).unwrap_or(0) == 0,
    })
}

fn wscript_flushes(u: &mut Unstructured) -> Option<WScript> {
    let mut w = wscript(u)?;
    let n = u.int_in_range(0..=3usize).ok()?;
    for _ in 0..n {
        w.flushes.push(u.arbitrary().ok()?);
    }
    Some(w)
}

pub fn decode_seq_case(u: &mut Unstructured) -> Option<c02::SeqCase> {
    let c = cfg(u)?;
    let n = u.int_in_range(2..=6usize).ok()?;
    let mut items = vec![];
    for _ in 0..n {
        let e = entry(u)?;
        let w = if u.ratio(1u8, 3u8).ok()? { Some(wscript(u)?) } else { None };
        items.push((e, w, sampling(u)?));
    }
    let sampled_formatter = u.ratio(1u8, 3u8).unwrap_or(false);
    Some(c02::SeqCase { cfg: c, items, sampled_formatter })
}

/// C08's arbitrary domain: an entry that carries the unroutable error report is reduced to it
pub fn pure_report_or_same(e: &GenEntry) -> GenEntry {
    let mut e = e.clone();
    if e.ops.iter().any(|o| matches!(o, Op::ErrorReport(_))) {
        e.ops.retain(|o| !matches!(o, Op::Value { .. }));
    }
    e
}


// ---------------------------------------------------------------------------------------------
// C11 / C10

fn hist_value(u: &mut Unstructured) -> Option<f64> {
    let b: u64 = u.arbitrary().ok()?;
    let v = f64::from_bits(b & 0x7fff_ffff_ffff_ffff);
    // the property's domain: finite, non-negative, below 2^43
    Some(if v.is_finite() && v < 8.79e12 { v } else { (b % (1u64 << 53)) as f64 / 1024.0 })
}

pub fn decode_hist_case(u: &mut Unstructured) -> Option<crate::props::c11::Case> {
    use crate::props::c11::Input;
    let n = u.int_in_range(0..=12usize).ok()?;
    let mut inputs = vec![];
    for _ in 0..n {
        inputs.push(match u.int_in_range(0..=3u8).ok()? {
            0 => Input::Fl(F(hist_value(u)?)),
            1 => Input::U(u.int_in_range(0..=(1u64 << 43) - 1).ok()?),
            2 => Input::Dur {
                nanos: u.int_in_range(0..=(1u64 << 50)).ok()?,
                unit: u.int_in_range(0..=2u8).ok()?,
            },
            _ => {
                let v = hist_value(u)?;
                let occ = match u.int_in_range(0..=3u8).ok()? {
                    0 => 0,
                    1 => 1,
                    2 => u.int_in_range(2..=50u64).ok()?,
                    _ => u.int_in_range(2..=(1u64 << 40)).ok()?,
                };
                Input::Rep { total: F(v * occ as f64), occ }
            }
        });
    }
    Some(crate::props::c11::Case { inputs, threads: 0 })
}

pub fn decode_agg_case(u: &mut Unstructured) -> Option<crate::props::c10::Case> {
    use crate::props::c10::{In, SinkKind, Step};
    let kind = if u.arbitrary().ok()? { SinkKind::Keyed } else { SinkKind::Tee };
    let n = u.int_in_range(0..=40usize).ok()?;
    let mut steps = vec![];
    let input = |u: &mut Unstructured| -> Option<In> {
        Some(In {
            word: u.arbitrary().ok()?,
            n: u.int_in_range(0..=2u8).ok()?,
            total: u.arbitrary().ok()?,
            last: u.arbitrary().ok()?,
            lat_ms: u.int_in_range(0..=1999u16).ok()?,
            dist: u.int_in_range(0..=49u16).ok()?,
        })
    };
    for _ in 0..n {
        steps.push(match u.int_in_range(0..=7u8).ok()? {
            0 => Step::Flush,
            1 => Step::Guard(input(u)?),
            2 => Step::DropGuard(u.arbitrary().ok()?),
            _ => Step::Input(input(u)?),
        });
    }
    Some(crate::props::c10::Case { kind, steps, producers: 0 })
}
