//! Strict RFC 8259 JSON parser used as oracle. Objects keep members as an ordered list (duplicate
//! members stay visible) and numbers keep their lexeme (u64 > 2^53 compare exactly).

#[derive(Debug, Clone, PartialEq)]
pub enum J {
    Null,
    Bool(bool),
    Num(String),
    Str(String),
    Arr(Vec<J>),
    Obj(Vec<(String, J)>),
}

impl J {
    pub fn get(&self, k: &str) -> Option<&J> {
        match self {
            J::Obj(m) => m.iter().find(|(n, _)| n == k).map(|(_, v)| v),
            _ => None,
        }
    }
    pub fn get_all<'a>(&'a self, k: &str) -> Vec<&'a J> {
        match self {
            J::Obj(m) => m.iter().filter(|(n, _)| n == k).map(|(_, v)| v).collect(),
            _ => vec![],
        }
    }
    pub fn as_obj(&self) -> Option<&Vec<(String, J)>> {
        match self {
            J::Obj(m) => Some(m),
            _ => None,
        }
    }
    pub fn as_arr(&self) -> Option<&Vec<J>> {
        match self {
            J::Arr(a) => Some(a),
            _ => None,
        }
    }
    pub fn as_str(&self) -> Option<&str> {
        match self {
            J::Str(s) => Some(s),
            _ => None,
        }
    }
    pub fn as_num(&self) -> Option<&str> {
        match self {
            J::Num(s) => Some(s),
            _ => None,
        }
    }
    /// first duplicated member name of this object (not recursive)
    pub fn duplicate_member(&self) -> Option<&str> {
        if let J::Obj(m) = self {
            for (i, (k, _)) in m.iter().enumerate() {
                if m[..i].iter().any(|(k2, _)| k2 == k) {
                    return Some(k);
                }
            }
        }
        None
    }
    /// duplicate member anywhere in the tree
    pub fn duplicate_member_deep(&self) -> Option<String> {
        match self {
            J::Obj(m) => {
                if let Some(d) = self.duplicate_member() {
                    return Some(d.to_string());
                }
                m.iter().find_map(|(_, v)| v.duplicate_member_deep())
            }
            J::Arr(a) => a.iter().find_map(|v| v.duplicate_member_deep()),
            _ => None,
        }
    }
}

pub fn is_integer_lexeme(s: &str) -> bool {
    let b = s.strip_prefix('-').unwrap_or(s);
    !b.is_empty() && b.bytes().all(|c| c.is_ascii_digit()) && (b == "0" || !b.starts_with('0'))
}

struct P<'a> {
    s: &'a [u8],
    i: usize,
    depth: usize,
}

pub fn parse(input: &[u8]) -> Result<J, String> {
    if std::str::from_utf8(input).is_err() {
        return Err("not valid UTF-8".into());
    }
    let mut p = P {
        s: input,
        i: 0,
        depth: 0,
    };
    p.ws();
    let v = p.value()?;
    p.ws();
    if p.i != p.s.len() {
        return Err(format!("trailing bytes at {}", p.i));
    }
    Ok(v)
}

impl<'a> P<'a> {
    fn ws(&mut self) {
        while self.i < self.s.len() && matches!(self.s[self.i], b' ' | b'\t' | b'\n' | b'\r') {
            self.i += 1;
        }
    }
    fn peek(&self) -> Option<u8> {
        self.s.get(self.i).copied()
    }
    fn err<T>(&self, m: &str) -> Result<T, String> {
        let lo = self.i.saturating_sub(20);
        let hi = (self.i + 20).min(self.s.len());
        Err(format!(
            "{m} at byte {} near {:?}",
            self.i,
            String::from_utf8_lossy(&self.s[lo..hi])
        ))
    }
    fn lit(&mut self, l: &[u8], v: J) -> Result<J, String> {
        if self.s[self.i..].starts_with(l) {
            self.i += l.len();
            Ok(v)
        } else {
            self.err("bad literal")
        }
    }
    fn value(&mut self) -> Result<J, String> {
        self.depth += 1;
        if self.depth > 200 {
            return self.err("too deep");
        }
        let r = match self.peek() {
            None => self.err("unexpected end"),
            Some(b'{') => self.object(),
            Some(b'[') => self.array(),
            Some(b'"') => self.string().map(J::Str),
            Some(b't') => self.lit(b"true", J::Bool(true)),
            Some(b'f') => self.lit(b"false", J::Bool(false)),
            Some(b'n') => self.lit(b"null", J::Null),
            Some(b'-') | Some(b'0'..=b'9') => self.number(),
            Some(_) => self.err("unexpected byte"),
        };
        self.depth -= 1;
        r
    }
    fn object(&mut self) -> Result<J, String> {
        self.i += 1;
        let mut m = vec![];
        self.ws();
        if self.peek() == Some(b'}') {
            self.i += 1;
            return Ok(J::Obj(m));
        }
        loop {
            self.ws();
            if self.peek() != Some(b'"') {
                return self.err("expected member name");
            }
            let k = self.string()?;
            self.ws();
            if self.peek() != Some(b':') {
                return self.err("expected ':'");
            }
            self.i += 1;
            self.ws();
            let v = self.value()?;
            m.push((k, v));
            self.ws();
            match self.peek() {
                Some(b',') => {
                    self.i += 1;
                }
                Some(b'}') => {
                    self.i += 1;
                    return Ok(J::Obj(m));
                }
                _ => return self.err("expected ',' or '}'"),
            }
        }
    }
    fn array(&mut self) -> Result<J, String> {
        self.i += 1;
        let mut a = vec![];
        self.ws();
        if self.peek() == Some(b']') {
            self.i += 1;
            return Ok(J::Arr(a));
        }
        loop {
            self.ws();
            let v = self.value()?;
            a.push(v);
            self.ws();
            match self.peek() {
                Some(b',') => {
                    self.i += 1;
                }
                Some(b']') => {
                    self.i += 1;
                    return Ok(J::Arr(a));
                }
                _ => return self.err("expected ',' or ']'"),
            }
        }
    }
    fn number(&mut self) -> Result<J, String> {
        let st = self.i;
        if self.peek() == Some(b'-') {
            self.i += 1;
        }
        match self.peek() {
            Some(b'0') => {
                self.i += 1;
            }
            Some(b'1'..=b'9') => {
                while matches!(self.peek(), Some(b'0'..=b'9')) {
                    self.i += 1;
                }
            }
            _ => return self.err("bad number"),
        }
        if self.peek() == Some(b'.') {
            self.i += 1;
            if !matches!(self.peek(), Some(b'0'..=b'9')) {
                return self.err("bad fraction");
            }
            while matches!(self.peek(), Some(b'0'..=b'9')) {
                self.i += 1;
            }
        }
        if matches!(self.peek(), Some(b'e') | Some(b'E')) {
            self.i += 1;
            if matches!(self.peek(), Some(b'+') | Some(b'-')) {
                self.i += 1;
            }
            if !matches!(self.peek(), Some(b'0'..=b'9')) {
                return self.err("bad exponent");
            }
            while matches!(self.peek(), Some(b'0'..=b'9')) {
                self.i += 1;
            }
        }
        Ok(J::Num(
            std::str::from_utf8(&self.s[st..self.i]).unwrap().to_string(),
        ))
    }
    fn hex4(&mut self) -> Result<u32, String> {
        if self.i + 4 > self.s.len() {
            return self.err("short \\u escape");
        }
        let mut v = 0u32;
        for k in 0..4 {
            let c = self.s[self.i + k];
            let d = match c {
                b'0'..=b'9' => c - b'0',
                b'a'..=b'f' => c - b'a' + 10,
                b'A'..=b'F' => c - b'A' + 10,
                _ => return self.err("bad hex digit"),
            };
            v = v * 16 + d as u32;
        }
        self.i += 4;
        Ok(v)
    }
    fn string(&mut self) -> Result<String, String> {
        self.i += 1; // opening quote
        let mut out: Vec<u8> = vec![];
        loop {
            let Some(c) = self.peek() else {
                return self.err("unterminated string");
            };
            match c {
                b'"' => {
                    self.i += 1;
                    return String::from_utf8(out).map_err(|_| "string not utf8".to_string());
                }
                0..=0x1f => return self.err("raw control character in string"),
                b'\\' => {
                    self.i += 1;
                    let Some(e) = self.peek() else {
                        return self.err("unterminated escape");
                    };
                    self.i += 1;
                    let ch: char = match e {
                        b'"' => '"',
                        b'\\' => '\\',
                        b'/' => '/',
                        b'b' => '\u{8}',
                        b'f' => '\u{c}',
                        b'n' => '\n',
                        b'r' => '\r',
                        b't' => '\t',
                        b'u' => {
                            let hi = self.hex4()?;
                            if (0xD800..0xDC00).contains(&hi) {
                                if self.s[self.i..].starts_with(b"\\u") {
                                    self.i += 2;
                                    let lo = self.hex4()?;
                                    if !(0xDC00..0xE000).contains(&lo) {
                                        return self.err("unpaired surrogate");
                                    }
                                    let cp = 0x10000 + ((hi - 0xD800) << 10) + (lo - 0xDC00);
                                    char::from_u32(cp).ok_or("bad code point")?
                                } else {
                                    return self.err("unpaired surrogate");
                                }
                            } else if (0xDC00..0xE000).contains(&hi) {
                                return self.err("unpaired low surrogate");
                            } else {
                                char::from_u32(hi).ok_or("bad code point")?
                            }
                        }
                        _ => return self.err("invalid escape"),
                    };
                    let mut b = [0u8; 4];
                    out.extend_from_slice(ch.encode_utf8(&mut b).as_bytes());
                }
                _ => {
                    out.push(c);
                    self.i += 1;
                }
            }
        }
    }
}

/// Split output into newline-terminated lines. Err if not newline framed / empty.
pub fn split_lines(out: &[u8]) -> Result<Vec<&[u8]>, String> {
    if out.is_empty() {
        return Err("no output".into());
    }
    if *out.last().unwrap() != b'\n' {
        return Err("output does not end in newline".into());
    }
    let body = &out[..out.len() - 1];
    Ok(body.split(|b| *b == b'\n').collect())
}

#[cfg(test)]
mod t {
    use super::*;
    #[test]
    fn strict() {
        assert!(parse(br#"{"a":[1,]}"#).is_err());
        assert!(parse(br#"{"a":[1,2],"a":3}"#).unwrap().duplicate_member().is_some());
        assert!(parse(b"{\"a\":\"\x01\"}").is_err());
        assert!(parse(br#"{"a":01}"#).is_err());
        assert!(parse(br#"{"a":1} x"#).is_err());
        assert!(parse(br#"{"a":"\ud800"}"#).is_err());
        assert_eq!(
            parse("{\"a\":\"😀\"}".as_bytes()).unwrap().get("a").unwrap().as_str().unwrap(),
            "😀"
        );
        assert_eq!(
            parse(br#"[18446744073709551615, -1.5e-7]"#).unwrap(),
            J::Arr(vec![J::Num("18446744073709551615".into()), J::Num("-1.5e-7".into())])
        );
    }
}
