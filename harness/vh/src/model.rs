//! Shared generated model of an entry (`GenEntry`): a sequence of the three calls an `Entry`
//! can make. Implements `Entry` by replaying the ops into the writer.

use metrique_writer_core::config::{AllowSplitEntries, EntryDimensions, MetriqueValidationError};
use metrique_writer_core::value::{FlagConstructor, MetricOptions};
use metrique_writer_core::{
    Entry, EntryConfig, EntryWriter, MetricFlags, Observation, Unit, ValidationError, Value,
    ValueWriter,
    unit::{NegativeScale, PositiveScale},
};
use metrique_writer_format_emf::{HighStorageResolutionCtor, NoMetricCtor};
use proptest::prelude::*;
use serde::{Deserialize, Serialize};
use std::borrow::Cow;
use std::time::{Duration, SystemTime};

/// f64 that serialises as its bit pattern (so NaN payloads / -0 survive replay files) and prints
/// as the float.
#[derive(Clone, Copy)]
pub struct F(pub f64);

impl PartialEq for F {
    fn eq(&self, o: &F) -> bool {
        self.0.to_bits() == o.0.to_bits()
    }
}
impl std::fmt::Debug for F {
    fn fmt(&self, f: &mut std::fmt::Formatter<'_>) -> std::fmt::Result {
        write!(f, "{:?}", self.0)
    }
}
impl Serialize for F {
    fn serialize<S: serde::Serializer>(&self, s: S) -> Result<S::Ok, S::Error> {
        // human readable where exact, bits otherwise
        s.serialize_str(&format!("0x{:016x}", self.0.to_bits()))
    }
}
impl<'de> Deserialize<'de> for F {
    fn deserialize<D: serde::Deserializer<'de>>(d: D) -> Result<Self, D::Error> {
        let s = String::deserialize(d)?;
        let b = u64::from_str_radix(s.trim_start_matches("0x"), 16)
            .map_err(serde::de::Error::custom)?;
        Ok(F(f64::from_bits(b)))
    }
}

#[derive(Clone, Debug, PartialEq, Serialize, Deserialize)]
pub enum Obs {
    U(u64),
    Fl(F),
    Rep { total: F, occ: u64 },
}

impl Obs {
    pub fn to_observation(&self) -> Observation {
        match self {
            Obs::U(u) => Observation::Unsigned(*u),
            Obs::Fl(f) => Observation::Floating(f.0),
            Obs::Rep { total, occ } => Observation::Repeated {
                total: total.0,
                occurrences: *occ,
            },
        }
    }
    pub fn from_observation(o: Observation) -> Obs {
        match o {
            Observation::Unsigned(u) => Obs::U(u),
            Observation::Floating(f) => Obs::Fl(F(f)),
            Observation::Repeated { total, occurrences } => Obs::Rep {
                total: F(total),
                occ: occurrences,
            },
            _ => Obs::Fl(F(f64::NAN)),
        }
    }
    /// the value EMF reports for this observation: None if it is skipped (NaN)
    pub fn emf_value(&self) -> Option<EmfNum> {
        match self {
            Obs::U(u) => Some(EmfNum::Int(*u)),
            Obs::Fl(f) => clamp(f.0).map(EmfNum::Float),
            Obs::Rep { total, occ } => {
                let mean = if *occ == 0 { 0.0 } else { total.0 / (*occ as f64) };
                clamp(mean).map(EmfNum::Float)
            }
        }
    }
    pub fn is_skipped(&self) -> bool {
        self.emf_value().is_none()
    }
    pub fn occurrences(&self) -> u64 {
        match self {
            Obs::Rep { occ, .. } => *occ,
            _ => 1,
        }
    }
}

fn clamp(v: f64) -> Option<f64> {
    if v.is_nan() {
        None
    } else if v == f64::INFINITY {
        Some(f64::MAX)
    } else if v == f64::NEG_INFINITY {
        Some(-f64::MAX)
    } else {
        Some(v)
    }
}

#[derive(Clone, Copy, Debug, PartialEq)]
pub enum EmfNum {
    Int(u64),
    Float(f64),
}

pub const CUSTOM_UNITS: &[&str] = &[
    "Widgets",
    "",
    "a\"b",
    "back\\slash",
    "ünï©ode\u{1F600}",
    "ctl\u{1}\n",
];

pub fn all_builtin_units() -> Vec<Unit> {
    let mut v = vec![Unit::None, Unit::Count, Unit::Percent];
    for s in [NegativeScale::Micro, NegativeScale::Milli, NegativeScale::One] {
        v.push(Unit::Second(s));
    }
    let ps = [
        PositiveScale::One,
        PositiveScale::Kilo,
        PositiveScale::Mega,
        PositiveScale::Giga,
        PositiveScale::Tera,
    ];
    for s in ps {
        v.push(Unit::Byte(s));
    }
    for s in ps {
        v.push(Unit::BytePerSecond(s));
    }
    for s in ps {
        v.push(Unit::Bit(s));
    }
    for s in ps {
        v.push(Unit::BitPerSecond(s));
    }
    v
}

/// index into builtin units (0..26) followed by CUSTOM_UNITS
#[derive(Clone, Copy, PartialEq, Serialize, Deserialize)]
pub struct UnitG(pub u8);

impl UnitG {
    pub const COUNT: u8 = 26 + CUSTOM_UNITS.len() as u8;
    pub fn unit(self) -> Unit {
        let i = (self.0 % Self::COUNT) as usize;
        if i < 26 {
            all_builtin_units()[i]
        } else {
            Unit::Custom(CUSTOM_UNITS[i - 26])
        }
    }
    pub fn from_unit(u: Unit) -> UnitG {
        if let Some(i) = all_builtin_units().iter().position(|x| *x == u) {
            return UnitG(i as u8);
        }
        if let Unit::Custom(c) = u {
            if let Some(i) = CUSTOM_UNITS.iter().position(|x| *x == c) {
                return UnitG(26 + i as u8);
            }
        }
        UnitG(0)
    }
}
impl std::fmt::Debug for UnitG {
    fn fmt(&self, f: &mut std::fmt::Formatter<'_>) -> std::fmt::Result {
        write!(f, "Unit({:?})", self.unit().name())
    }
}

#[derive(Clone, Copy, Debug, PartialEq, Eq, Serialize, Deserialize)]
pub enum FlagG {
    None,
    HighRes,
    NoMetric,
    HighResNoMetric,
    Foreign,
}

#[derive(Debug)]
pub struct ForeignFlag;
impl MetricOptions for ForeignFlag {}

impl FlagG {
    pub fn flags(self) -> MetricFlags<'static> {
        match self {
            FlagG::None => MetricFlags::empty(),
            FlagG::HighRes => HighStorageResolutionCtor::construct(),
            FlagG::NoMetric => NoMetricCtor::construct(),
            FlagG::HighResNoMetric => {
                HighStorageResolutionCtor::construct().try_merge(NoMetricCtor::construct())
            }
            FlagG::Foreign => MetricFlags::upcast(&ForeignFlag),
        }
    }
    /// classify a `MetricFlags` by its Debug text (EmfOptions is private)
    pub fn classify(flags: &MetricFlags<'_>) -> FlagG {
        let d = format!("{:?}", flags);
        if d.contains("NoMetric") {
            FlagG::NoMetric
        } else if d.contains("HighStorageResolution") {
            FlagG::HighRes
        } else if d.contains("Some(") {
            FlagG::Foreign
        } else {
            FlagG::None
        }
    }
    pub fn is_no_metric(self) -> bool {
        matches!(self, FlagG::NoMetric | FlagG::HighResNoMetric)
    }
    pub fn is_high_res(self) -> bool {
        matches!(self, FlagG::HighRes)
    }
}

#[derive(Clone, Debug, PartialEq, Serialize, Deserialize)]
pub enum Val {
    Str(String),
    Nothing,
    Error(String),
    Metric {
        obs: Vec<Obs>,
        unit: UnitG,
        dims: Vec<(String, String)>,
        flags: FlagG,
    },
}

impl Value for Val {
    fn write(&self, writer: impl ValueWriter) {
        match self {
            Val::Str(s) => writer.string(s),
            Val::Nothing => {}
            Val::Error(m) => writer.error(ValidationError::invalid(m.clone())),
            Val::Metric {
                obs,
                unit,
                dims,
                flags,
            } => writer.metric(
                obs.iter().map(|o| o.to_observation()),
                unit.unit(),
                dims.iter().map(|(k, v)| (k.as_str(), v.as_str())),
                flags.flags(),
            ),
        }
    }
}

#[derive(Clone, Debug, PartialEq, Serialize, Deserialize)]
pub enum CfgG {
    AllowSplit,
    EntryDims(Vec<Vec<String>>),
    Foreign,
}

#[derive(Debug)]
pub struct ForeignConfig;
impl EntryConfig for ForeignConfig {}

#[derive(Clone, Debug, PartialEq, Serialize, Deserialize)]
pub enum Op {
    /// seconds + nanos after the epoch; `before_epoch` subtracts instead
    Timestamp {
        secs: u64,
        nanos: u32,
        before_epoch: bool,
    },
    Config(CfgG),
    Value { name: String, val: Val },
    /// the queue's in-band error report entry (config AllowUnroutableEntries + one string)
    ErrorReport(String),
}

impl Op {
    pub fn system_time(secs: u64, nanos: u32, before: bool) -> SystemTime {
        let d = Duration::new(secs, nanos % 1_000_000_000);
        if before {
            SystemTime::UNIX_EPOCH.checked_sub(d).unwrap_or(SystemTime::UNIX_EPOCH)
        } else {
            SystemTime::UNIX_EPOCH + d
        }
    }
}

#[derive(Clone, Debug, PartialEq, Serialize, Deserialize, Default)]
pub struct GenEntry {
    pub ops: Vec<Op>,
    pub sample_group: Vec<(String, String)>,
}

/// `GenEntry` with the config objects materialised (the writer borrows them for `'a`).
pub struct Prepared<'g> {
    pub g: &'g GenEntry,
    cfgs: Vec<Option<Box<dyn EntryConfig>>>,
    errs: Vec<Option<MetriqueValidationError<'g>>>,
}

static ALLOW_SPLIT: AllowSplitEntries = AllowSplitEntries::new();
static FOREIGN: ForeignConfig = ForeignConfig;

impl GenEntry {
    pub fn prepare(&self) -> Prepared<'_> {
        let mut cfgs = vec![];
        let mut errs = vec![];
        for op in &self.ops {
            match op {
                Op::Config(CfgG::EntryDims(d)) => {
                    let owned: Vec<Cow<'static, [Cow<'static, str>]>> = d
                        .iter()
                        .map(|set| {
                            Cow::Owned(
                                set.iter()
                                    .map(|s| Cow::Owned(s.clone()))
                                    .collect::<Vec<Cow<'static, str>>>(),
                            )
                        })
                        .collect();
                    cfgs.push(Some(
                        Box::new(EntryDimensions::new(Cow::Owned(owned))) as Box<dyn EntryConfig>
                    ));
                    errs.push(None);
                }
                Op::ErrorReport(m) => {
                    cfgs.push(None);
                    errs.push(Some(MetriqueValidationError::new(m.as_str())));
                }
                _ => {
                    cfgs.push(None);
                    errs.push(None);
                }
            }
        }
        Prepared {
            g: self,
            cfgs,
            errs,
        }
    }
}

impl<'g> Entry for Prepared<'g> {
    fn write<'a>(&'a self, writer: &mut impl EntryWriter<'a>) {
        for (i, op) in self.g.ops.iter().enumerate() {
            match op {
                Op::Timestamp {
                    secs,
                    nanos,
                    before_epoch,
                } => writer.timestamp(Op::system_time(*secs, *nanos, *before_epoch)),
                Op::Config(CfgG::AllowSplit) => writer.config(&ALLOW_SPLIT),
                Op::Config(CfgG::Foreign) => writer.config(&FOREIGN),
                Op::Config(CfgG::EntryDims(_)) => {
                    writer.config(self.cfgs[i].as_deref().expect("prepared"))
                }
                // names reach the writer borrowed or owned (prefixed / inflected field names
                // are owned Strings), decided by the case content
                Op::Value { name, val } if (name.len() + i) % 2 == 1 => writer.value(name.clone(), val),
                Op::Value { name, val } => writer.value(name.as_str(), val),
                Op::ErrorReport(_) => self.errs[i].as_ref().expect("prepared").write(writer),
            }
        }
    }
    fn sample_group(&self) -> impl Iterator<Item = (Cow<'static, str>, Cow<'static, str>)> {
        self.g
            .sample_group
            .iter()
            .map(|(k, v)| (Cow::Owned(k.clone()), Cow::Owned(v.clone())))
    }
}

/// An owning, `'static`, `Send` entry (for queues / BoxEntry): prepares on every write.
#[derive(Clone, Debug, PartialEq, Serialize, Deserialize)]
pub struct OwnedGen(pub GenEntry);

pub struct OwnedPrepared {
    // self-referential by construction order: `prep` borrows `*g`, which is heap-pinned
    prep: Option<Prepared<'static>>,
    g: Box<GenEntry>,
}

impl OwnedPrepared {
    pub fn new(g: GenEntry) -> Self {
        let g = Box::new(g);
        // SAFETY: `g` is boxed and never moved out or mutated while `prep` lives; `prep` is dropped
        // first (explicit Drop below).
        let r: &'static GenEntry = unsafe { &*(&*g as *const GenEntry) };
        OwnedPrepared {
            prep: Some(r.prepare()),
            g,
        }
    }
    pub fn gen_entry(&self) -> &GenEntry {
        &self.g
    }
}
impl Drop for OwnedPrepared {
    fn drop(&mut self) {
        self.prep = None;
    }
}
unsafe impl Send for OwnedPrepared {}
impl Entry for OwnedPrepared {
    fn write<'a>(&'a self, writer: &mut impl EntryWriter<'a>) {
        // shorten 'static to 'a
        let p: &'a Prepared<'a> = unsafe {
            std::mem::transmute::<&'a Prepared<'static>, &'a Prepared<'a>>(
                self.prep.as_ref().unwrap(),
            )
        };
        p.write(writer)
    }
    fn sample_group(&self) -> impl Iterator<Item = (Cow<'static, str>, Cow<'static, str>)> {
        self.g
            .sample_group
            .iter()
            .map(|(k, v)| (Cow::Owned(k.clone()), Cow::Owned(v.clone())))
    }
}

// ---------------------------------------------------------------------------------------------
// strategies

pub const NAME_POOL: &[&str] = &[
    "A",
    "B",
    "a",
    "Dim1",
    "Dim2",
    "_aws",
    "",
    "Timestamp",
    "Values",
    "Counts",
    "CloudWatchMetrics",
    "M\"q",
    "Z\\",
];

pub fn special_char() -> impl Strategy<Value = char> {
    prop_oneof![
        6 => prop::sample::select(vec![
            '"', '\\', '\0', '\u{1}', '\u{8}', '\u{c}', '\u{1f}', '\u{7f}', '\u{80}', '\u{9f}', '\n', '\r',
            '\t', '\u{2028}', '\u{2029}', '\u{d7ff}', '\u{e000}', '\u{fffd}', '\u{ffff}',
            '\u{10000}', '\u{10ffff}', '😀', 'é', '/', ' ', '{', '}', '[', ']', ',', ':',
        ]),
        3 => prop::char::range('a', 'z'),
        1 => any::<char>(),
    ]
}

pub fn arb_string() -> impl Strategy<Value = String> {
    prop_oneof![
        5 => "[a-zA-Z0-9_]{0,10}",
        4 => prop::collection::vec(special_char(), 0..20).prop_map(|v| v.into_iter().collect::<String>()),
        1 => any::<String>(),
        1 => (prop::collection::vec(special_char(), 1..8), 100usize..1500).prop_map(|(v, n)| {
            let unit: String = v.into_iter().collect();
            unit.repeat(n / unit.chars().count().max(1) + 1)
        }),
    ]
}

pub fn arb_name() -> impl Strategy<Value = String> {
    prop_oneof![
        14 => prop::sample::select(
            NAME_POOL.iter().copied().filter(|n| !n.is_empty() && *n != "_aws").collect::<Vec<_>>()
        )
        .prop_map(|s| s.to_string()),
        1 => prop::sample::select(vec!["_aws", ""]).prop_map(|s| s.to_string()),
        8 => "[A-Za-z][A-Za-z0-9_.-]{0,8}",
        4 => arb_string(),
    ]
}

pub fn arb_f64() -> impl Strategy<Value = F> {
    prop_oneof![
        3 => prop::sample::select(vec![
            f64::NAN, -f64::NAN, f64::INFINITY, f64::NEG_INFINITY, 0.0, -0.0, 1.0, -1.0, 0.1, 1e-310,
            5e-324, f64::MAX, -f64::MAX, f64::MIN_POSITIVE, 9007199254740992.0, 9007199254740993.0,
            9007199254740991.0, 1.5, 1e21, 1e-7, 123456.789, 1.7976931348623157e308,
        ]),
        3 => any::<f64>(),
        2 => (-1000i64..1000).prop_map(|i| i as f64 / 8.0),
        1 => any::<u64>().prop_map(f64::from_bits),
    ]
    .prop_map(F)
}

pub fn arb_u64() -> impl Strategy<Value = u64> {
    prop_oneof![
        3 => prop::sample::select(vec![
            0u64, 1, 2, 255, 1 << 32, (1 << 53) - 1, 1 << 53, (1 << 53) + 1, i64::MAX as u64,
            (i64::MAX as u64) + 1, u64::MAX - 1, u64::MAX,
        ]),
        2 => 0u64..1000,
        1 => any::<u64>(),
    ]
}

pub fn arb_occ() -> impl Strategy<Value = u64> {
    prop_oneof![
        2 => Just(0u64),
        3 => Just(1u64),
        3 => 2u64..50,
        2 => prop::sample::select(vec![u64::MAX, u64::MAX - 1, u64::MAX / 2 + 1, 1u64 << 32, 1u64 << 63]),
        1 => any::<u64>(),
    ]
}

pub fn arb_obs() -> impl Strategy<Value = Obs> {
    prop_oneof![
        3 => arb_u64().prop_map(Obs::U),
        4 => arb_f64().prop_map(Obs::Fl),
        3 => (arb_f64(), arb_occ()).prop_map(|(total, occ)| Obs::Rep { total, occ }),
    ]
}

pub fn arb_unit() -> impl Strategy<Value = UnitG> {
    (0..UnitG::COUNT).prop_map(UnitG)
}

pub fn arb_flag(allow_foreign: bool) -> BoxedStrategy<FlagG> {
    if allow_foreign {
        prop_oneof![
            6 => Just(FlagG::None),
            2 => Just(FlagG::HighRes),
            2 => Just(FlagG::NoMetric),
            1 => Just(FlagG::HighResNoMetric),
            1 => Just(FlagG::Foreign),
        ]
        .boxed()
    } else {
        prop_oneof![
            6 => Just(FlagG::None),
            2 => Just(FlagG::HighRes),
            2 => Just(FlagG::NoMetric),
            1 => Just(FlagG::HighResNoMetric),
        ]
        .boxed()
    }
}

pub fn arb_dims() -> impl Strategy<Value = Vec<(String, String)>> {
    prop_oneof![
        7 => Just(vec![]),
        3 => prop::collection::vec((arb_name(), arb_string()), 1..3),
    ]
}

pub fn arb_val() -> impl Strategy<Value = Val> {
    prop_oneof![
        12 => arb_string().prop_map(Val::Str),
        4 => Just(Val::Nothing),
        1 => "[a-z ]{0,12}".prop_map(Val::Error),
        36 => (prop::collection::vec(arb_obs(), 0..6), arb_unit(), arb_dims(), arb_flag(true)).prop_map(
            |(obs, unit, dims, flags)| Val::Metric { obs, unit, dims, flags }
        ),
    ]
}

pub fn arb_cfg() -> impl Strategy<Value = CfgG> {
    prop_oneof![
        5 => Just(CfgG::AllowSplit),
        1 => Just(CfgG::Foreign),
        2 => prop::collection::vec(
            prop::collection::vec(prop::sample::select(vec!["Dim1", "Dim2", "A"]).prop_map(|s| s.to_string()), 0..3),
            1..3
        )
        .prop_map(CfgG::EntryDims),
        1 => prop::collection::vec(prop::collection::vec(arb_name(), 0..3), 0..3).prop_map(CfgG::EntryDims),
    ]
}

pub fn arb_timestamp() -> impl Strategy<Value = Op> {
    (
        prop_oneof![
            3 => 0u64..4_000_000_000,
            1 => prop::sample::select(vec![0u64, 1, 1_700_000_000, 253_402_300_799, 1 << 40]),
        ],
        prop_oneof![2 => 0u32..1_000_000_000, 1 => prop::sample::select(vec![0u32, 999_999, 1_000_000, 999_999_999])],
        prop::bool::weighted(0.05),
    )
        .prop_map(|(secs, nanos, before_epoch)| Op::Timestamp {
            secs,
            nanos,
            before_epoch,
        })
}

pub fn arb_op() -> impl Strategy<Value = Op> {
    prop_oneof![
        2 => arb_timestamp(),
        2 => arb_cfg().prop_map(Op::Config),
        16 => (arb_name(), arb_val()).prop_map(|(name, val)| Op::Value { name, val }),
        1 => "[a-z ]{0,10}".prop_map(Op::ErrorReport),
    ]
}

/// the *arbitrary* strategy: anything an `Entry` impl could do
pub fn arb_entry() -> impl Strategy<Value = GenEntry> {
    (
        prop::collection::vec(arb_op(), 0..10),
        prop_oneof![
            4 => Just(vec![]),
            1 => prop::collection::vec(("[a-z]{1,4}", "[a-z]{0,4}"), 1..3),
        ],
        prop::bool::weighted(0.6),
        prop::bool::weighted(0.6),
    )
        .prop_map(|(mut ops, sample_group, split_first, write_dims)| {
            // configured dimensions must be written as strings under validation: do so often
            if write_dims {
                for d in ["Dim1", "Dim2"] {
                    if !ops.iter().any(|o| matches!(o, Op::Value { name, .. } if name == d)) {
                        let at = ops.len() / 2;
                        ops.insert(
                            at,
                            Op::Value {
                                name: d.to_string(),
                                val: Val::Str(format!("v{d}")),
                            },
                        );
                    }
                }
            }
            // per-metric dimensions are an error without split mode whatever the validation
            // setting: put the split config first most of the time so that such entries are
            // accepted often enough
            if split_first {
                ops.insert(0, Op::Config(CfgG::AllowSplit));
            }
            GenEntry { ops, sample_group }
        })
}
