//! EMF harness pieces: generated formatter configuration, the independent reference interpreter
//! `RefEmf`, decoding of parsed output lines, and comparison.

use crate::json::{self, J};
use crate::model::*;
use crate::reclog::{Rec, RecLog, RecVal, flag_kind};
use metrique_writer_core::Unit;
use metrique_writer_core::format::Format;
use metrique_writer_core::sample::SampledFormat;
use metrique_writer_core::stream::IoStreamError;
use metrique_writer_format_emf::{Emf, MetricDefinition, MetricDirective, StorageResolution};
use proptest::prelude::*;
use serde::{Deserialize, Serialize};
use std::collections::BTreeMap;

#[derive(Clone, Copy, Debug, PartialEq, Eq, Serialize, Deserialize)]
pub enum Ctor {
    AllValidations,
    NoValidations,
    Builder,
    BuilderSkipTrue,
    BuilderSkipFalse,
}

#[derive(Clone, Debug, PartialEq, Serialize, Deserialize)]
pub struct DirectiveG {
    pub namespace: String,
    pub dims: Vec<Vec<String>>,
    /// (name, unit, storage resolution: None | Some(true)=Second | Some(false)=Minute)
    pub metrics: Vec<(String, UnitG, Option<bool>)>,
}

#[derive(Clone, Debug, PartialEq, Serialize, Deserialize)]
pub struct EmfCfg {
    pub ctor: Ctor,
    pub namespace: String,
    pub extra_namespaces: Vec<String>,
    pub dims: Vec<Vec<String>>,
    pub directives: Vec<DirectiveG>,
    pub log_group: Option<String>,
    pub allow_ignored: bool,
}

impl EmfCfg {
    pub fn simple(ctor: Ctor) -> Self {
        EmfCfg {
            ctor,
            namespace: "NS".into(),
            extra_namespaces: vec![],
            dims: vec![vec![]],
            directives: vec![],
            log_group: None,
            allow_ignored: false,
        }
    }
    /// constructors that return an `Emf` directly cannot take builder options
    pub fn normalize(mut self) -> Self {
        if matches!(self.ctor, Ctor::AllValidations | Ctor::NoValidations) {
            self.extra_namespaces.clear();
            self.directives.clear();
            self.log_group = None;
            self.allow_ignored = false;
        }
        if self.dims.is_empty() {
            self.dims.push(vec![]);
        }
        self
    }
    pub fn with_ctor(&self, ctor: Ctor) -> Self {
        let mut c = self.clone();
        c.ctor = ctor;
        c
    }
    /// does this constructor promise validations in the current build profile?
    pub fn validating(&self) -> bool {
        match self.ctor {
            Ctor::AllValidations => true,
            Ctor::NoValidations | Ctor::BuilderSkipTrue => false,
            Ctor::Builder | Ctor::BuilderSkipFalse => cfg!(debug_assertions),
        }
    }
    /// the same configuration with validations off (for transparency comparison)
    pub fn unvalidated_twin(&self) -> Self {
        match self.ctor {
            Ctor::AllValidations | Ctor::NoValidations => self.with_ctor(Ctor::NoValidations),
            _ => self.with_ctor(Ctor::BuilderSkipTrue),
        }
    }
    pub fn build(&self) -> Emf {
        match self.ctor {
            Ctor::AllValidations => Emf::all_validations(self.namespace.clone(), self.dims.clone()),
            Ctor::NoValidations => Emf::no_validations(self.namespace.clone(), self.dims.clone()),
            _ => {
                let mut b = Emf::builder(self.namespace.clone(), self.dims.clone());
                for ns in &self.extra_namespaces {
                    b = b.add_namespace(ns.clone());
                }
                for d in &self.directives {
                    b = b.directive(MetricDirective {
                        dimensions: d
                            .dims
                            .iter()
                            .map(|s| s.iter().map(|x| x.as_str()).collect())
                            .collect(),
                        metrics: d
                            .metrics
                            .iter()
                            .map(|(n, u, r)| MetricDefinition {
                                name: n.as_str(),
                                unit: u.unit(),
                                storage_resolution: r.map(|s| {
                                    if s {
                                        StorageResolution::Second
                                    } else {
                                        StorageResolution::Minute
                                    }
                                }),
                            })
                            .collect(),
                        namespace: d.namespace.as_str(),
                    });
                }
                if let Some(lg) = &self.log_group {
                    b = b.log_group_name(lg.clone());
                }
                b = b.allow_ignored_dimensions(self.allow_ignored);
                match self.ctor {
                    Ctor::BuilderSkipTrue => b = b.skip_all_validations(true),
                    Ctor::BuilderSkipFalse => b = b.skip_all_validations(false),
                    _ => {}
                }
                b.build()
            }
        }
    }
    pub fn namespaces(&self) -> Vec<String> {
        let mut v = vec![self.namespace.clone()];
        v.extend(self.extra_namespaces.iter().cloned());
        v
    }
}

pub fn arb_ctor() -> impl Strategy<Value = Ctor> {
    prop::sample::select(vec![
        Ctor::AllValidations,
        Ctor::NoValidations,
        Ctor::Builder,
        Ctor::BuilderSkipTrue,
        Ctor::BuilderSkipFalse,
    ])
}

pub fn arb_directive() -> impl Strategy<Value = DirectiveG> {
    (
        arb_string(),
        prop::collection::vec(prop::collection::vec(arb_name(), 0..3), 0..3),
        prop::collection::vec(
            (arb_name(), arb_unit(), prop::option::of(any::<bool>())),
            0..3,
        ),
    )
        .prop_map(|(namespace, dims, metrics)| DirectiveG {
            namespace,
            dims,
            metrics,
        })
}

/// arbitrary configuration (dimension names from the colliding pool)
pub fn arb_cfg_any() -> impl Strategy<Value = EmfCfg> {
    (
        arb_ctor(),
        arb_string(),
        prop::collection::vec(arb_string(), 0..3),
        prop_oneof![
            4 => Just(vec![vec![]]),
            4 => prop::collection::vec(
                prop::collection::vec(prop::sample::select(vec!["Dim1", "Dim2"]).prop_map(|s| s.to_string()), 0..3),
                1..4
            ),
            1 => prop::collection::vec(prop::collection::vec(arb_name(), 0..3), 1..4),
        ],
        prop::collection::vec(arb_directive(), 0..3),
        prop::option::weighted(0.3, arb_string()),
        prop::bool::weighted(0.3),
    )
        .prop_map(
            |(ctor, namespace, extra_namespaces, dims, directives, log_group, allow_ignored)| {
                EmfCfg {
                    ctor,
                    namespace,
                    extra_namespaces,
                    dims,
                    directives,
                    log_group,
                    allow_ignored,
                }
                .normalize()
            },
        )
}

// ---------------------------------------------------------------------------------------------
// scripted RNG

/// `RngCore` that replays scripted 64-bit words (then repeats the last / zero).
#[derive(Clone, Debug)]
pub struct ScriptRng {
    pub words: Vec<u64>,
    pub pos: usize,
}
impl ScriptRng {
    pub fn new(words: Vec<u64>) -> Self {
        ScriptRng { words, pos: 0 }
    }
    fn next(&mut self) -> u64 {
        let w = if self.words.is_empty() {
            0
        } else {
            self.words[self.pos.min(self.words.len() - 1)]
        };
        self.pos += 1;
        w
    }
}
impl rand::RngCore for ScriptRng {
    fn next_u32(&mut self) -> u32 {
        self.next() as u32
    }
    fn next_u64(&mut self) -> u64 {
        self.next()
    }
    fn fill_bytes(&mut self, dst: &mut [u8]) {
        for c in dst.chunks_mut(8) {
            let w = self.next().to_le_bytes();
            c.copy_from_slice(&w[..c.len()]);
        }
    }
}

// ---------------------------------------------------------------------------------------------
// running the formatter

#[derive(Debug, Clone, PartialEq)]
pub enum Decision {
    Ok,
    Validation(String),
    Io(String),
}
impl Decision {
    pub fn kind(&self) -> &'static str {
        match self {
            Decision::Ok => "Ok",
            Decision::Validation(_) => "Validation",
            Decision::Io(_) => "Io",
        }
    }
}

pub fn decision_of(r: Result<(), IoStreamError>) -> Decision {
    match r {
        Ok(()) => Decision::Ok,
        Err(IoStreamError::Validation(v)) => Decision::Validation(v.to_string()),
        Err(IoStreamError::Io(e)) => Decision::Io(e.to_string()),
    }
}

/// sampling mode for a format call
#[derive(Clone, Debug, PartialEq, Serialize, Deserialize)]
pub enum Sampling {
    /// plain `Format::format` on `Emf`
    None,
    /// `SampledEmf::format` (no rate): must behave like None
    SampledNoRate,
    /// `format_with_sample_rate(rate)` with scripted rng words
    Rate { rate_bits: u32, words: Vec<u64> },
}

pub fn format_once(
    emf: &mut Emf,
    entry: &GenEntry,
    sampling: &Sampling,
    out: &mut impl std::io::Write,
) -> Decision {
    let p = entry.prepare();
    match sampling {
        Sampling::None => decision_of(emf.format(&p, out)),
        Sampling::SampledNoRate => {
            let mut s = emf.clone().with_sampling_and_rng(ScriptRng::new(vec![]));
            decision_of(s.format(&p, out))
        }
        Sampling::Rate { rate_bits, words } => {
            let mut s = emf.clone().with_sampling_and_rng(ScriptRng::new(words.clone()));
            decision_of(s.format_with_sample_rate(&p, out, f32::from_bits(*rate_bits)))
        }
    }
}

// ---------------------------------------------------------------------------------------------
// decoded records

#[derive(Clone, Debug, PartialEq)]
pub enum MVal {
    Scalar(Num),
    Hist { values: Vec<Num>, counts: Vec<u64> },
}

/// a number as compared: observed numbers keep their lexeme; expected ones are `Int`/`Float`.
/// Int: the lexeme must denote exactly that integer; Float: the lexeme, parsed with correct
/// rounding, must give exactly that double (sign of zero included).
#[derive(Clone, Debug)]
pub enum Num {
    Int(u64),
    Float(f64),
    Lex(String),
}
fn lex_is(l: &str, n: &Num) -> bool {
    match n {
        Num::Int(u) => {
            if json::is_integer_lexeme(l) {
                l == u.to_string()
            } else {
                // "5.0" / "5e0" style: accept only when exactly representable and equal
                *u < (1u64 << 53) && l.parse::<f64>().map(|f| f == *u as f64).unwrap_or(false)
            }
        }
        Num::Float(f) => l
            .parse::<f64>()
            .map(|g| g.to_bits() == f.to_bits())
            .unwrap_or(false),
        Num::Lex(m) => l == m,
    }
}
impl PartialEq for Num {
    fn eq(&self, o: &Num) -> bool {
        match (self, o) {
            (Num::Lex(l), other) | (other, Num::Lex(l)) => lex_is(l, other),
            (Num::Int(a), Num::Int(b)) => a == b,
            (Num::Float(a), Num::Float(b)) => a.to_bits() == b.to_bits(),
            _ => false,
        }
    }
}

impl Num {
    pub fn from_lexeme(l: &str) -> Result<Num, String> {
        l.parse::<f64>().map_err(|e| format!("bad number {l}: {e}"))?;
        Ok(Num::Lex(l.to_string()))
    }
    pub fn from_emf(e: EmfNum) -> Num {
        match e {
            EmfNum::Int(u) => Num::Int(u),
            EmfNum::Float(f) => Num::Float(f),
        }
    }
}

#[derive(Clone, Debug, PartialEq)]
pub struct DirectiveRec {
    pub namespace: String,
    pub dimensions: Vec<Vec<String>>,
    /// (name, unit, storage resolution)
    pub metrics: Vec<(String, Option<String>, Option<u64>)>,
}

#[derive(Clone, Debug, PartialEq)]
pub struct Record {
    pub timestamp: String,
    pub log_group: Option<String>,
    pub directives: Vec<DirectiveRec>,
    /// members other than `_aws`, in order: strings and metrics
    pub strings: Vec<(String, String)>,
    pub metrics: Vec<(String, MVal)>,
}

/// The C02 validity predicate + decoding. Every shape error is reported as Err.
pub fn decode_record(line: &[u8]) -> Result<Record, String> {
    let j = json::parse(line)?;
    let members = j.as_obj().ok_or("line is not a JSON object")?;
    let aws = j.get("_aws").ok_or("no _aws member")?;
    if aws.as_obj().is_none() {
        return Err("_aws is not an object".into());
    }
    let ts = aws
        .get("Timestamp")
        .and_then(|t| t.as_num())
        .ok_or("_aws.Timestamp missing or not a number")?;
    if !json::is_integer_lexeme(ts) {
        return Err(format!("_aws.Timestamp is not an integer: {ts}"));
    }
    let cwm = aws
        .get("CloudWatchMetrics")
        .and_then(|c| c.as_arr())
        .ok_or("_aws.CloudWatchMetrics missing or not an array")?;
    if cwm.is_empty() {
        return Err("CloudWatchMetrics is empty".into());
    }
    let log_group = match aws.get("LogGroupName") {
        None => None,
        Some(J::Str(s)) => Some(s.clone()),
        Some(_) => return Err("LogGroupName not a string".into()),
    };
    let mut directives = vec![];
    for d in cwm {
        if d.as_obj().is_none() {
            return Err("directive is not an object".into());
        }
        let namespace = d
            .get("Namespace")
            .and_then(|n| n.as_str())
            .ok_or("directive without string Namespace")?
            .to_string();
        let dims = d
            .get("Dimensions")
            .and_then(|n| n.as_arr())
            .ok_or("directive without array Dimensions")?;
        let mut dimensions = vec![];
        for set in dims {
            let set = set.as_arr().ok_or("dimension set is not an array")?;
            let mut s = vec![];
            for n in set {
                s.push(n.as_str().ok_or("dimension name is not a string")?.to_string());
            }
            dimensions.push(s);
        }
        let ms = d
            .get("Metrics")
            .and_then(|n| n.as_arr())
            .ok_or("directive without array Metrics")?;
        let mut metrics = vec![];
        for m in ms {
            if m.as_obj().is_none() {
                return Err("metric definition is not an object".into());
            }
            let name = m
                .get("Name")
                .and_then(|n| n.as_str())
                .ok_or("metric definition without string Name")?
                .to_string();
            let unit = match m.get("Unit") {
                None => None,
                Some(J::Str(s)) => Some(s.clone()),
                Some(_) => return Err("Unit not a string".into()),
            };
            let sr = match m.get("StorageResolution") {
                None => None,
                Some(J::Num(n)) => Some(n.parse::<u64>().map_err(|_| "bad StorageResolution")?),
                Some(_) => return Err("StorageResolution not a number".into()),
            };
            metrics.push((name, unit, sr));
        }
        directives.push(DirectiveRec {
            namespace,
            dimensions,
            metrics,
        });
    }
    let mut strings = vec![];
    let mut metrics = vec![];
    let mut seen_aws = false;
    for (k, v) in members {
        if k == "_aws" && !seen_aws {
            seen_aws = true;
            continue;
        }
        match v {
            J::Str(s) => strings.push((k.clone(), s.clone())),
            J::Num(n) => metrics.push((k.clone(), MVal::Scalar(Num::from_lexeme(n)?))),
            J::Obj(_) => {
                let values = v
                    .get("Values")
                    .and_then(|x| x.as_arr())
                    .ok_or_else(|| format!("member {k:?}: object without Values array"))?;
                let counts = v
                    .get("Counts")
                    .and_then(|x| x.as_arr())
                    .ok_or_else(|| format!("member {k:?}: object without Counts array"))?;
                if v.as_obj().unwrap().len() != 2 {
                    return Err(format!("member {k:?}: unexpected members in histogram object"));
                }
                if values.len() != counts.len() {
                    return Err(format!(
                        "member {k:?}: Values/Counts not aligned ({} vs {})",
                        values.len(),
                        counts.len()
                    ));
                }
                let mut vs = vec![];
                let mut cs = vec![];
                for x in values {
                    vs.push(Num::from_lexeme(x.as_num().ok_or("Values element not a number")?)?);
                }
                for x in counts {
                    let l = x.as_num().ok_or("Counts element not a number")?;
                    cs.push(l.parse::<u64>().map_err(|_| format!("Counts element not u64: {l}"))?);
                }
                metrics.push((k.clone(), MVal::Hist { values: vs, counts: cs }));
            }
            other => return Err(format!("member {k:?} has unexpected JSON type: {other:?}")),
        }
    }
    Ok(Record {
        timestamp: ts.to_string(),
        log_group,
        directives,
        strings,
        metrics,
    })
}

/// Check framing + decode every line (C02's oracle).
pub fn decode_output(out: &[u8]) -> Result<Vec<Record>, String> {
    let lines = json::split_lines(out)?;
    let mut v = vec![];
    for (i, l) in lines.iter().enumerate() {
        v.push(decode_record(l).map_err(|e| format!("line {i}: {e}"))?);
    }
    Ok(v)
}

// ---------------------------------------------------------------------------------------------
// RefEmf: independent reference interpretation of a call log

#[derive(Clone, Debug)]
struct RefMetric {
    name: String,
    val: Option<MVal>,
    unit: Option<String>,
    flags: FlagG,
}

/// Interpret the recorded call sequence of an entry *within the documented domain* (no
/// validation defects) and produce the expected records. `mult` is the sampling multiplicity.
pub fn ref_emf(log: &RecLog, cfg: &EmfCfg, mult: Option<u64>) -> Vec<Record> {
    let mut ts_ms: Option<u128> = None;
    let mut strings: Vec<(String, String)> = vec![];
    let mut entry_dims: Option<Vec<Vec<String>>> = None;
    // record key (sorted dimension kv) -> metrics ; key empty = global record
    let mut recs: Vec<(Vec<(String, String)>, Vec<RefMetric>)> = vec![(vec![], vec![])];
    for r in &log.recs {
        match r {
            Rec::Timestamp(n) => {
                ts_ms = Some(if *n < 0 { 0 } else { (*n as u128) / 1_000_000 });
            }
            Rec::Config(d) => {
                if let Some(sets) = parse_entry_dims_debug(d) {
                    entry_dims = Some(sets);
                }
            }
            Rec::Value { name, val } => match val {
                RecVal::Str(s) => strings.push((name.clone(), s.clone())),
                RecVal::Nothing | RecVal::Error(_) => {}
                RecVal::Metric {
                    obs,
                    unit,
                    dims,
                    flags,
                } => {
                    let mut key: Vec<(String, String)> = if cfg.allow_ignored {
                        vec![]
                    } else {
                        dims.clone()
                    };
                    key.sort();
                    let usable: Vec<(Num, u64)> = obs
                        .iter()
                        .filter_map(|o| {
                            o.emf_value().map(|v| {
                                (
                                    Num::from_emf(v),
                                    o.occurrences().saturating_mul(mult.unwrap_or(1)),
                                )
                            })
                        })
                        .collect();
                    let val = if usable.is_empty() {
                        None
                    } else if obs.len() == 1 && mult.is_none() && !matches!(obs[0], Obs::Rep { .. }) {
                        Some(MVal::Scalar(usable[0].0.clone()))
                    } else {
                        Some(MVal::Hist {
                            values: usable.iter().map(|x| x.0.clone()).collect(),
                            counts: usable.iter().map(|x| x.1).collect(),
                        })
                    };
                    let m = RefMetric {
                        name: name.clone(),
                        val,
                        unit: if unit == "None" { None } else { Some(unit.clone()) },
                        flags: flag_kind(flags),
                    };
                    if let Some(e) = recs.iter_mut().find(|(k, _)| *k == key) {
                        e.1.push(m);
                    } else {
                        recs.push((key, vec![m]));
                    }
                }
            },
        }
    }
    let base_dims: Vec<Vec<String>> = match &entry_dims {
        None => cfg.dims.clone(),
        Some(e) => cfg
            .dims
            .iter()
            .flat_map(|d| {
                e.iter().map(move |x| {
                    let mut s = d.clone();
                    s.extend(x.iter().cloned());
                    s
                })
            })
            .collect(),
    };
    let namespaces = cfg.namespaces();
    let mut out = vec![];
    let any_split_emitted = recs[1..]
        .iter()
        .any(|(_, ms)| ms.iter().any(|m| m.val.is_some()));
    for (i, (key, ms)) in recs.iter().enumerate() {
        let emitted: Vec<&RefMetric> = ms.iter().filter(|m| m.val.is_some()).collect();
        if i == 0 {
            if any_split_emitted && emitted.is_empty() {
                continue;
            }
        } else if emitted.is_empty() {
            continue;
        }
        let dimensions: Vec<Vec<String>> = base_dims
            .iter()
            .map(|d| {
                let mut s = d.clone();
                s.extend(key.iter().map(|(k, _)| k.clone()));
                s
            })
            .collect();
        let decl: Vec<(String, Option<String>, Option<u64>)> = emitted
            .iter()
            .filter(|m| !m.flags.is_no_metric())
            .map(|m| {
                (
                    m.name.clone(),
                    m.unit.clone(),
                    if m.flags.is_high_res() { Some(1) } else { None },
                )
            })
            .collect();
        let mut directives: Vec<DirectiveRec> = namespaces
            .iter()
            .map(|ns| DirectiveRec {
                namespace: ns.clone(),
                dimensions: dimensions.clone(),
                metrics: decl.clone(),
            })
            .collect();
        if i == 0 {
            for d in &cfg.directives {
                directives.push(DirectiveRec {
                    namespace: d.namespace.clone(),
                    dimensions: d.dims.clone(),
                    metrics: d
                        .metrics
                        .iter()
                        .map(|(n, u, r)| {
                            (
                                n.clone(),
                                // serde serialises Unit by name, including "None"
                                Some(u.unit().name().to_string()),
                                r.map(|s| if s { 1 } else { 60 }),
                            )
                        })
                        .collect(),
                });
            }
        }
        let mut all_strings = strings.clone();
        for (k, v) in key {
            all_strings.push((k.clone(), v.clone()));
        }
        out.push(Record {
            timestamp: ts_ms.map(|t| t.to_string()).unwrap_or_default(),
            log_group: cfg.log_group.clone(),
            directives,
            strings: all_strings,
            metrics: emitted
                .iter()
                .map(|m| (m.name.clone(), m.val.clone().unwrap()))
                .collect(),
        });
    }
    out
}

/// `EntryDimensions { dimensions: [["a", "b"], []] }` -> sets. The Debug text of `Cow<str>` is
/// the Debug text of a `str`, which serde_json can read back for the characters we generate
/// in *valid* entries (dimension names there are restricted to a JSON-compatible alphabet).
pub fn parse_entry_dims_debug(d: &str) -> Option<Vec<Vec<String>>> {
    let rest = d.strip_prefix("EntryDimensions { dimensions: ")?;
    let rest = rest.strip_suffix(" }")?;
    // grammar: [ [ "str", ... ], ... ] with Rust `str` Debug escapes
    let cs: Vec<char> = rest.chars().collect();
    let mut i = 0usize;
    let mut depth = 0;
    let mut out: Vec<Vec<String>> = vec![];
    while i < cs.len() {
        match cs[i] {
            '[' => {
                depth += 1;
                if depth == 2 {
                    out.push(vec![]);
                }
                i += 1;
            }
            ']' => {
                depth -= 1;
                i += 1;
            }
            ',' | ' ' => i += 1,
            '"' => {
                i += 1;
                let mut s = String::new();
                loop {
                    let c = *cs.get(i)?;
                    i += 1;
                    match c {
                        '"' => break,
                        '\\' => {
                            let e = *cs.get(i)?;
                            i += 1;
                            match e {
                                'n' => s.push('\n'),
                                'r' => s.push('\r'),
                                't' => s.push('\t'),
                                '0' => s.push('\0'),
                                '\\' => s.push('\\'),
                                '"' => s.push('"'),
                                '\'' => s.push('\''),
                                'u' => {
                                    if *cs.get(i)? != '{' {
                                        return None;
                                    }
                                    i += 1;
                                    let mut h = String::new();
                                    while *cs.get(i)? != '}' {
                                        h.push(cs[i]);
                                        i += 1;
                                    }
                                    i += 1;
                                    s.push(char::from_u32(u32::from_str_radix(&h, 16).ok()?)?);
                                }
                                _ => return None,
                            }
                        }
                        c => s.push(c),
                    }
                }
                if depth != 2 {
                    return None;
                }
                out.last_mut()?.push(s);
            }
            _ => return None,
        }
    }
    if depth != 0 {
        return None;
    }
    Some(out)
}

/// canonical form for multiset comparison: members sorted, directive order kept
pub fn canon(mut r: Record) -> Record {
    r.strings.sort();
    r.metrics.sort_by(|a, b| a.0.cmp(&b.0));
    for d in r.directives.iter_mut() {
        d.metrics.sort();
    }
    r
}

/// Compare observed records with expected ones as multisets. Returns a description of the first
/// difference.
pub fn compare_records(observed: &[Record], expected: &[Record], check_ts: bool) -> Result<(), String> {
    let mut obs: Vec<Record> = observed.iter().cloned().map(canon).collect();
    let exp: Vec<Record> = expected.iter().cloned().map(canon).collect();
    if obs.len() != exp.len() {
        return Err(format!(
            "record count differs: observed {} expected {}\nobserved={:?}\nexpected={:?}",
            obs.len(),
            exp.len(),
            obs,
            exp
        ));
    }
    for e in &exp {
        let pos = obs.iter().position(|o| {
            let mut o2 = o.clone();
            if !check_ts {
                o2.timestamp = e.timestamp.clone();
            }
            o2 == *e
        });
        match pos {
            Some(p) => {
                obs.remove(p);
            }
            None => {
                return Err(format!(
                    "expected record not found:\n  expected={:?}\n  remaining observed={:?}",
                    e, obs
                ));
            }
        }
    }
    Ok(())
}

pub fn lines_multiset(out: &[u8]) -> BTreeMap<Vec<u8>, usize> {
    let mut m = BTreeMap::new();
    if out.is_empty() {
        return m;
    }
    let body = if out.last() == Some(&b'\n') {
        &out[..out.len() - 1]
    } else {
        out
    };
    for l in body.split(|b| *b == b'\n') {
        *m.entry(l.to_vec()).or_insert(0) += 1;
    }
    m
}

#[allow(dead_code)]
fn _u(_: Unit) {}
