//! `RecLog`: an `EntryWriter` that records the exact ordered call sequence an entry makes.
//! Unlike `test_util::to_test_entry` it keeps order, duplicates and error values.

use crate::model::{CfgG, F, FlagG, GenEntry, Obs, Op, UnitG, Val};
use metrique_writer_core::{
    Entry, EntryConfig, EntryWriter, MetricFlags, Observation, Unit, ValidationError, Value,
    ValueWriter,
};
use serde::{Deserialize, Serialize};
use std::any::Any;
use std::borrow::Cow;
use std::time::SystemTime;

#[derive(Clone, Debug, PartialEq, Serialize, Deserialize)]
pub enum RecVal {
    Str(String),
    Metric {
        obs: Vec<Obs>,
        unit: String,
        dims: Vec<(String, String)>,
        flags: String,
    },
    Error(String),
    Nothing,
}

#[derive(Clone, Debug, PartialEq, Serialize, Deserialize)]
pub enum Rec {
    /// nanoseconds relative to the epoch (negative = before)
    Timestamp(i128),
    /// Debug text of the config object
    Config(String),
    Value { name: String, val: RecVal },
}

#[derive(Default, Debug, Clone, PartialEq)]
pub struct RecLog {
    pub recs: Vec<Rec>,
    /// structured copies kept for re-materialisation
    pub units: Vec<Unit>,
}

struct RecValueWriter<'r> {
    slot: &'r mut Option<RecVal>,
    unit_slot: &'r mut Option<Unit>,
}

impl ValueWriter for RecValueWriter<'_> {
    fn string(self, value: &str) {
        *self.slot = Some(RecVal::Str(value.to_string()));
    }
    fn metric<'a>(
        self,
        distribution: impl IntoIterator<Item = Observation>,
        unit: Unit,
        dimensions: impl IntoIterator<Item = (&'a str, &'a str)>,
        flags: MetricFlags<'_>,
    ) {
        *self.unit_slot = Some(unit);
        *self.slot = Some(RecVal::Metric {
            obs: distribution.into_iter().map(Obs::from_observation).collect(),
            unit: unit.name().to_string(),
            dims: dimensions
                .into_iter()
                .map(|(k, v)| (k.to_string(), v.to_string()))
                .collect(),
            flags: format!("{:?}", flags),
        });
    }
    fn error(self, error: ValidationError) {
        *self.slot = Some(RecVal::Error(error.to_string()));
    }
}

impl<'a> EntryWriter<'a> for RecLog {
    fn timestamp(&mut self, timestamp: SystemTime) {
        let n = match timestamp.duration_since(SystemTime::UNIX_EPOCH) {
            Ok(d) => d.as_nanos() as i128,
            Err(e) => -(e.duration().as_nanos() as i128),
        };
        self.recs.push(Rec::Timestamp(n));
    }
    fn value(&mut self, name: impl Into<Cow<'a, str>>, value: &(impl Value + ?Sized)) {
        let name: Cow<'a, str> = name.into();
        let mut slot = None;
        let mut unit_slot = None;
        value.write(RecValueWriter {
            slot: &mut slot,
            unit_slot: &mut unit_slot,
        });
        if let Some(u) = unit_slot {
            self.units.push(u);
        }
        self.recs.push(Rec::Value {
            name: name.into_owned(),
            val: slot.unwrap_or(RecVal::Nothing),
        });
    }
    fn config(&mut self, config: &'a dyn EntryConfig) {
        let _ = (config as &dyn Any).type_id();
        self.recs.push(Rec::Config(format!("{:?}", config)));
    }
}

pub fn record(entry: &impl Entry) -> RecLog {
    let mut r = RecLog::default();
    entry.write(&mut r);
    r
}

pub fn sample_group_of(entry: &impl Entry) -> Vec<(String, String)> {
    entry
        .sample_group()
        .map(|(k, v)| (k.into_owned(), v.into_owned()))
        .collect()
}

pub fn flag_kind(flags_debug: &str) -> FlagG {
    if flags_debug.contains("NoMetric") {
        FlagG::NoMetric
    } else if flags_debug.contains("HighStorageResolution") {
        FlagG::HighRes
    } else if flags_debug.contains("Some(") {
        FlagG::Foreign
    } else {
        FlagG::None
    }
}

impl RecLog {
    /// Re-materialise the log as a `GenEntry` that makes the same calls (used to nest wrappers
    /// beyond the statically instantiated depth). Returns None if the log contains something a
    /// `GenEntry` cannot reproduce (foreign config text, unknown unit).
    pub fn to_gen_entry(&self) -> Option<GenEntry> {
        let mut ops = vec![];
        let mut unit_iter = self.units.iter();
        for r in &self.recs {
            match r {
                Rec::Timestamp(n) => {
                    let before = *n < 0;
                    let a = n.unsigned_abs();
                    ops.push(Op::Timestamp {
                        secs: (a / 1_000_000_000) as u64,
                        nanos: (a % 1_000_000_000) as u32,
                        before_epoch: before,
                    });
                }
                Rec::Config(d) => {
                    if d.starts_with("AllowSplitEntries") {
                        ops.push(Op::Config(CfgG::AllowSplit));
                    } else if d.starts_with("ForeignConfig") {
                        ops.push(Op::Config(CfgG::Foreign));
                    } else {
                        return None;
                    }
                }
                Rec::Value { name, val } => {
                    let v = match val {
                        RecVal::Str(s) => Val::Str(s.clone()),
                        RecVal::Nothing => Val::Nothing,
                        RecVal::Error(_) => return None,
                        RecVal::Metric {
                            obs,
                            unit: _,
                            dims,
                            flags,
                        } => {
                            let u = *unit_iter.next()?;
                            let ug = UnitG::from_unit(u);
                            if ug.unit() != u {
                                return None;
                            }
                            let fk = flag_kind(flags);
                            Val::Metric {
                                obs: obs.clone(),
                                unit: ug,
                                dims: dims.clone(),
                                flags: fk,
                            }
                        }
                    };
                    ops.push(Op::Value {
                        name: name.clone(),
                        val: v,
                    });
                }
            }
        }
        Some(GenEntry {
            ops,
            sample_group: vec![],
        })
    }
}

#[allow(dead_code)]
fn _f(_: F) {}
