//! Shared driver pieces for the background-queue family (C01, C04, C05, C09, C16-sink, C17).

use crate::iofault::SRes;
use metrique_writer_core::{
    Entry, EntryConfig, EntryIoStream, EntryWriter, IoStreamError, MetricFlags, Observation, Unit, ValidationError,
    Value, ValueWriter,
};
use std::borrow::Cow;
use std::future::Future;
use std::io;
use std::pin::Pin;
use std::sync::atomic::{AtomicBool, AtomicU64, Ordering};
use std::sync::{Arc, Condvar, Mutex};
use std::task::{Context, Poll, Wake, Waker};
use std::time::{Duration, Instant, SystemTime};

#[derive(Clone, Copy, Debug, PartialEq, Eq, Hash, PartialOrd, Ord, serde::Serialize)]
pub struct Id {
    pub p: u32,
    pub s: u32,
}

#[derive(Clone, Debug, PartialEq, serde::Serialize)]
pub enum Ev {
    AppendStart(Id),
    AppendEnd(Id),
    FlushReq(u32),
    FlushDone(u32),
    Next(Id, SRes),
    NextReport(SRes),
    NextOther,
    StreamFlush,
    StreamDropped,
    HandleDropStart,
    HandleDropEnd,
    LastQueueHandleDropped,
    Note(&'static str),
}

#[derive(Default)]
pub struct EventLog {
    pub evs: Mutex<Vec<Ev>>,
}
impl EventLog {
    pub fn push(&self, e: Ev) {
        self.evs.lock().unwrap().push(e);
    }
    pub fn snapshot(&self) -> Vec<Ev> {
        self.evs.lock().unwrap().clone()
    }
    pub fn count(&self, f: impl Fn(&Ev) -> bool) -> usize {
        self.evs.lock().unwrap().iter().filter(|e| f(e)).count()
    }
}

/// the entry type sent through queues: carries (producer, seq)
#[derive(Debug, Clone)]
pub struct TestE(pub Id);
impl Entry for TestE {
    fn write<'a>(&'a self, w: &mut impl EntryWriter<'a>) {
        w.value("p", &(self.0.p as u64));
        w.value("s", &(self.0.s as u64));
    }
}

#[derive(Default)]
struct IdWriter {
    p: Option<u64>,
    s: Option<u64>,
    report: bool,
    other: usize,
}
struct IdValue<'a>(&'a mut Option<u64>, &'a mut bool);
impl ValueWriter for IdValue<'_> {
    fn string(self, _v: &str) {
        *self.1 = true;
    }
    fn metric<'a>(
        self,
        d: impl IntoIterator<Item = Observation>,
        _u: Unit,
        _dims: impl IntoIterator<Item = (&'a str, &'a str)>,
        _f: MetricFlags<'_>,
    ) {
        if let Some(Observation::Unsigned(u)) = d.into_iter().next() {
            *self.0 = Some(u);
        }
    }
    fn error(self, _e: ValidationError) {}
}
impl<'a> EntryWriter<'a> for IdWriter {
    fn timestamp(&mut self, _t: SystemTime) {}
    fn value(&mut self, name: impl Into<Cow<'a, str>>, value: &(impl Value + ?Sized)) {
        let name = name.into();
        let mut is_str = false;
        match &*name {
            "p" => value.write(IdValue(&mut self.p, &mut is_str)),
            "s" => value.write(IdValue(&mut self.s, &mut is_str)),
            "MetriqueValidationError" => self.report = true,
            _ => self.other += 1,
        }
    }
    fn config(&mut self, _c: &'a dyn EntryConfig) {}
}

pub enum Seen {
    Entry(Id),
    Report,
    Other,
}
pub fn identify(entry: &impl Entry) -> Seen {
    let mut w = IdWriter::default();
    entry.write(&mut w);
    match (w.p, w.s, w.report) {
        (Some(p), Some(s), false) => Seen::Entry(Id { p: p as u32, s: s as u32 }),
        (_, _, true) => Seen::Report,
        _ => Seen::Other,
    }
}

/// fuel gate: the writer thread blocks inside `next` until the harness grants fuel
pub struct Gate {
    st: Mutex<GateSt>,
    cv: Condvar,
    pub timed_out: AtomicBool,
}
struct GateSt {
    fuel: u64,
    open: bool,
    blocked: bool,
    consumed: u64,
}
impl Gate {
    pub fn new(open: bool) -> Arc<Gate> {
        Arc::new(Gate {
            st: Mutex::new(GateSt {
                fuel: 0,
                open,
                blocked: false,
                consumed: 0,
            }),
            cv: Condvar::new(),
            timed_out: AtomicBool::new(false),
        })
    }
    pub fn grant(&self, n: u64) {
        let mut s = self.st.lock().unwrap();
        s.fuel += n;
        self.cv.notify_all();
    }
    pub fn open(&self) {
        let mut s = self.st.lock().unwrap();
        s.open = true;
        self.cv.notify_all();
    }
    pub fn consumed(&self) -> u64 {
        self.st.lock().unwrap().consumed
    }
    /// called by the stream (writer thread)
    fn take(&self) {
        let mut s = self.st.lock().unwrap();
        let deadline = Instant::now() + Duration::from_secs(30);
        while !s.open && s.fuel == 0 {
            s.blocked = true;
            self.cv.notify_all();
            let (g, to) = self.cv.wait_timeout(s, Duration::from_millis(200)).unwrap();
            s = g;
            if to.timed_out() && Instant::now() > deadline {
                self.timed_out.store(true, Ordering::Relaxed);
                s.open = true;
            }
        }
        s.blocked = false;
        if !s.open {
            s.fuel -= 1;
        }
        s.consumed += 1;
        self.cv.notify_all();
    }
    /// wait until the writer is blocked at the gate (holding one popped entry); false on timeout
    pub fn wait_blocked(&self, timeout: Duration) -> bool {
        let mut s = self.st.lock().unwrap();
        let deadline = Instant::now() + timeout;
        while !s.blocked {
            let left = deadline.saturating_duration_since(Instant::now());
            if left.is_zero() {
                return false;
            }
            s = self.cv.wait_timeout(s, left).unwrap().0;
        }
        true
    }
    /// wait until `n` entries have passed the gate in total
    pub fn wait_consumed(&self, n: u64, timeout: Duration) -> bool {
        let mut s = self.st.lock().unwrap();
        let deadline = Instant::now() + timeout;
        while s.consumed < n {
            let left = deadline.saturating_duration_since(Instant::now());
            if left.is_zero() {
                return false;
            }
            s = self.cv.wait_timeout(s, left).unwrap().0;
        }
        true
    }
    pub fn is_blocked(&self) -> bool {
        self.st.lock().unwrap().blocked
    }
}

/// lets the harness hold the writer thread inside one `stream.flush()` call
#[derive(Default)]
pub struct FlushHold {
    st: Mutex<(bool, bool)>, // (armed, in_flush)
    cv: Condvar,
}
impl FlushHold {
    pub fn arm(&self) {
        self.st.lock().unwrap().0 = true;
    }
    pub fn wait_in_flush(&self, timeout: Duration) -> bool {
        let mut s = self.st.lock().unwrap();
        let deadline = Instant::now() + timeout;
        while !s.1 {
            let left = deadline.saturating_duration_since(Instant::now());
            if left.is_zero() {
                return false;
            }
            s = self.cv.wait_timeout(s, left).unwrap().0;
        }
        true
    }
    pub fn release(&self) {
        let mut s = self.st.lock().unwrap();
        s.0 = false;
        self.cv.notify_all();
    }
    pub(crate) fn on_flush(&self) {
        let mut s = self.st.lock().unwrap();
        if !s.0 {
            return;
        }
        s.1 = true;
        self.cv.notify_all();
        let deadline = Instant::now() + Duration::from_secs(10);
        while s.0 && Instant::now() < deadline {
            s = self.cv.wait_timeout(s, Duration::from_millis(100)).unwrap().0;
        }
        s.0 = false;
        s.1 = false;
    }
}

pub static REPORTS_SEEN: AtomicU64 = AtomicU64::new(0);

/// recording, gated, result-scripted stream
/// `metrics::Recorder` for a queue's own metrics whose `metrique_queue_len` histogram record can be
/// held (the same device as `FlushHold`): the writer thread is then stopped INSIDE the recorder
/// call it makes at the end of a flush interval, between taking its queue-length sample and
/// looking at the shutdown flag.
pub struct HeldRecorder {
    pub hold: Arc<FlushHold>,
}
struct HoldHist(Arc<FlushHold>);
impl metrics_024::HistogramFn for HoldHist {
    fn record(&self, _value: f64) {
        self.0.on_flush();
    }
}
impl metrics_024::Recorder for HeldRecorder {
    fn describe_counter(&self, _: metrics_024::KeyName, _: Option<metrics_024::Unit>, _: metrics_024::SharedString) {}
    fn describe_gauge(&self, _: metrics_024::KeyName, _: Option<metrics_024::Unit>, _: metrics_024::SharedString) {}
    fn describe_histogram(&self, _: metrics_024::KeyName, _: Option<metrics_024::Unit>, _: metrics_024::SharedString) {}
    fn register_counter(&self, _: &metrics_024::Key, _: &metrics_024::Metadata<'_>) -> metrics_024::Counter {
        metrics_024::Counter::noop()
    }
    fn register_gauge(&self, _: &metrics_024::Key, _: &metrics_024::Metadata<'_>) -> metrics_024::Gauge {
        metrics_024::Gauge::noop()
    }
    fn register_histogram(&self, key: &metrics_024::Key, _: &metrics_024::Metadata<'_>) -> metrics_024::Histogram {
        if key.name() == "metrique_queue_len" {
            metrics_024::Histogram::from_arc(Arc::new(HoldHist(self.hold.clone())))
        } else {
            metrics_024::Histogram::noop()
        }
    }
}

pub struct BqStream {
    pub results: Vec<SRes>,
    pub flush_ok: Vec<bool>,
    pub gate: Arc<Gate>,
    pub log: Arc<EventLog>,
    pub n_next: usize,
    pub n_flush: usize,
    /// spin/yield perturbation inside callbacks (generated)
    pub jitter: Vec<u8>,
    pub flush_hold: Option<Arc<FlushHold>>,
    /// the result / flush scripts repeat instead of falling back to Ok when used up
    pub cycle: bool,
    /// results for the queue's own in-band report entries (default Ok)
    pub report_results: Vec<SRes>,
    pub n_report: usize,
}
impl BqStream {
    pub fn new(results: Vec<SRes>, gate: Arc<Gate>, log: Arc<EventLog>) -> Self {
        // the report rate limit is judged against process time: start the clock before any report
        process_start();
        BqStream {
            results,
            flush_ok: vec![],
            gate,
            log,
            n_next: 0,
            n_flush: 0,
            jitter: vec![],
            flush_hold: None,
            cycle: false,
            report_results: vec![],
            n_report: 0,
        }
    }
}
pub fn jitter(k: u8) {
    match k % 8 {
        0..=3 => {}
        4 | 5 => std::thread::yield_now(),
        6 => {
            for _ in 0..(k as u32 * 8) {
                std::hint::spin_loop();
            }
        }
        _ => std::thread::sleep(Duration::from_micros((k as u64 % 50) + 1)),
    }
}
impl EntryIoStream for BqStream {
    fn next(&mut self, entry: &impl Entry) -> Result<(), IoStreamError> {
        let seen = identify(entry);
        // the in-band report bypasses the gate (it is written while the failed entry is handled)
        if !matches!(seen, Seen::Report) {
            self.gate.take();
        }
        if !self.jitter.is_empty() {
            jitter(self.jitter[self.n_next % self.jitter.len()]);
        }
        let r = match seen {
            Seen::Report => {
                let r = self.report_results.get(self.n_report).copied().unwrap_or(SRes::Ok);
                self.n_report += 1;
                r
            }
            _ => {
                let r = if self.cycle && !self.results.is_empty() {
                    self.results[self.n_next % self.results.len()]
                } else {
                    self.results.get(self.n_next).copied().unwrap_or(SRes::Ok)
                };
                self.n_next += 1;
                r
            }
        };
        match seen {
            Seen::Entry(id) => self.log.push(Ev::Next(id, r)),
            Seen::Report => {
                REPORTS_SEEN.fetch_add(1, Ordering::Relaxed);
                self.log.push(Ev::NextReport(r))
            }
            Seen::Other => self.log.push(Ev::NextOther),
        }
        match r {
            SRes::Ok => Ok(()),
            SRes::Validation => Err(IoStreamError::Validation(ValidationError::invalid("scripted"))),
            SRes::Io => Err(IoStreamError::Io(io::Error::other("scripted"))),
        }
    }
    fn flush(&mut self) -> io::Result<()> {
        let i = self.n_flush;
        self.n_flush += 1;
        self.log.push(Ev::StreamFlush);
        if let Some(h) = &self.flush_hold {
            h.on_flush();
        }
        let ok = if self.cycle && !self.flush_ok.is_empty() {
            self.flush_ok[i % self.flush_ok.len()]
        } else {
            self.flush_ok.get(i).copied().unwrap_or(true)
        };
        if ok {
            Ok(())
        } else {
            Err(io::Error::other("scripted flush error"))
        }
    }
}
impl Drop for BqStream {
    fn drop(&mut self) {
        self.log.push(Ev::StreamDropped);
    }
}

// ---------------------------------------------------------------------------------------------
// tiny executor

struct ThreadWaker(std::thread::Thread, AtomicBool);
impl Wake for ThreadWaker {
    fn wake(self: Arc<Self>) {
        self.1.store(true, Ordering::SeqCst);
        self.0.unpark();
    }
}

/// block on a future; None on timeout
pub fn block_on_timeout<F: Future>(f: F, timeout: Duration) -> Option<F::Output> {
    let mut f = Box::pin(f);
    let tw = Arc::new(ThreadWaker(std::thread::current(), AtomicBool::new(false)));
    let waker = Waker::from(tw.clone());
    let mut cx = Context::from_waker(&waker);
    let deadline = Instant::now() + timeout;
    loop {
        if let Poll::Ready(v) = f.as_mut().poll(&mut cx) {
            return Some(v);
        }
        while !tw.1.swap(false, Ordering::SeqCst) {
            let left = deadline.saturating_duration_since(Instant::now());
            if left.is_zero() {
                return None;
            }
            std::thread::park_timeout(left.min(Duration::from_millis(50)));
        }
    }
}

struct NoopWaker;
impl Wake for NoopWaker {
    fn wake(self: Arc<Self>) {}
}
pub fn poll_once<F: Future + ?Sized>(f: Pin<&mut F>) -> Poll<F::Output> {
    let waker = Waker::from(Arc::new(NoopWaker));
    let mut cx = Context::from_waker(&waker);
    f.poll(&mut cx)
}

pub fn process_start() -> Instant {
    static START: std::sync::OnceLock<Instant> = std::sync::OnceLock::new();
    *START.get_or_init(Instant::now)
}
