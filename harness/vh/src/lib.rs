//! Verification harness for awslabs/metrique: property-based testing / fuzzing.
#![allow(clippy::type_complexity)]

pub mod engine;
pub mod json;
pub mod model;
pub mod reclog;
pub mod emfh;
pub mod emfgen;
pub mod iofault;
pub mod bq;
pub mod c07gen;
pub mod props;
pub mod fuzzdec;
