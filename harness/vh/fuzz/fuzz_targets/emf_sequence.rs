#![no_main]
//! Coverage-guided search for C02 (sequence form) / C14: several entries on one formatter with
//! faulting writers in between.
use libfuzzer_sys::fuzz_target;
use vh::fuzzdec;

fuzz_target!(|data: &[u8]| {
    let mut u = arbitrary::Unstructured::new(data);
    let Some(case) = fuzzdec::decode_seq_case(&mut u) else { return };
    if let Err(f) = vh::props::c02::check_seq(&case) {
        panic!("VIOLATION property=C02 signature={} :: {}", f.sig, f.msg);
    }
});
