#![no_main]
//! Coverage-guided search for C11: bytes -> value multiset (floats from raw bit patterns inside
//! the property's domain, unsigned, durations, repeated observations); the oracle of
//! c11-histogram runs inside the target (single-threaded recording).
use libfuzzer_sys::fuzz_target;
use vh::fuzzdec;

fuzz_target!(|data: &[u8]| {
    let mut u = arbitrary::Unstructured::new(data);
    let Some(case) = fuzzdec::decode_hist_case(&mut u) else { return };
    if let Err(f) = vh::props::c11::check(&case) {
        panic!("VIOLATION property=C11 signature={} :: {}", f.sig, f.msg);
    }
});
