#![no_main]
//! Coverage-guided search for C02 / C03 / C08: bytes are decoded into (configuration, entry,
//! sampling); the semantic oracle of the proptest checks runs inside the target.
use libfuzzer_sys::fuzz_target;
use vh::fuzzdec;

fuzz_target!(|data: &[u8]| {
    let mut u = arbitrary::Unstructured::new(data);
    let Some(case) = fuzzdec::decode_c02_case(&mut u) else { return };
    if let Err(f) = vh::props::c02::check(&case) {
        panic!("VIOLATION property=C02 signature={} :: {}", f.sig, f.msg);
    }
    // soundness half of C08 under a validating constructor
    let any = vh::props::c08::AnyCase {
        cfg: case.cfg.with_ctor(vh::emfh::Ctor::AllValidations).normalize(),
        entry: fuzzdec::pure_report_or_same(&case.entry),
        sampling: case.sampling.clone(),
    };
    if let Err(f) = vh::props::c08::check_any(&any) {
        panic!("VIOLATION property=C08 signature={} :: {}", f.sig, f.msg);
    }
});
