#![no_main]
//! Coverage-guided search for C10: bytes -> input / flush / guard sequence through
//! KeyedAggregator or the TeeSink composition; the reference-map oracle of c10-keyed-and-tee runs
//! inside the target.
use libfuzzer_sys::fuzz_target;
use vh::fuzzdec;

fuzz_target!(|data: &[u8]| {
    let mut u = arbitrary::Unstructured::new(data);
    let Some(case) = fuzzdec::decode_agg_case(&mut u) else { return };
    if let Err(f) = vh::props::c10::check(&case) {
        panic!("VIOLATION property=C10 signature={} :: {}", f.sig, f.msg);
    }
});
