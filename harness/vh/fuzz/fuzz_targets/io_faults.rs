#![no_main]
//! Coverage-guided search for C16: (configuration, entry, writer fault script) and
//! (configuration, entries, script, sink kind); the oracles of c16-fmt and c16-sink-format run
//! inside the target.
use libfuzzer_sys::fuzz_target;
use vh::fuzzdec;

fuzz_target!(|data: &[u8]| {
    let mut u = arbitrary::Unstructured::new(data);
    let Some(sel) = u.int_in_range(0..=2u8).ok() else { return };
    if sel < 2 {
        let Some(case) = fuzzdec::decode_fmt_case(&mut u) else { return };
        if let Err(f) = vh::props::c16::check_fmt(&case) {
            panic!("VIOLATION property=C16 signature={} :: {}", f.sig, f.msg);
        }
    } else {
        let Some(case) = fuzzdec::decode_sink_fmt_case(&mut u) else { return };
        if let Err(f) = vh::props::c16::check_sink_fmt(&case) {
            panic!("VIOLATION property=C16 signature={} :: {}", f.sig, f.msg);
        }
    }
});
