//! Runtime for the generated `#[metrics]` programs of C07: records what a closed root entry
//! writes (ordered) and compares it with the expectation embedded in the generated program.
use metrique_writer_core::{
    Entry, EntryConfig, EntryWriter, MetricFlags, Observation, Unit, ValidationError, Value, ValueWriter,
};
use std::borrow::Cow;
use std::time::SystemTime;

#[derive(Debug, Clone, PartialEq)]
pub struct Item {
    pub name: String,
    /// "S" string, "M" metric, "E" error
    pub kind: &'static str,
    pub value: String,
    pub unit: String,
}

#[derive(Default)]
pub struct Rec(pub Vec<Item>);

struct VW<'a>(&'a mut Option<(&'static str, String, String)>);
impl ValueWriter for VW<'_> {
    fn string(self, value: &str) {
        *self.0 = Some(("S", value.to_string(), String::new()));
    }
    fn metric<'a>(
        self,
        d: impl IntoIterator<Item = Observation>,
        unit: Unit,
        _dims: impl IntoIterator<Item = (&'a str, &'a str)>,
        _f: MetricFlags<'_>,
    ) {
        let v: Vec<String> = d
            .into_iter()
            .map(|o| match o {
                Observation::Unsigned(u) => format!("{}", u as f64),
                Observation::Floating(f) => format!("{}", f),
                Observation::Repeated { total, occurrences } => format!("{}x{}", total, occurrences),
                _ => "?".into(),
            })
            .collect();
        *self.0 = Some(("M", v.join(","), unit.name().to_string()));
    }
    fn error(self, e: ValidationError) {
        *self.0 = Some(("E", e.to_string(), String::new()));
    }
}
impl<'a> EntryWriter<'a> for Rec {
    fn timestamp(&mut self, _t: SystemTime) {}
    fn value(&mut self, name: impl Into<Cow<'a, str>>, value: &(impl Value + ?Sized)) {
        let mut slot = None;
        value.write(VW(&mut slot));
        if let Some((kind, value, unit)) = slot {
            self.0.push(Item {
                name: name.into().into_owned(),
                kind,
                value,
                unit,
            });
        }
    }
    fn config(&mut self, _c: &'a dyn EntryConfig) {}
}

pub fn record(e: &impl Entry) -> (Vec<Item>, Vec<(String, String)>) {
    let mut r = Rec::default();
    e.write(&mut r);
    let sg = e.sample_group().map(|(k, v)| (k.into_owned(), v.into_owned())).collect();
    (r.0, sg)
}

/// numeric values are compared with a tiny relative tolerance, everything else exactly
fn same(a: &Item, b: &(&str, &str, &str, &str)) -> bool {
    if a.name != b.0 || a.kind != b.1 || a.unit != b.3 {
        return false;
    }
    if a.kind == "M" {
        match (a.value.parse::<f64>(), b.2.parse::<f64>()) {
            (Ok(x), Ok(y)) => (x - y).abs() <= 1e-9 * x.abs().max(y.abs()),
            _ => a.value == b.2,
        }
    } else {
        a.value == b.2
    }
}

fn esc(s: &str) -> String {
    let mut o = String::new();
    for c in s.chars() {
        match c {
            '"' => o.push_str("\\\""),
            '\\' => o.push_str("\\\\"),
            c if (c as u32) < 0x20 => o.push_str(&format!("\\u{:04x}", c as u32)),
            c => o.push(c),
        }
    }
    o
}

/// prints one line per root: `C07 OK <root>` or `C07 MISMATCH <root> {json}`
pub fn check(
    root: &str,
    got: (Vec<Item>, Vec<(String, String)>),
    expected: &[(&str, &str, &str, &str)],
    expected_sg: &[(&str, &str)],
) {
    // the property says which items an entry CONTAINS, not in which order they are written: both
    // lists are compared sorted (name, kind, unit, value)
    let mut got = got;
    got.0.sort_by(|a, b| (&a.name, &a.kind, &a.unit, &a.value).cmp(&(&b.name, &b.kind, &b.unit, &b.value)));
    let mut expected: Vec<(&str, &str, &str, &str)> = expected.to_vec();
    expected.sort_by(|a, b| (a.0, a.1, a.3, a.2).cmp(&(b.0, b.1, b.3, b.2)));
    let expected = &expected[..];
    let items_ok = got.0.len() == expected.len() && got.0.iter().zip(expected).all(|(a, b)| same(a, b));
    let mut gsg: Vec<(String, String)> = got.1.clone();
    let mut esg: Vec<(String, String)> = expected_sg.iter().map(|(a, b)| (a.to_string(), b.to_string())).collect();
    gsg.sort();
    esg.sort();
    if items_ok && gsg == esg {
        println!("C07 OK {root}");
    } else {
        let g: Vec<String> = got
            .0
            .iter()
            .map(|i| format!("[\"{}\",\"{}\",\"{}\",\"{}\"]", esc(&i.name), i.kind, esc(&i.value), esc(&i.unit)))
            .collect();
        let e: Vec<String> = expected
            .iter()
            .map(|i| format!("[\"{}\",\"{}\",\"{}\",\"{}\"]", esc(i.0), i.1, esc(i.2), esc(i.3)))
            .collect();
        let gs: Vec<String> = gsg.iter().map(|(a, b)| format!("[\"{}\",\"{}\"]", esc(a), esc(b))).collect();
        let es: Vec<String> = esg.iter().map(|(a, b)| format!("[\"{}\",\"{}\"]", esc(a), esc(b))).collect();
        println!(
            "C07 MISMATCH {root} {{\"got\":[{}],\"expected\":[{}],\"got_sample_group\":[{}],\"expected_sample_group\":[{}]}}",
            g.join(","),
            e.join(","),
            gs.join(","),
            es.join(",")
        );
    }
}


/// runs one root; a panic inside the generated close / write code is reported for that root only
pub fn guard(root: &str, f: fn()) {
    let r = std::panic::catch_unwind(f);
    if let Err(e) = r {
        let msg = e
            .downcast_ref::<String>()
            .cloned()
            .or_else(|| e.downcast_ref::<&str>().map(|s| s.to_string()))
            .unwrap_or_else(|| "<non-string panic>".into());
        println!("C07 MISMATCH {root} {{\"panic\":\"{}\"}}", esc(&msg));
    }
}
